"""C04 — mapper dispatch and the stock traversals reach every node correctly."""
from __future__ import annotations

import itertools
import json
import warnings

import pymbolic.primitives as p

from ..c04_streams import CachedArgsStream, ForeignRegistryStream
from ..c04_streams2 import ArrayTraversalStream, ArrayWalkModelStream, UserNodesStream
from ..core import Failure, Prop, Stream
from ..gen import ExprGen, node_types, size
from ..oracles import scan
from ..sexp import A, dumps, exc_to_sx, expr_to_sx, loads, q, sx_shrinks, sx_to_expr

EXTRA_ARGS = (7,)
EXTRA_KW = {"flag": "k"}


def err_sx(ex):
    from pymbolic.mapper import UnsupportedExpressionError
    if isinstance(ex, (UnsupportedExpressionError, NotImplementedError)):
        return "(err Unsupported)"
    if isinstance(ex, ValueError) and "foreign" in str(ex):
        return "(err Foreign)"
    if isinstance(ex, TypeError):
        return "(err TypeError)"
    return f"(err {type(ex).__name__})"


# {{{ traversal streams

def make_walker(skip, log, cached=False):
    from pymbolic.mapper import CachedWalkMapper, WalkMapper
    base = CachedWalkMapper if cached else WalkMapper

    class W(base):
        def visit(self, expr, *args, **kwargs):
            log.append(("visit", expr, args == EXTRA_ARGS and kwargs == EXTRA_KW))
            return type(expr).__name__ not in skip

        def post_visit(self, expr, *args, **kwargs):
            log.append(("post", expr, args == EXTRA_ARGS and kwargs == EXTRA_KW))
    return W()


class WalkStream(Stream):
    """visit / post_visit event trace of an instrumented WalkMapper subclass"""
    name = "walk"

    def cases(self, rng, tier):
        n = 1500 if tier == "quick" else 30000
        g = ExprGen(rng, cse=0.1, floats=0.02)
        kinds = ["Sum", "Product", "Call", "CallWithKwargs", "Subscript", "If", "Slice",
                 "CommonSubexpression", "Substitution", "Power", "tuple", "Comparison", "Variable"]
        for i in range(n):
            e = g.gen(rng.choice(["num", "any", "bool", "int"]), rng.randint(1, 5))
            skip = rng.sample(kinds, rng.choice([0, 0, 1, 2]))
            yield {"expr": dumps(expr_to_sx(e)), "skip": skip, "args": bool(i % 2)}
        x = p.Variable("x")
        special = [p.Slice((x,)), p.Slice((x, None, p.Variable("s"))), p.Slice(()), p.Slice((None, x)),
                   p.Substitution(x + 1, ("x",), (p.Variable("y"),)), p.Derivative(x * x, ("x",)),
                   p.LeftShift(x, p.Variable("n")), p.CallWithKwargs(x, (1,), {"b": 2, "a": 3})]
        for e in special:
            for args in (False, True):
                yield {"expr": dumps(expr_to_sx(e)), "skip": [], "args": args}

    def request(self, pl):
        sk = " ".join(q(s) for s in pl["skip"])
        return f"(walk ({sk}) {'true' if pl['args'] else 'false'} {pl['expr']})"

    def _run(self, pl):
        e = sx_to_expr(loads(pl["expr"]))
        log = []
        w = make_walker(set(pl["skip"]), log)
        if pl["args"]:
            w(e, *EXTRA_ARGS, **EXTRA_KW)
        else:
            w(e)
        return e, log

    def run_impl(self, pl):
        try:
            e, log = self._run(pl)
        except RecursionError:
            raise
        except Exception as ex:
            return err_sx(ex)
        want_args = pl["args"]
        out = []
        for kind, node, got_args in log:
            ok = got_args if want_args else True
            flag = "true" if (want_args and ok) else "false"
            out.append(f"({kind} {dumps(expr_to_sx(node))} {flag})")
        return "(" + " ".join(out) + ")"

    def oracle(self, pl):
        """independent statement: pre-order visit / post-order post_visit of every node
        occurrence exactly once, children skipped where visit returned False, args unchanged"""
        try:
            e, log = self._run(pl)
        except Exception:
            return None
        skip = set(pl["skip"])
        want = []

        def rec(n):
            want.append(("visit", n))
            leaf = not isinstance(n, (p.Expression, tuple, list)) or isinstance(
                n, (p.Variable, p.Wildcard, p.DotWildcard, p.StarWildcard, p.FunctionSymbol, p.NaN))
            if type(n).__name__ in skip and not leaf:
                return
            for c in scan.children(n):
                rec(c)
            want.append(("post", n))
        rec(e)

        def norm(seq):
            # order among siblings is not part of the property: compare as nested multisets by
            # checking counts per (kind, node identity) and the bracket structure
            return sorted((k, id(n)) for k, n in seq)
        got = [(k, n) for k, n, _a in log]
        if norm(got) != norm(want):
            from collections import Counter
            cg = Counter((k, type(n).__name__) for k, n in got)
            cw = Counter((k, type(n).__name__) for k, n in want)
            diff = {k: (cg[k], cw[k]) for k in set(cg) | set(cw) if cg[k] != cw[k]}
            worst = sorted(diff)[0] if diff else ("?", "?")
            return Failure(f"walk-occurrences:{worst[1]}", f"event counts (got, expected) differ: {diff}", pl)
        # every visit of a node precedes the events of its descendants, post_visit follows them
        pos = {}
        for i, (k, n) in enumerate(got):
            pos.setdefault((k, id(n)), []).append(i)
        if pl["args"] and not all(a for _k, _n, a in log):
            bad = next(type(n).__name__ for _k, n, a in log if not a)
            return Failure(f"walk-args-dropped:{bad}", "extra arguments not passed through", pl)
        return None

    def shrink(self, pl):
        for s in sx_shrinks(loads(pl["expr"])):
            yield {**pl, "expr": dumps(s)}

    def nontrivial_key(self, pl, model, impl):
        return pl["expr"] + str(pl["skip"]) if size(sx_to_expr(loads(pl["expr"]))) >= 3 else None

    def stats(self, pl, mo, io, acc):
        nt = acc.setdefault("node_types", {})
        for k, v in node_types(sx_to_expr(loads(pl["expr"]))).items():
            nt[k] = nt.get(k, 0) + v


def make_combiner():
    from pymbolic.mapper import CombineMapper
    seen_args = []

    class C(CombineMapper):
        def combine(self, values):
            out = []
            for v in values:
                out.extend(v)
            return out

        def leaf(self, expr, *args, **kwargs):
            seen_args.append(args == EXTRA_ARGS and kwargs == EXTRA_KW)
            return [expr]
        map_constant = leaf
        map_variable = leaf
        map_wildcard = leaf
        map_dot_wildcard = leaf
        map_star_wildcard = leaf
        map_function_symbol = leaf
    return C(), seen_args


def make_renamer():
    from pymbolic.mapper import IdentityMapper

    class Renamer(IdentityMapper):
        def map_variable(self, expr, *args, **kwargs):
            if expr.name in ("x", "y"):
                return p.Variable(expr.name + "_r")
            return expr
    return Renamer()


class CombineStream(Stream):
    """CombineMapper with list concatenation: which leaves are folded in, in which order"""
    name = "combine"

    def cases(self, rng, tier):
        n = 1200 if tier == "quick" else 20000
        g = ExprGen(rng, cse=0.1, floats=0.02)
        for i in range(n):
            e = g.gen(rng.choice(["num", "any", "bool", "int"]), rng.randint(1, 5))
            yield {"expr": dumps(expr_to_sx(e)), "what": "combine"}
        g3 = ExprGen(rng, cse=0.05, floats=0.0, foreign=False)
        for i in range(n // 2):
            e = g3.gen(rng.choice(["num", "any", "any", "bool"]), rng.randint(1, 5))
            yield {"expr": dumps(expr_to_sx(e)), "what": "rename"}
        g2 = ExprGen(rng, cse=0.1, floats=0.02, foreign=False)
        for i in range(n // 2):
            e = g2.gen(rng.choice(["num", "any", "bool", "int"]), rng.randint(1, 5))
            yield {"expr": dumps(expr_to_sx(e)), "what": "identity"}

    def request(self, pl):
        if pl["what"] == "identity":
            return f"(subst () {pl['expr']})"
        if pl["what"] == "rename":
            return f'(subst ((name "x" (Var "x_r")) (name "y" (Var "y_r"))) {pl["expr"]})'
        return f"(combine {pl['expr']})"

    def run_impl(self, pl):
        e = sx_to_expr(loads(pl["expr"]))
        try:
            if pl["what"] == "identity":
                from pymbolic.mapper import IdentityMapper
                r = IdentityMapper()(e)
                return f"({dumps(expr_to_sx(r))} {'false' if r is e else 'true'})"
            if pl["what"] == "rename":
                r = make_renamer()(e)
                return f"({dumps(expr_to_sx(r))} {'false' if r is e else 'true'})"
            m, _ = make_combiner()
            r = m(e, *EXTRA_ARGS, **EXTRA_KW)
        except RecursionError:
            raise
        except Exception as ex:
            return err_sx(ex)
        return "(" + " ".join(dumps(expr_to_sx(x)) for x in r) + ")"

    def oracle(self, pl):
        e = sx_to_expr(loads(pl["expr"]))
        if pl["what"] == "rename":
            # a leaf-rewriting identity mapper rebuilds exactly along the changed paths: the result
            # is the tree with the leaves renamed (independent reference: textual renaming of the
            # serialised tree)
            try:
                r = make_renamer()(e)
            except Exception:
                return None
            want = pl["expr"].replace('(Var "x")', '(Var "x_r")').replace('(Var "y")', '(Var "y_r")')
            zero_cse = any(isinstance(s_, p.CommonSubexpression) and p.is_zero(s_.child)
                           for s_ in scan.subterms(e))
            try:
                got = dumps(expr_to_sx(r))
            except Exception:
                return None
            if got != want and not zero_cse:
                return Failure("identity-rewrite-lost", f"renaming leaves of {e!r} gives {r!r}", pl)
            return None
        if pl["what"] == "identity":
            from pymbolic.mapper import IdentityMapper
            try:
                r = IdentityMapper()(e)
            except Exception:
                return None
            has_list = any(isinstance(s, list) for s in scan.subterms(e))
            zero_cse = any(isinstance(s, p.CommonSubexpression) and p.is_zero(s.child)
                           for s in scan.subterms(e))
            try:
                equal = (r == e)
            except Exception:
                equal = True
            if not equal:
                key = "identity-cse-zero-collapses" if zero_cse else "identity-not-equal"
                return Failure(key, f"IdentityMapper()({e!r}) = {r!r}", pl)
            if r is not e and not has_list:
                key = "identity-cse-zero-collapses" if zero_cse else "identity-not-same-object"
                return Failure(key, "nothing changed below but a new object was returned", pl)
            return None
        m, seen = make_combiner()
        try:
            r = m(e, *EXTRA_ARGS, **EXTRA_KW)
        except Exception:
            return None
        # every leaf occurrence folded in exactly once (lookup names etc. are not leaves)
        def leaves(n):
            ch = scan.children(n)
            if not ch and not isinstance(n, (tuple, list)) and not (
                    isinstance(n, p.Expression) and not isinstance(
                        n, (p.Variable, p.Wildcard, p.DotWildcard, p.StarWildcard, p.FunctionSymbol))):
                return [n]
            out = []
            for c in ch:
                out.extend(leaves(c))
            return out
        want = leaves(e)
        if sorted(map(id, want)) != sorted(map(id, r)):
            return Failure("combine-misses-child", f"folded {len(r)} leaves, tree has {len(want)}", pl)
        if not all(seen):
            return Failure("combine-args-dropped", "extra arguments not passed through", pl)
        return None

    def shrink(self, pl):
        for s in sx_shrinks(loads(pl["expr"])):
            yield {**pl, "expr": dumps(s)}

    def nontrivial_key(self, pl, model, impl):
        return pl["what"] + pl["expr"] if not impl.startswith("(err") else None

    def stats(self, pl, mo, io, acc):
        acc[pl["what"]] = acc.get(pl["what"], 0) + 1
        if io.startswith("(err"):
            acc["raised"] = acc.get("raised", 0) + 1


class FieldsStream(Stream):
    """the dataclass fields of a node (name, what the DECLARED type says it holds, the expressions
    in it) as the real object has them vs. as the model reads the wire format — the reading the
    table-driven traversal theorems (`*_table_step_current`) rest on"""
    name = "fields"

    def cases(self, rng, tier):
        n = 500 if tier == "quick" else 8000
        g = ExprGen(rng, cse=0.15, floats=0.02)
        seen = set()
        for i in range(n):
            e = g.gen(rng.choice(["num", "any", "bool", "int"]), rng.randint(1, 4))
            for t in scan.subterms(e):
                if isinstance(t, p.Expression):
                    try:
                        k = dumps(expr_to_sx(t))
                    except Exception:
                        continue
                    if k not in seen and len(k) < 400:
                        seen.add(k)
                        yield {"expr": k}
        x, y = p.Variable("x"), p.Variable("y")
        special = [p.Slice((x,)), p.Slice((x, None, y)), p.Slice(()), p.Substitution(x + 1, ("x",), (y,)),
                   p.Derivative(x * x, ("x", "y")), p.LeftShift(x, y), p.RightShift(x, 2),
                   p.CallWithKwargs(x, (1,), {"b": 2, "a": y}), p.Call(x, ()), p.Power(x, y),
                   p.Quotient(x, y), p.FloorDiv(x, y), p.Remainder(x, y), p.Comparison(x, "<", y),
                   p.If(x, y, 1), p.Lookup(x, "a"), p.Subscript(x, y), p.NaN(), p.Wildcard(),
                   p.DotWildcard("w"), p.StarWildcard("w"), p.FunctionSymbol(),
                   p.CommonSubexpression(x, "pre", "scope"), p.CommonSubexpression(x),
                   p.Min((x, y)), p.Max((x,)), p.BitwiseNot(x), p.LogicalNot(x),
                   p.BitwiseOr((x, y)), p.BitwiseXor((x, y)), p.BitwiseAnd((x, y)),
                   p.LogicalOr((x, y)), p.LogicalAnd((x, y)), p.Sum((x, y)), p.Product((x, y))]
        for e in special:
            yield {"expr": dumps(expr_to_sx(e))}

    def request(self, pl):
        return f"(c04fields {pl['expr']})"

    def run_impl(self, pl):
        import dataclasses
        from collections.abc import Mapping
        from extract.traversal import field_kind
        e = sx_to_expr(loads(pl["expr"]))
        out = []
        for f in dataclasses.fields(e):
            v = getattr(e, f.name)
            kind = field_kind(type(e), f)
            if kind == "one":
                ch = [v]
            elif kind == "many":
                if not isinstance(v, tuple):
                    return f"(err field-not-a-tuple {f.name})"
                ch = list(v)
            elif kind == "dict":
                if not isinstance(v, Mapping):
                    return f"(err field-not-a-mapping {f.name})"
                ch = list(v.values())
            else:
                ch = []
            out.append("(" + " ".join([q(f.name), kind] + [dumps(expr_to_sx(c)) for c in ch]) + ")")
        return "(" + " ".join(out) + ")"

    def nontrivial_key(self, pl, model, impl):
        return pl["expr"]

    def stats(self, pl, mo, io, acc):
        k = loads(pl["expr"])[0]
        acc[str(k)] = acc.get(str(k), 0) + 1


class CallbackStream(Stream):
    """`CallbackMapper(function, IdentityMapper())` with a `function` that logs its calls and
    answers `mapper.fallback_mapper(expr, *args, **kwargs)`: which nodes reach `function`, in
    which order, with which extra arguments — or which error ends the traversal"""
    name = "callback"

    def cases(self, rng, tier):
        n = 700 if tier == "quick" else 12000
        g = ExprGen(rng, cse=0.1, floats=0.02)
        for i in range(n):
            e = g.gen(rng.choice(["num", "any", "bool", "int"]), rng.randint(1, 4))
            yield {"expr": dumps(expr_to_sx(e)), "args": bool(i % 2)}
        x, y = p.Variable("x"), p.Variable("y")
        special = [p.Wildcard(), p.DotWildcard("w"), p.StarWildcard("w"), p.NaN(), p.FunctionSymbol(),
                   p.Min((x, y)), p.Max((x, y)), p.Slice((x,)), p.Derivative(x, ("x",)),
                   p.Substitution(x, ("x",), (y,)), p.CallWithKwargs(x, (1,), {"a": y}),
                   p.Call(x, (y, 1)), p.Sum((x, p.Min((y,)))), (x, [y, 1]), [x, (y,)],
                   p.LeftShift(x, y), p.If(x, y, 1), p.CommonSubexpression(p.Sum((x, 0))),
                   p.Lookup(p.Subscript(x, y), "a"), p.Comparison(x, "<", y), p.Power(x, 2),
                   p.LogicalNot(x), p.BitwiseXor((x, y)), 3, True, 2.5, None]
        for e in special:
            for args in (False, True):
                yield {"expr": dumps(expr_to_sx(e)), "args": args}

    def request(self, pl):
        return f"(c04callback {'true' if pl['args'] else 'false'} {pl['expr']})"

    def _run(self, pl):
        from pymbolic.mapper import CallbackMapper, IdentityMapper
        e = sx_to_expr(loads(pl["expr"]))
        log = []

        def function(expr, mapper, *args, **kwargs):
            log.append((expr, args == EXTRA_ARGS and kwargs == EXTRA_KW))
            return mapper.fallback_mapper(expr, *args, **kwargs)
        cb = CallbackMapper(function, IdentityMapper())
        if pl["args"]:
            cb(e, *EXTRA_ARGS, **EXTRA_KW)
        else:
            cb(e)
        return e, log

    def run_impl(self, pl):
        try:
            e, log = self._run(pl)
        except RecursionError:
            raise
        except Exception as ex:
            return err_sx(ex)
        want = pl["args"]
        return "(" + " ".join(
            f"({dumps(expr_to_sx(n))} {'true' if (want and got) else 'false'})" for n, got in log) + ")"

    def oracle(self, pl):
        """extra arguments reach `function` unchanged at every node (the property's last clause)"""
        try:
            e, log = self._run(pl)
        except Exception:
            return None
        if pl["args"] and not all(a for _n, a in log):
            bad = next(type(n).__name__ for n, a in log if not a)
            return Failure(f"callback-args-dropped:{bad}", "extra arguments not passed through", pl)
        return None

    def shrink(self, pl):
        for s_ in sx_shrinks(loads(pl["expr"])):
            yield {**pl, "expr": dumps(s_)}

    def nontrivial_key(self, pl, model, impl):
        return pl["expr"] + str(pl["args"])

    def stats(self, pl, mo, io, acc):
        acc["raised" if io.startswith("(err") else "traced"] = \
            acc.get("raised" if io.startswith("(err") else "traced", 0) + 1

# }}}


# {{{ dispatch

def build_chain(chain):
    """chain: base-first list of (name, how, own_method|None); returns the most derived class"""
    warnings.simplefilter("ignore")
    parent = p.Expression
    for name, how, own in chain:
        body = {}
        if own is not None:
            body["mapper_method"] = own
        if how == "legacy":
            body["__getinitargs__"] = lambda self: ()
            body["init_arg_names"] = ()
            cls = type(name, (parent,), body)
        else:
            body["__annotations__"] = {}
            cls = p.expr_dataclass()(type(name, (parent,), body))
        parent = cls
    return parent


def chain_req(chain):
    return "(" + " ".join(f"({q(n)} {h} {q(o) if o else 'nil'})" for n, h, o in chain) + ")"


class DispatchStream(Stream):
    """all class hierarchies of <= 3 user node classes (decorated / legacy, with / without an own
    mapper_method) x subsets of handlers x the three copies of the dispatch logic"""
    name = "dispatch"

    def cases(self, rng, tier):
        names = ["NodeA", "MidNodeB", "LeafC"]
        options = [("decorated", None), ("decorated", "map_own"), ("legacy", None), ("legacy", "map_own")]
        for depth in (1, 2, 3):
            for combo in itertools.product(options, repeat=depth):
                chain = [[names[i], how, (None if own is None else f"{own}{i}")]
                         for i, (how, own) in enumerate(combo)]
                # candidate handler names: every effective name in the chain
                cand = sorted({f"map_own{i}" for i in range(depth)}
                              | {"map_node_a", "map_mid_node_b", "map_leaf_c"})
                subsets = [[]] + [[c] for c in cand] + [list(s) for s in itertools.combinations(cand, 2)]
                if tier == "quick" and depth == 3:
                    subsets = rng.sample(subsets, 6)
                for hs in subsets:
                    for variant in ("call", "fallback", "cached"):
                        yield {"chain": chain, "handlers": hs, "variant": variant}

    def request(self, pl):
        hs = " ".join(q(h) for h in pl["handlers"])
        return f"(dispatch {pl['variant']} {chain_req(pl['chain'])} ({hs}))"

    def _run(self, pl):
        from pymbolic.mapper import CachedMapper, Mapper
        cls = build_chain([tuple(c) for c in pl["chain"]])
        base = CachedMapper if pl["variant"] == "cached" else Mapper
        body = {}
        for h in pl["handlers"]:
            body[h] = (lambda name: lambda self, expr, *a, **k: ("handler", name))(h)
        body["handle_unsupported_expression"] = lambda self, expr, *a, **k: ("unsupported",)
        M = type("M", (base,), body)
        obj = cls()
        m = M()
        r = m.rec_fallback(obj) if pl["variant"] == "fallback" else m(obj)
        mro = [getattr(c, "mapper_method", None) for c in type(obj).__mro__
               if c is not object]
        return r, mro

    def run_impl(self, pl):
        try:
            r, mro = self._run(pl)
        except Exception as ex:
            return err_sx(ex)
        res = f'(handler {q(r[1])})' if r[0] == "handler" else "unsupported"
        ms = " ".join(q(m) if m else "nil" for m in mro)
        return f"({res} ({ms}))"

    def oracle(self, pl):
        try:
            r, mro = self._run(pl)
        except Exception as ex:
            return Failure("dispatch-raises", repr(ex), pl)
        hs = set(pl["handlers"])
        # the property: own class's handler, else nearest ancestor's that the mapper implements
        start = 1 if pl["variant"] == "fallback" else 0
        want = ("unsupported",)
        for m in mro[start:]:
            if m and m in hs:
                want = ("handler", m)
                break
        if r != want:
            return Failure("dispatch-nearest-ancestor", f"got {r}, nearest implemented is {want}; mro {mro}", pl)
        # decorated classes without an own name get the derived one
        for (name, how, own), eff in zip(pl["chain"], reversed(mro[:len(pl["chain"])])):
            if how == "decorated" and own is None and eff != "map_" + snake(name):
                return Failure("derived-handler-name", f"{name}: {eff}", pl)
            if own is not None and eff != own:
                return Failure("own-handler-name-replaced", f"{name}: {eff} instead of {own}", pl)
        return None

    def nontrivial_key(self, pl, model, impl):
        import json
        return json.dumps([pl["chain"], pl["handlers"], pl["variant"]])

    def stats(self, pl, mo, io, acc):
        acc[pl["variant"]] = acc.get(pl["variant"], 0) + 1


def snake(name):
    out = []
    for i, c in enumerate(name):
        prev = name[i - 1] if i else ""
        nxt = name[i + 1] if i + 1 < len(name) else ""
        if prev and c.isascii() and c.isupper() and (
                ("a" <= prev <= "z") or ("A" <= prev <= "Z" and "a" <= nxt <= "z")):
            out.append("_")
        out.append(c)
    return "".join(out).lower()


class NamesStream(Stream):
    """CamelCase -> map_snake_case for all class names over a small alphabet, and the routing of
    foreign objects"""
    name = "handler-names"

    def cases(self, rng, tier):
        alphabet = "AbCd1_"
        maxlen = 4 if tier == "quick" else 5
        for n in range(1, maxlen + 1):
            for t in itertools.product(alphabet, repeat=n):
                s = "".join(t)
                if s[0].isdigit():
                    continue
                yield {"what": "camel", "name": s}
        for s in ["CallWithKwargs", "HTTPServer", "XMLHttpRequest", "ABC", "aB", "A1B", "FooBARBaz", "x"]:
            yield {"what": "camel", "name": s}
        for k in ["number", "bool", "float", "numpy", "list", "tuple", "str", "none", "dict"]:
            yield {"what": "foreign", "name": k}

    def request(self, pl):
        if pl["what"] == "camel":
            return f"(camel {q(pl['name'])})"
        kind = {"bool": "number", "float": "number", "str": "other", "none": "other",
                "dict": "other"}.get(pl["name"], pl["name"])
        return f"(foreign {kind})"

    def run_impl(self, pl):
        warnings.simplefilter("ignore")
        if pl["what"] == "camel":
            try:
                cls = p.expr_dataclass()(type(pl["name"], (p.Expression,), {"__annotations__": {}}))
            except Exception as ex:
                return err_sx(ex)
            return q(cls.mapper_method[len("map_"):])
        from pymbolic.mapper import Mapper
        import numpy as np

        class M(Mapper):
            def map_constant(self, e):
                return '(foreign "map_constant")'

            def map_list(self, e):
                return '(foreign "map_list")'

            def map_tuple(self, e):
                return '(foreign "map_tuple")'

            def map_numpy_array(self, e):
                return '(foreign "map_numpy_array")'
        obj = {"number": 3, "bool": True, "float": 2.5, "numpy": np.zeros(2), "list": [1], "tuple": (1,),
               "str": "s", "none": None, "dict": {}}[pl["name"]]
        try:
            return M()(obj)
        except ValueError:
            return "invalid-foreign"
        except Exception as ex:
            return err_sx(ex)

    def oracle(self, pl):
        if pl["what"] == "camel":
            got = self.run_impl(pl)
            if got != q(snake(pl["name"])):
                return Failure("handler-name-derivation", f"{pl['name']} -> {got}", pl)
        return None

    def nontrivial_key(self, pl, model, impl):
        return pl["what"] + pl["name"]


# {{{ dispatch histories: several mapper classes, ONE set of node classes, a chosen order

HIST_ARGS = [((), {}), (EXTRA_ARGS, EXTRA_KW), ((1, 2), {})]


def build_world(classes):
    """classes: [[name, how, own|None, [parent indices]]] (parents first; [] = Expression).
    Returns the list of node classes; a second base that Python refuses (MRO conflict) is dropped."""
    warnings.simplefilter("ignore")
    out = []
    for name, how, own, parents in classes:
        bases = tuple(out[i] for i in parents) or (p.Expression,)
        body = {}
        if own is not None:
            body["mapper_method"] = own
        if how == "legacy":
            body["__getinitargs__"] = lambda self: ()
            body["init_arg_names"] = ()
        else:
            body["__annotations__"] = {}

        def make(bases, body=body, how=how, name=name):
            cls = type(name, bases, dict(body))
            return cls if how == "legacy" else p.expr_dataclass()(cls)
        try:
            cls = make(bases)
        except TypeError:
            cls = make(bases[:1])
        out.append(cls)
    return out


def build_mappers(mappers):
    """mappers: [{"base": "Mapper"|"CachedMapper", "parent": index|-1, "handlers": [...]}] ->
    (mapper classes, the set of handler names each implements — inherited ones included)"""
    from pymbolic.mapper import CachedMapper, Mapper
    out, impl = [], []
    for i, m in enumerate(mappers):
        body = {}
        for h in m["handlers"]:
            body[h] = (lambda name: lambda self, expr, *a, **k: ("handler", name, expr, a, k))(h)
        body["handle_unsupported_expression"] = lambda self, expr, *a, **k: ("unsupported", None, expr, a, k)
        if m["parent"] >= 0:
            base = out[m["parent"]]
            have = set(impl[m["parent"]])
        else:
            base = CachedMapper if m["base"] == "CachedMapper" else Mapper
            have = set()
        out.append(type(f"M{i}", (base,), body))
        impl.append(have | set(m["handlers"]))
    return out, impl


def mro_names(cls):
    """`mapper_method` as each class of the MRO has it (attribute lookup), most derived first"""
    return [getattr(c, "mapper_method", None) for c in cls.__mro__ if c is not object]


def nearest(names, implemented, variant):
    """the property's words: own class's handler name, else the nearest ancestor's the mapper
    implements, else the unsupported hook (`rec_fallback` starts at the first ancestor)"""
    for m in names[(1 if variant == "fallback" else 0):]:
        if m and m in implemented:
            return ("handler", m)
    return ("unsupported", None)


class HandlerErrorsStream(Stream):
    """What a handler RAISES is the caller's business: it must leave the mapper call unchanged (same
    exception object), and the dispatcher must not take it for "no such handler" - no other
    handler, not the ancestor's, not the unsupported-expression hook, may run for that node.
    Exceptions of the kinds a dispatch routine itself might catch while looking for a handler
    (AttributeError incl. a genuinely missing attribute inside the handler, KeyError, LookupError,
    TypeError, NotImplementedError, a user exception) x node hierarchies of depth 1-3 x which
    levels the mapper implements x `__call__` / `rec` / cached.  Oracle only."""
    name = "dispatch-handler-errors"
    has_model = False
    KINDS = ["AttributeError", "AttributeError-missing-attribute", "AttributeError-on-node", "KeyError",
             "LookupError", "TypeError", "NotImplementedError", "UserError", "StopIteration"]

    def cases(self, rng, tier):
        names = ["NodeA", "MidNodeB", "LeafC"]
        hows = ["decorated", "legacy"]
        for depth in (1, 2, 3):
            for how in itertools.product(hows, repeat=depth):
                chain = [[names[i], how[i], f"map_lvl{i}"] for i in range(depth)]
                for kind in self.KINDS:
                    for variant in ("call", "rec", "cached"):
                        # (`rec_fallback` by design starts at the ancestors: not a variant here)
                        # the raising handler is the node's own (most derived); the mapper also
                        # implements some ancestors' handlers, which must stay silent
                        for others in ([], list(range(depth - 1))):
                            if tier == "quick" and depth == 3 and rng.random() < 0.5:
                                continue
                            yield {"chain": chain, "kind": kind, "variant": variant, "others": others}

    def run_impl(self, pl):
        return "(oracle-only)"

    def oracle(self, pl):
        from pymbolic.mapper import CachedMapper, Mapper
        cls = build_chain([tuple(c) for c in pl["chain"]])
        depth = len(pl["chain"])
        log = []

        class UserError(Exception):
            pass

        def raiser(self, expr, *a, **k):
            log.append("own")
            kind = pl["kind"]
            if kind == "AttributeError-missing-attribute":
                return self.no_such_attribute_of_the_mapper      # a real bug in a handler
            if kind == "AttributeError-on-node":
                return expr.no_such_field_of_the_node
            exc = {"AttributeError": AttributeError("raised by the handler"), "KeyError": KeyError("k"),
                   "LookupError": LookupError("l"), "TypeError": TypeError("t"),
                   "NotImplementedError": NotImplementedError("n"), "UserError": UserError("u"),
                   "StopIteration": StopIteration("s")}[kind]
            raiser.exc = exc
            raise exc
        base = CachedMapper if pl["variant"] == "cached" else Mapper
        body = {f"map_lvl{depth - 1}": raiser,
                "handle_unsupported_expression": lambda self, expr, *a, **k: log.append("hook")}
        for i in pl["others"]:
            body[f"map_lvl{i}"] = (lambda i: lambda self, expr, *a, **k: log.append(f"ancestor{i}"))(i)
        M = type("M", (base,), body)
        m, node = M(), cls()
        call = {"call": m, "cached": m, "rec": m.rec, "fallback": m.rec_fallback}[pl["variant"]]
        want = pl["kind"].split("-")[0]
        try:
            r = call(node)
        except BaseException as ex:     # noqa: BLE001
            got = type(ex).__name__
            same = getattr(raiser, "exc", None) is None or ex is raiser.exc
            if got != want or not same or log != ["own"]:
                return Failure(f"handler-error-not-propagated:{pl['kind']}:{pl['variant']}",
                               f"the node's own handler raised {want}; the call raised {got} "
                               f"({'the same object' if same else 'ANOTHER exception'}), handlers run: {log}", pl)
            return None
        return Failure(f"handler-error-swallowed:{pl['kind']}:{pl['variant']}",
                       f"the node's own handler raised {want}; the call RETURNED {r!r}, handlers run: {log}", pl)

    def shrink(self, pl):
        if len(pl["chain"]) > 1:
            yield {**pl, "chain": pl["chain"][1:], "others": [i - 1 for i in pl["others"] if i > 0]}
        if pl["others"]:
            yield {**pl, "others": pl["others"][:-1]}

    def nontrivial_key(self, pl, model, impl):
        return json.dumps(pl, sort_keys=True)


class DispatchHistoryStream(Stream):
    """Dispatch is a function of (mapper, node class) alone.  Inside ONE process, in a chosen
    ORDER, several mapper classes (handler subsets, plain / cached, also inheriting from each
    other) are applied — through `__call__`, `rec` and `rec_fallback`, on fresh and on re-used
    instances, with different extra arguments — to instances of the SAME node classes
    (hierarchies of depth >= 3, decorated and legacy, trees and diamonds, shared handler names,
    equal class names).  Every single dispatch is compared with an independent walk over the
    node class's MRO; extra arguments must arrive unchanged.

    (The `dispatch` stream builds fresh node classes and a fresh mapper class for every case, so
    nothing a dispatch routine remembers per node type / per mapper class / per instance is ever
    looked up a second time there.)"""
    name = "dispatch-history"
    has_model = False

    # ---- generation
    def _exhaustive(self, rng, tier):
        """linear chains NodeA <- NodeB <- NodeC (<- NodeD): all ordered pairs (thorough: also
        triples at depth 3) of handler subsets, first mapper, second mapper, first again"""
        names = ["NodeA", "NodeB", "NodeC", "NodeD"]
        hows = ["decorated", "legacy"]
        for depth in (3, 4):
            cand = [f"map_node_{c}" for c in "abcd"[:depth]]
            subsets = [list(c) for r in range(depth + 1) for c in itertools.combinations(cand, r)]
            decls = [("decorated",) * depth]
            all_decls = list(itertools.product(hows, repeat=depth))
            if tier == "quick":
                decls.append(rng.choice(all_decls[1:]))
            else:
                decls = all_decls
            tuples = list(itertools.product(subsets, repeat=2))
            if depth == 4 and tier == "quick":
                tuples = rng.sample(tuples, 60)
            if depth == 3 and tier != "quick":
                tuples += list(itertools.product(subsets, repeat=3))
            for decl in decls:
                # a legacy class needs a name of its own to be a dispatch target of its own
                classes = [[names[i], decl[i], (f"map_node_{'abcd'[i]}" if decl[i] == "legacy" else None),
                            ([i - 1] if i else [])] for i in range(depth)]
                for tup in tuples:
                    for variant, base in (("call", "Mapper"), ("fallback", "Mapper"),
                                          ("call", "CachedMapper"), ("rec", "Mapper")):
                        if tier == "quick" and (variant, base) != ("call", "Mapper") \
                                and rng.random() < 0.6:
                            continue
                        mappers = [{"base": base, "parent": -1, "handlers": hs} for hs in tup]
                        order = list(range(len(tup))) + [0]
                        steps = [[mi, ci, variant, False, 1] for mi in order for ci in range(depth)]
                        yield {"classes": classes, "mappers": mappers, "steps": steps}

    def _random(self, rng):
        pool = ["NodeA", "NodeB", "NodeC", "NodeD", "LeafE", "MidNodeF"]
        n = rng.randint(3, 6)
        classes = []
        for i in range(n):
            name = pool[i] if rng.random() < 0.8 else rng.choice(pool[:n])
            how = rng.choice(["decorated", "decorated", "legacy"])
            r = rng.random()
            own = None if r < 0.65 else (f"map_own{i}" if r < 0.9 else "map_shared")
            if i < 3:
                parents = [i - 1] if i else []
            else:
                parents = [rng.choice([i - 1, i - 1, rng.randrange(i)])]
                if rng.random() < 0.15:
                    second = rng.randrange(i)
                    if second not in parents:
                        parents.append(second)
            classes.append([name, how, own, parents])
        cand = sorted({m for k in build_world(classes) for m in mro_names(k) if m} | {"map_unrelated"})
        mappers = []
        for i in range(rng.randint(2, 4)):
            dens = rng.choice([0.25, 0.5, 0.75])
            mappers.append({"base": "CachedMapper" if rng.random() < 0.25 else "Mapper",
                            "parent": rng.randrange(i) if i and rng.random() < 0.3 else -1,
                            "handlers": [c for c in cand if rng.random() < dens]})
        steps = []
        for _ in range(rng.randint(8, 30)):
            steps.append([rng.randrange(len(mappers)), rng.randrange(n),
                          rng.choice(["call", "call", "rec", "fallback"]), rng.random() < 0.3,
                          rng.randrange(len(HIST_ARGS))])
        return {"classes": classes, "mappers": mappers, "steps": steps}

    def cases(self, rng, tier):
        yield from self._exhaustive(rng, tier)
        for _ in range(300 if tier == "quick" else 6000):
            yield self._random(rng)

    # ---- running
    def _run(self, pl):
        """-> [(step index, got, want, names, implemented)]; `got` = (kind, handler, same object?,
        args ok?) or ("raised", repr)"""
        world = build_world(pl["classes"])
        nodes = [k() for k in world]
        mclasses, impl = build_mappers(pl["mappers"])
        inst = [k() for k in mclasses]
        out = []
        for si, (mi, ci, variant, fresh, argsel) in enumerate(pl["steps"]):
            m = mclasses[mi]() if fresh else inst[mi]
            args, kwargs = HIST_ARGS[argsel]
            node = nodes[ci]
            fn = {"call": m, "rec": m.rec, "fallback": m.rec_fallback}[variant]
            try:
                r = fn(node, *args, **kwargs)
                got = (r[0], r[1], r[2] is node, r[3] == tuple(args) and r[4] == kwargs)
            except Exception as ex:     # noqa: BLE001
                got = ("raised", f"{type(ex).__name__}: {str(ex)[:80]}", True, True)
            names = mro_names(world[ci])
            out.append((si, got, nearest(names, impl[mi], variant), names, sorted(impl[mi])))
        return out

    def run_impl(self, pl):
        try:
            res = self._run(pl)
        except Exception as ex:     # noqa: BLE001
            return err_sx(ex)
        return "(" + " ".join(q(str(g[1])) if g[0] == "handler" else g[0] for _i, g, *_ in res) + ")"

    def oracle(self, pl):
        try:
            res = self._run(pl)
        except Exception as ex:     # noqa: BLE001
            return Failure("dispatch-history-crash", repr(ex), pl)
        for si, got, want, names, implemented in res:
            mi, ci, variant, fresh, argsel = pl["steps"][si]
            if got[:2] != want:
                # the same single dispatch in a world of its own (new node classes, new mapper
                # class, nothing before it): right there = the failure is one of ORDER / sharing
                alone = {"classes": pl["classes"], "mappers": pl["mappers"],
                         "steps": [[mi, ci, variant, False, argsel]]}
                try:
                    a = self._run(alone)[0]
                    isolated_ok = a[1][:2] == a[2]
                except Exception:     # noqa: BLE001
                    isolated_ok = False
                kind = "dispatch-depends-on-history" if isolated_ok else "dispatch-nearest-ancestor"
                return Failure(f"{kind}:{variant}",
                               f"step {si}: mapper M{mi} implementing {implemented} on "
                               f"{pl['classes'][ci][0]} (mapper_method along the MRO: {names}) via "
                               f"{variant}: got {got[:2]}, the definition gives {want}"
                               + ("; the same dispatch alone, on fresh classes, is right"
                                  if isolated_ok else ""), pl)
            if not got[2]:
                return Failure("dispatch-other-object", f"step {si}: handler received another object", pl)
            if not got[3]:
                return Failure("dispatch-args-changed", f"step {si}: extra arguments changed", pl)
        return None

    def shrink(self, pl):
        steps = pl["steps"]
        for i in range(len(steps)):
            yield {**pl, "steps": steps[:i] + steps[i + 1:]}
        for mi, m in enumerate(pl["mappers"]):
            for h in m["handlers"]:
                ms = [dict(x) for x in pl["mappers"]]
                ms[mi]["handlers"] = [x for x in m["handlers"] if x != h]
                yield {**pl, "mappers": ms}
        # drop the last class / mapper when nothing refers to it
        nc, nm = len(pl["classes"]), len(pl["mappers"])
        if nc > 1 and all(s[1] != nc - 1 for s in steps):
            yield {**pl, "classes": pl["classes"][:-1]}
        if nm > 1 and all(s[0] != nm - 1 for s in steps) \
                and all(m["parent"] != nm - 1 for m in pl["mappers"]):
            yield {**pl, "mappers": pl["mappers"][:-1]}
        for i, s_ in enumerate(steps):
            if s_[3] or s_[4]:
                yield {**pl, "steps": steps[:i] + [[s_[0], s_[1], s_[2], False, 0]] + steps[i + 1:]}

    def nontrivial_key(self, pl, model, impl):
        import json
        return json.dumps(pl, sort_keys=True) if len({s[0] for s in pl["steps"]}) > 1 else None

    def stats(self, pl, mo, io, acc):
        acc["dispatches"] = acc.get("dispatches", 0) + len(pl["steps"])
        acc["handler"] = acc.get("handler", 0) + io.count('"')// 2
        acc["unsupported"] = acc.get("unsupported", 0) + io.count("unsupported")
        seq = [(s[0], s[1]) for s in pl["steps"]]
        # a node class dispatched by one mapper class and LATER by another one
        seen, cross = {}, 0
        for mi, ci in seq:
            if seen.get(ci, mi) != mi:
                cross += 1
            seen[ci] = mi
        acc["cross_mapper_revisits"] = acc.get("cross_mapper_revisits", 0) + cross
        d = max((len(mro_names_of(pl["classes"], i)) for i in range(len(pl["classes"]))), default=0)
        acc["max_depth"] = max(acc.get("max_depth", 0), d)


def mro_names_of(classes, i):
    """ancestors of class i along first parents (depth of the hierarchy, for the statistics)"""
    out = [i]
    while classes[out[-1]][3]:
        out.append(classes[out[-1]][3][0])
    return out

# }}}


# {{{ collector histories: one mapper INSTANCE, a sequence of trees sharing subtrees

COLLECTOR_KINDS = ["dep", "cdep", "vars", "cached-vars", "cse-vars", "cached-cse-vars"]
DEP_FLAGS = [dict(subscripts=s_, lookups=l_, calls=c_, cses=e_)
             for s_ in (True, False) for l_ in (True, False)
             for c_ in (True, False, "descend_args") for e_ in (False, True)]


def make_collector(kind, flags):
    from pymbolic.mapper import CachedCollector, CachedMapper, Collector, CSECachingMapperMixin
    from pymbolic.mapper.dependency import CachedDependencyMapper, DependencyMapper
    if kind in ("dep", "cdep"):
        cls = DependencyMapper if kind == "dep" else CachedDependencyMapper
        if flags.get("composite") is not None:
            return cls(composite_leaves=flags["composite"], include_cses=flags["cses"])
        return cls(include_subscripts=flags["subscripts"], include_lookups=flags["lookups"],
                   include_calls=flags["calls"], include_cses=flags["cses"])

    def map_variable(self, expr, *args, **kwargs):
        return {expr}
    body = {"map_variable": map_variable}
    if kind == "vars":
        return type("Vars", (Collector,), body)()
    if kind == "cached-vars":
        return type("CachedVars", (CachedCollector,), body)()
    body["map_common_subexpression_uncached"] = Collector.map_common_subexpression
    if kind == "cse-vars":
        return type("CseVars", (CSECachingMapperMixin, Collector), body)()
    if kind == "cached-cse-vars":
        def init(self):
            CachedMapper.__init__(self)
        body["__init__"] = init
        return type("CachedCseVars", (CachedMapper, CSECachingMapperMixin, Collector), body)()
    raise ValueError(kind)


def collector_reference(kind, flags, e):
    """what the children contribute, by a scan that involves no mapper: the dependency mappers
    collect the outermost selected composites and the variables outside them, the user-written
    collectors every variable occurrence; inner nodes contribute nothing of their own"""
    if kind in ("dep", "cdep"):
        if flags.get("composite") is not None:
            c = flags["composite"]
            return scan.dependencies(e, c, c, c, flags["cses"])
        return scan.dependencies(e, flags["subscripts"], flags["lookups"], flags["calls"], flags["cses"])
    return {t for t in scan.subterms(e) if isinstance(t, p.Variable)}


class CollectorHistoryStream(Stream):
    """The combine / collector family on HISTORIES: one mapper instance (Collector subclasses
    with and without `CachedMapper`, with `CSECachingMapperMixin`, `DependencyMapper` /
    `CachedDependencyMapper` under every flag set) is given a sequence of trees that share
    subtrees and `CommonSubexpression` nodes (shared as objects).  Every answer is compared with
    (a) an independent fold over the children ("the result of every child, nothing more, nothing
    less"), (b) the answer of a fresh instance; the returned objects are kept and compared again
    with what they were when the history is over (a later call must not change an earlier
    result)."""
    name = "collector-history"
    has_model = False

    def cases(self, rng, tier):
        n = 320 if tier == "quick" else 6000
        g = ExprGen(rng, cse=0.25, floats=0.0, foreign=False, malformed=0.0)
        for i in range(n):
            kind = COLLECTOR_KINDS[i % len(COLLECTOR_KINDS)]
            flags = None
            if kind in ("dep", "cdep"):
                flags = dict(rng.choice(DEP_FLAGS), composite=None)
                if rng.random() < 0.15:
                    flags["composite"] = rng.random() < 0.5
            # the shared pieces: small trees, about half of them wrapped as common subexpressions
            pool = []
            for _ in range(rng.randint(2, 4)):
                t = g.gen(rng.choice(["num", "any", "int"]), rng.randint(0, 2))
                if rng.random() < 0.55 and isinstance(t, p.Expression):
                    t = p.CommonSubexpression(t, rng.choice([None, "pre"]))
                pool.append(t)
            trees = []
            for _ in range(rng.randint(3, 9)):
                r = rng.random()
                if r < 0.3:
                    t = rng.choice(pool)
                elif r < 0.75:
                    parts = [rng.choice(pool) for _ in range(rng.randint(1, 2))]
                    parts += [g.gen("num", rng.randint(0, 1)) for _ in range(rng.randint(1, 2))]
                    if rng.random() < 0.5:
                        rng.shuffle(parts)
                    t = self._wrap(rng, parts)
                elif r < 0.9 and trees:
                    t = self._wrap(rng, [rng.choice(trees), rng.choice(pool)])
                else:
                    t = g.gen(rng.choice(["num", "any", "bool"]), rng.randint(1, 3))
                trees.append(t)
            try:
                sx = [dumps(expr_to_sx(t)) for t in trees]
            except Exception:     # noqa: BLE001
                continue
            steps = [[j, (1 if rng.random() < 0.1 else 0)] for j in range(len(sx))]
            yield {"kind": kind, "flags": flags, "trees": sx, "steps": steps}
        # the plain patterns, for every kind: a shared CSE first / last among siblings, then alone
        x, y, z, w = (p.Variable(v) for v in "xyzw")
        cse = p.CommonSubexpression(p.Power(x, 2), "sq")
        sub = p.Product((x, p.Subscript(w, 1)))
        for shared in (cse, sub):
            fixed = [p.Sum((shared, y, z)), shared, p.Product((w, shared)), shared,
                     p.If(p.Comparison(shared, "<", 0), p.Sum((shared, 1)), p.Max((w, shared))),
                     (shared, p.Sum((z, 3))), shared, p.Power(shared, y), p.Quotient(shared, z), shared]
            sx = [dumps(expr_to_sx(t)) for t in fixed]
            for kind in COLLECTOR_KINDS:
                fls = [None]
                if kind in ("dep", "cdep"):
                    fls = [dict(f, composite=None) for f in DEP_FLAGS[::(5 if tier == "quick" else 1)]]
                for fl in fls:
                    yield {"kind": kind, "flags": fl, "trees": sx,
                           "steps": [[j, 0] for j in range(len(sx))]}

    @staticmethod
    def _wrap(rng, parts):
        k = rng.choice(["Sum", "Product", "Max", "tuple", "If", "Power", "Quotient", "Comparison",
                        "LogicalAnd", "Call"])
        if k == "If" and len(parts) >= 3:
            return p.If(parts[0], parts[1], parts[2])
        if k in ("Power", "Quotient", "Comparison") and len(parts) >= 2:
            a, b = parts[0], parts[1]
            rest = parts[2:]
            t = (p.Power(a, b) if k == "Power" else p.Quotient(a, b) if k == "Quotient"
                 else p.Comparison(a, "<", b))
            return p.Sum((t, *rest)) if rest else t
        if k == "tuple":
            return tuple(parts)
        if k == "Call":
            return p.Call(p.Variable("f"), tuple(parts))
        cls = {"Sum": p.Sum, "Product": p.Product, "Max": p.Max, "LogicalAnd": p.LogicalAnd}.get(k, p.Sum)
        return cls(tuple(parts))

    def _trees(self, pl):
        from ..sexp import hashcons
        memo = {}
        return [hashcons(sx_to_expr(loads(t)), memo) for t in pl["trees"]]

    def _run(self, pl):
        """-> (per step: (tree index, args, got | None, snapshot, fresh | None, want), end check)"""
        trees = self._trees(pl)
        m = make_collector(pl["kind"], pl["flags"])
        rows, kept = [], []
        for ti, argsel in pl["steps"]:
            t = trees[ti]
            args = (7,) if argsel else ()
            try:
                fresh = make_collector(pl["kind"], pl["flags"])(t, *args)
            except RecursionError:
                raise
            except Exception:     # noqa: BLE001
                fresh = None
            try:
                got = m(t, *args)
            except RecursionError:
                raise
            except Exception as ex:     # noqa: BLE001
                rows.append((ti, args, ("raised", repr(ex)[:100]), None, fresh, None))
                continue
            snap = set(got) if isinstance(got, (set, frozenset)) else None
            kept.append((len(rows), got, snap))
            rows.append((ti, args, got, snap, fresh, collector_reference(pl["kind"], pl["flags"], t)))
        changed = [i for i, got, snap in kept if snap is not None and set(got) != snap]
        return trees, rows, changed

    @staticmethod
    def _show(s_):
        return sorted(str(x) for x in s_)

    def run_impl(self, pl):
        try:
            _t, rows, _c = self._run(pl)
        except RecursionError:
            raise
        except Exception as ex:     # noqa: BLE001
            return err_sx(ex)
        out = []
        for _ti, _a, got, snap, _f, _w in rows:
            out.append("raised" if snap is None else
                       "(" + " ".join(sorted(dumps(expr_to_sx(d)) for d in snap)) + ")")
        return "(" + " ".join(out) + ")"

    def oracle(self, pl):
        trees, rows, changed = self._run(pl)
        kind = pl["kind"]
        for si, (ti, args, got, snap, fresh, want) in enumerate(rows):
            if snap is None:
                if isinstance(got, tuple) and got and got[0] == "raised":
                    if fresh is not None:
                        return Failure(f"collector-history-raises:{kind}",
                                       f"step {si}: {got[1]} on {trees[ti]!r}; a fresh instance answers", pl)
                    continue
                return Failure(f"collector-result-not-a-set:{kind}", f"step {si}: {type(got).__name__}", pl)
            if fresh is None:
                continue        # a node type the collector does not handle: reported by raising
            if snap != want:
                how = "extra" if snap - want else "missing"
                if fresh == want:
                    return Failure(f"collector-history-{how}:{kind}",
                                   f"step {si}: {trees[ti]!r} -> {self._show(snap)}; the children "
                                   f"contribute {self._show(want)} (and a fresh instance says so)", pl)
                return Failure(f"collector-fold-{how}:{kind}",
                               f"step {si}: {trees[ti]!r} -> {self._show(snap)}; the children contribute "
                               f"{self._show(want)}", pl)
            if fresh != snap:
                return Failure(f"collector-fresh-differs:{kind}",
                               f"step {si}: fresh instance {self._show(fresh)}, history {self._show(snap)}", pl)
        if changed:
            si = changed[0]
            return Failure(f"collector-earlier-result-changed:{kind}",
                           f"the set returned at step {si} for {trees[rows[si][0]]!r} was "
                           f"{self._show(rows[si][3])} and is {self._show(rows[si][2])} after the "
                           "later calls", pl)
        return None

    def shrink(self, pl):
        steps = pl["steps"]
        for i in range(len(steps)):
            yield {**pl, "steps": steps[:i] + steps[i + 1:]}
        used = sorted({s_[0] for s_ in steps})
        if len(used) < len(pl["trees"]):
            yield {**pl, "trees": [pl["trees"][ti] for ti in used],
                   "steps": [[used.index(ti), a] for ti, a in steps]}
        for ti in used:
            for s_ in sx_shrinks(loads(pl["trees"][ti])):
                ts = list(pl["trees"])
                ts[ti] = dumps(s_)
                yield {**pl, "trees": ts}

    def nontrivial_key(self, pl, model, impl):
        import json
        return json.dumps([pl["kind"], pl["flags"], pl["trees"], pl["steps"]], sort_keys=True) \
            if impl.count("(") > 2 else None

    def stats(self, pl, mo, io, acc):
        acc[pl["kind"]] = acc.get(pl["kind"], 0) + 1
        acc["calls"] = acc.get("calls", 0) + len(pl["steps"])
        acc["raised"] = acc.get("raised", 0) + io.count("raised")
        acc["cse_trees"] = acc.get("cse_trees", 0) + sum(1 for t in pl["trees"] if "(CSE" in t)

# }}}


def probes():
    """defects repaired by fix: commits + the default unsupported hook raises"""
    from pymbolic.mapper import Mapper, UnsupportedExpressionError
    res = []
    x = p.Variable("x")
    log = []
    make_walker(set(), log)(p.Slice((x,)))
    res.append(("walk-slice-child-twice", sum(1 for k, n, _ in log if k == "visit" and n is x) != 1,
                "WalkMapper on Slice((x,)) must visit x once"))
    log = []
    make_walker(set(), log)(p.Substitution(x, ("x",), (1,)), *EXTRA_ARGS, **EXTRA_KW)
    res.append(("walk-substitution-drops-args", not all(a for _k, _n, a in log),
                "WalkMapper.map_substitution must pass extra arguments to visit"))

    class Unk(p.Expression):
        def __getinitargs__(self):
            return ()
        mapper_method = "map_nothing_implements_this"
    try:
        Mapper()(Unk())
        bad = True
    except UnsupportedExpressionError:
        bad = False
    except Exception:
        bad = True
    res.append(("unsupported-not-raised", bad, "a node type without handler must raise UnsupportedExpressionError"))
    return res


def extract(ctx=None):
    """T-gen: the handler shapes of WalkMapper / IdentityMapper / CombineMapper, the node classes
    and the SubstitutionMapper hooks, regenerated from the live source of the tree under test"""
    from extract.traversal import extract_traversal
    return extract_traversal(ctx)


def extract_dispatch(ctx=None):
    """T-gen: `Mapper.__call__` / `Mapper.rec_fallback` statement by statement, `rec = __call__`,
    the body of `Collector.combine` / `CombineMapper.combine`, `Mapper.map_foreign` test by test (what
    each test refers to) and the registry functions of primitives.py (lean/PV/Generated/Dispatch.lean)"""
    from extract.dispatch import extract_dispatch as ex
    return ex(ctx)


PROP = Prop(
    id="C04",
    title="Mapper dispatch and the stock traversals reach every node correctly",
    lean_targets=["PV.Properties.C04", "PV.Properties.C04Stock"],
    extractors=[extract, extract_dispatch],
    streams=[WalkStream(), CombineStream(), DispatchStream(), NamesStream(), FieldsStream(),
             CallbackStream(), DispatchHistoryStream(), CollectorHistoryStream(),
             ForeignRegistryStream(), CachedArgsStream(), ArrayTraversalStream(),
             ArrayWalkModelStream(), UserNodesStream(), HandlerErrorsStream()],
    probes=[probes],
    trusted_base=["Lean 4.33 kernel; axioms propext, Classical.choice, Quot.sound only",
                  "harness/props/c04.py (instrumented mapper subclasses, dynamic class hierarchies)",
                  "extract/traversal.py (ast reader of the map_* handlers; unknown shapes are errors)",
                  "extract/dispatch.py (ast reader of Mapper.__call__ / rec_fallback / combine / "
                  "map_foreign and of the registry functions of primitives.py; the meaning of its "
                  "statement languages = lean/PV/Model/DispatchTable.lean `dRun`, "
                  "lean/PV/Model/ForeignTable.lean `fRun`)",
                  "harness/c04_streams.py (registry sandbox, instrumented plain / memoizing traversals)",
                  "harness/c04_streams2.py (trees with numpy arrays of every rank; user node classes "
                  "below every library base class; references by plain recursion over fields / indices)"],
    level_text="Lean theorems (all class hierarchies, handler sets, trees, argument tuples): dispatch "
               "reaches the node's own handler, else the nearest ancestor's the mapper implements, "
               "else the unsupported hook; foreign objects go to their handlers (dispatch_nearest, "
               "dispatch_copies_agree); the walk visits every node occurrence once, pre-order visit / "
               "post-order post_visit, children skipped when visit is false (walk_eq_spec); combine "
               "mappers fold in every child (combineL_eq_leaves); the identity mapper returns an equal "
               "tree, the same object when nothing changed (identity_*_partial); extra arguments are "
               "forwarded unchanged. The handler tables of Walk/Identity/Combine/CallbackMapper and the "
               "dispatch code itself (Mapper.__call__ / rec_fallback, read statement by statement) are "
               "regenerated from the source on every run and proved to be what the models implement "
               "(walk/combineL/substM_table_step_current + *_unique_current, fields_once_current, "
               "dispatch_call/fallback/foreign_eq_table_current, dispatch_nearest_table_current, "
               "collector_combine_current). Mapper.map_foreign is read test by test together with "
               "what each test refers to, and register_/unregister_constant_class statement by "
               "statement: the regenerated chain routes an object by its kind under the registry of "
               "number classes AT CALL TIME, for every history of registrations "
               "(foreign_chain_eq_table_current, foreign_history_current). A node of a user class "
               "all of whose handler names the mapper reports (no attribute, or Mapper's raising stub) "
               "ends in an error for every handler table and MRO (unhandled_reported); no stock "
               "traversal of the current source answers under a base-class name "
               "(base_handlers_report_current). The WalkMapper row for numpy arrays enumerates the "
               "entries by index, and with that row the walk of an array of ANY shape is visit, every "
               "entry once, post_visit (array_walk_ndindex, array_walk_table_current; what Python's "
               "iteration protocol does instead: array_walk_each_rank2_cex / _rank0_cex).",
    level_note="Trusted: Lean kernel; the readers extract/traversal.py, extract/dispatch.py and the "
               "meaning of their table languages (tied by correspondence streams); instrumented "
               "mapper subclasses of the harness. multivector / polynomial handlers are "
               "covered only by whole-table checks (rows_ok, fields_once), not by a traversal model; "
               "numpy arrays: the walk over an array of any rank with leaf entries is modelled "
               "(aWalkTable on the regenerated map_numpy_array row, array_walk_table_current, stream "
               "array-walk), arrays inside trees and the identity / combine / collector handlers on "
               "them by the oracle of array-traversal only; user node classes below the library's "
               "base classes: which body runs is modelled from the MRO (c04ResolveMro, "
               "user_node_below_base_reported_current, stream user-nodes), the dependency mappers "
               "there by the oracle only; "
               "CachedMapper.__call__ is tied through C05's extractor and the dispatch stream. "
               "History streams (several mapper classes in one process in a chosen order; one "
               "collector instance over trees sharing subtrees; the memoizing stock traversals "
               "under histories of argument values) are correspondence/oracle only; the run-time "
               "registry of number classes is modelled by class NAMES (isinstance on the real "
               "classes is done by the harness).",
    technique="Lean 4 proofs about dispatch and traversal models + tables and dispatch code regenerated "
              "from source with interpreter-equals-model theorems + differential correspondence with "
              "instrumented mappers (single calls and histories)",
    design_ref="DESIGN.md §4 C04",
)

PROP.level_note += ' Oracle streams added in the sixth seeded round: dispatch-handler-errors (an exception raised by a handler leaves the mapper call as the same object and no other handler or hook runs; nine exception kinds x hierarchies x entry points).'
