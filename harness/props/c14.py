"""C14 — generated C code computes what the evaluator computes.

One stream, two kinds of cases:
  * "hist": a history of operations on a pool of `CCodeMapper`s (emit an expression on mapper i,
    `copy()`, `copy_with_mapped_cses(...)`): the emitted texts and the whole allocator state
    (`cse_name_list`, `cse_to_name`, `cse_names`) of every mapper are compared with the Lean state
    machine; the oracle checks the property's structural claims on the real state and, for the
    value-checked cases, compiles the generated C with gcc and compares with `EvaluationMapper`.
  * "cval": a CSE-free integer expression: the emitted text and the value gcc computes for it are
    compared with the model's `denC` (C's reading of the printed text: ten precedence levels,
    short-circuit `&&`/`||`, lazy `?:`); the driver also says whether the expression lies in the
    proved fragment `PV.C14.cFrag` and what its reference meaning `denV` is — inside the fragment
    `denV` must be the real evaluator's typed value and gcc must give the corresponding number
    (the statement of `ccode_value_c_partial`, run on every generated case); the oracle compares
    gcc's value with `EvaluationMapper`.

A third stream, "ccode-prog" (`ProgStream`), is the tie of the PROGRAM-level model
(lean/PV/Model/CCodeProg.lean, theorems `program_value_partial` / `history_value_partial`): histories
of calls on one mapper over trees of `PV.C14.cFragCse` (the fragment with `CommonSubexpression`
wrappers anywhere); per call the expression text and the assignments the call hoists, per
environment the model's `runProg` of the whole program vs gcc and the reference meaning `denVCse` vs
the real evaluator; oracle: the whole program (`long long name = …;` in `cse_name_list` order, then
every expression of the history) compiled by gcc and run gives the evaluator's values.

Directed families (harness/c14fam.py) are part of the main stream, as "cval" cases (integers),
as one-call value-checked histories (doubles) and behind wrappers: trees as REBUILDING mappers
leave them — `substitute(-t, {t: -y})`: a negation directly under a negation, a negated product as
a factor, a difference of a difference, a sum inside a sum, all unflattened (every template around
every filler, towers of templates) — and n-ary nodes with REPEATED operands (one flat sum in which
a term occurs with both signs and every small pair of multiplicities: `x + x - x`).

A fourth stream, "ccode-bodies" (`BodiesStream`), explores mappers constructed from an EXPLICIT
assignment list, `copy(cse_name_list=L)` (L empty: the body of a new C function with the same
settings; L a prefix of some mapper's list; L followed by caller-provided values), in which the
wrapped subexpressions of the earlier bodies recur; model `PV.runBodyOps`
(lean/PV/Model/CCodeBodies.lean, theorems lean/PV/Properties/C14Bodies.lean); oracle: in every body
names unique, assigned once, every hoisted identifier assigned earlier in THAT body's own list, and
the body compiled by gcc computes the evaluator's values.

All C programs of a run are batched into ONE translation unit (one function per program); a second
compiler run happens only when some functions do not compile, a third/fourth one for the
classification of failures (smallest failing subterm).
"""
from __future__ import annotations

import json
import math
import os
import re
import shutil
import subprocess
import tempfile

import pymbolic.primitives as p

from .. import c14fam
from ..core import Failure, Prop, Stream
from ..oracles import scan
from ..sexp import (A, _NOCHILD, dumps, expr_to_sx, loads, q, sx_children, sx_replace, sx_shrinks,
                    sx_to_expr)

CSE = p.CommonSubexpression


def extract(ctx):
    """T-gen: the precedence constants (lean/PV/Generated/Prec.lean) and the handler table of
    `CCodeMapper` read from the live source (lean/PV/Generated/CCode.lean)"""
    from extract.ccode import extract_ccode
    from extract.prec import extract_prec
    extract_prec(ctx)
    return extract_ccode(ctx)


def kind(e):
    return type(e).__name__


# {{{ batched C compilation

CC = shutil.which("gcc") or shutil.which("cc") or shutil.which("clang")
CACHE: dict = {}
RUNS = {"compiler": 0, "units": 0}

C_HEADER = r"""
#include <stdio.h>
#include <math.h>
#include <signal.h>
#include <setjmp.h>
static sigjmp_buf jb;
static void onfpe(int s){ (void)s; siglongjmp(jb,1); }
/* `min(a, b)` / `max(a, b)` as the mapper prints Min / Max of two operands: supplied by the user of
   the generated code; here with Python's tie rule (the first operand wins) */
#define min(a,b) ({ __typeof__((a)+(b)) _ma=(a), _mb=(b); _mb < _ma ? _mb : _ma; })
#define max(a,b) ({ __typeof__((a)+(b)) _xa=(a), _xb=(b); _xa < _xb ? _xb : _xa; })
#define ISF(v) _Generic((v), float:1, double:1, long double:1, default:0)
#define P(u,i,e) do{ __typeof__(e) _v=(e); if(ISF(_v)) printf("%d %d d %.17g\n",u,i,(double)_v); else printf("%d %d i %lld\n",u,i,(long long)_v); }while(0)
"""


def c_literal(mode, v):
    if isinstance(v, bool):
        v = int(v)
    if mode == "int":
        return str(int(v))
    return repr(float(v))


def make_unit(mode, decls, assigns, texts):
    """mode: "int" (all variables `long long`) or "float" (`double`); decls: [(name, value)];
    assigns: [(name, text)] in `cse_name_list` order; texts: expressions to print"""
    return {"mode": mode, "decls": [[n, c_literal(mode, v)] for n, v in decls],
            "assigns": [list(a) for a in assigns], "texts": list(texts)}


def unit_key(u):
    return json.dumps(u, sort_keys=True)


def unit_function(k, u):
    ty = "long long" if u["mode"] == "int" else "double"
    body = "".join(f" {ty} {n} = {v};" for n, v in u["decls"])
    body += "".join(f" {ty} {n} = {t};" for n, t in u["assigns"])
    body += "".join(f" P({k},{i},({t}));" for i, t in enumerate(u["texts"]))
    # every declared variable is "used": no diagnostics depend on that (-w)
    return f"static void u{k}(void){{{body} }}"


def _compile_and_run(units, disabled, tmp):
    """one compiler run; returns (ok, stderr_or_stdout)"""
    lines = [C_HEADER]
    first_line = C_HEADER.count("\n") + 1
    for k, u in enumerate(units):
        lines.append(f"static void u{k}(void){{ }}" if k in disabled else unit_function(k, u))
    lines.append("int main(void){ signal(SIGFPE,onfpe);")
    for k in range(len(units)):
        if k not in disabled:
            lines.append(f"if(!sigsetjmp(jb,1)) u{k}(); else printf(\"{k} -1 fpe\\n\");")
    lines.append("return 0;}")
    src = os.path.join(tmp, "batch.c")
    exe = os.path.join(tmp, "batch.out")
    with open(src, "w") as f:
        f.write("\n".join(lines))
    RUNS["compiler"] += 1
    try:
        pr = subprocess.run(["timeout", "120", CC, "-O0", "-w", "-std=gnu11",
                             "-Werror=implicit-function-declaration", "-o", exe, src, "-lm"],
                            capture_output=True, text=True, timeout=150)
    except subprocess.TimeoutExpired:
        return False, "compiler timeout", first_line
    if pr.returncode != 0:
        return False, pr.stderr, first_line
    try:
        rr = subprocess.run(["timeout", "60", exe], capture_output=True, text=True, timeout=90)
    except subprocess.TimeoutExpired:
        return False, "run timeout", first_line
    return True, rr.stdout, first_line


def compile_units(units):
    """results for `units` (cached): ("ok", [(type, text)…]) | ("fpe",) | ("nocompile", message) |
    ("harness", message)"""
    todo, seen = [], set()
    for u in units:
        k = unit_key(u)
        if k not in CACHE and k not in seen:
            seen.add(k)
            todo.append(u)
    if todo:
        if CC is None:
            for u in todo:
                CACHE[unit_key(u)] = ("harness", "no C compiler")
        else:
            RUNS["units"] += len(todo)
            with tempfile.TemporaryDirectory() as tmp:
                _compile_batch(todo, tmp)
    return [CACHE[unit_key(u)] for u in units]


def _compile_batch(todo, tmp):
    disabled: dict = {}
    ok, out, first_line = _compile_and_run(todo, disabled, tmp)
    if not ok:
        # attribute the diagnostics to functions: "batch.c:LINE:COL: error: …"
        for m in re.finditer(r"batch\.c:(\d+):\d+: (?:fatal )?error: ([^\n]*)", out):
            k = int(m.group(1)) - first_line - 1
            if 0 <= k < len(todo):
                disabled.setdefault(k, m.group(2))
        if not disabled:
            for u in todo:
                CACHE[unit_key(u)] = ("harness", out[-300:])
            return
        ok, out, first_line = _compile_and_run(todo, disabled, tmp)
        if not ok:
            for u in todo:
                CACHE[unit_key(u)] = ("harness", "second compiler run failed: " + out[-300:])
            return
    res: dict = {k: [] for k in range(len(todo))}
    fpe = set()
    for line in out.split("\n"):
        parts = line.split(" ")
        if len(parts) >= 3 and parts[1] == "-1":
            fpe.add(int(parts[0]))
        elif len(parts) == 4:
            res[int(parts[0])].append((parts[2], parts[3]))
    for k, u in enumerate(todo):
        if k in disabled:
            CACHE[unit_key(u)] = ("nocompile", disabled[k])
        elif k in fpe or len(res[k]) != len(u["texts"]):
            CACHE[unit_key(u)] = ("fpe",)
        else:
            CACHE[unit_key(u)] = ("ok", res[k])

# }}}


# {{{ reference evaluation (the evaluator named by the property) and the "in range" predicate

FUNCS = {"sin": math.sin, "cos": math.cos, "exp": math.exp, "sqrt": math.sqrt, "fabs": math.fabs,
         "atan2": math.atan2}


def py_eval(e, env):
    from pymbolic.mapper.evaluator import EvaluationMapper
    return EvaluationMapper({**env, **FUNCS})(e)


def py_value_sx(e, env):
    """the evaluator's value of an integer expression, typed: (int n) | (bool b) | (none) for an
    exception | (other)"""
    try:
        v = py_eval(e, env)
    except RecursionError:
        raise
    except Exception:
        return "(none)"
    if isinstance(v, bool):
        return f"(bool {'true' if v else 'false'})"
    if isinstance(v, int):
        return f"(int {v})"
    return "(other)"


def is_intlike(v):
    return isinstance(v, (bool, int))


def in_range(e, env, mode):
    try:
        return _in_range(e, env, mode)
    except RecursionError:
        raise
    except Exception:
        return None


def _in_range(e, env, mode):
    """None if some subterm of `e` leaves the range the property speaks about (exceptions, negative
    operands of // and %, huge values, ill-conditioned float decisions); else the scale (largest
    magnitude of a subterm value)"""
    scale = 1.0
    for s in scan.subterms(e):
        if isinstance(s, (int, float)):
            continue
        if isinstance(s, p.Variable) and s.name in FUNCS:
            continue
        try:
            v = py_eval(s, env)
        except Exception:
            return None
        if isinstance(v, complex) or not isinstance(v, (bool, int, float)):
            return None
        if mode == "int":
            if not is_intlike(v) or abs(int(v)) > 2**40:
                return None
            if isinstance(s, (p.FloorDiv, p.Remainder)):
                a, b = py_eval(s.numerator, env), py_eval(s.denominator, env)
                if a < 0 or b <= 0:
                    return None
            if isinstance(s, (p.LeftShift, p.RightShift)):
                a, b = py_eval(s.shiftee, env), py_eval(s.shift, env)
                if a < 0 or b < 0 or b > 20:
                    return None
            if isinstance(s, p.Power):
                a, b = py_eval(s.base, env), py_eval(s.exponent, env)
                if b < 0 or b > 6:
                    return None
            if isinstance(s, (p.BitwiseAnd, p.BitwiseOr, p.BitwiseXor)):
                if any(py_eval(c, env) < 0 for c in s.children):
                    return None
        else:
            fv = float(v)
            if math.isnan(fv) or math.isinf(fv) or abs(fv) > 1e8:
                return None
            scale = max(scale, abs(fv))
            if isinstance(s, (p.FloorDiv, p.Remainder, p.LeftShift, p.RightShift, p.BitwiseAnd,
                              p.BitwiseOr, p.BitwiseXor, p.BitwiseNot)):
                return None          # integer operators: not in the floating-point part
            if isinstance(s, p.Quotient):
                if abs(float(py_eval(s.denominator, env))) < 1e-3:
                    return None
            if isinstance(s, p.Power):
                a, b = float(py_eval(s.base, env)), float(py_eval(s.exponent, env))
                if (a <= 1e-3 and not float(b).is_integer()) or (abs(a) < 1e-3 and b < 0):
                    return None
            if isinstance(s, p.Comparison):
                a, b = float(py_eval(s.left, env)), float(py_eval(s.right, env))
                if a != b and abs(a - b) < 1e-6 * max(1.0, abs(a), abs(b)):
                    return None
                if a == b and not (is_intlike(py_eval(s.left, env))
                                   and is_intlike(py_eval(s.right, env))):
                    return None      # equality of computed floats is decided by rounding
            if isinstance(s, (p.If, p.LogicalNot, p.LogicalAnd, p.LogicalOr)):
                conds = [s.condition] if isinstance(s, p.If) else scan.children(s)
                for c in conds:
                    cv = py_eval(c, env)
                    if not is_intlike(cv) and abs(float(cv)) < 1e-6:
                        return None
    return scale


def value_matches(mode, pyv, cres, scale):
    typ, txt = cres
    if mode == "int":
        if typ == "i":
            return int(txt) == int(pyv)
        cv = float(txt)
        return cv == float(int(pyv))
    cv = float(txt)
    return abs(cv - float(pyv)) <= 1e-9 * max(1.0, scale)

# }}}


# {{{ generators

IVARS = ["x", "y", "z", "a", "b"]
PREFIXES = [None, None, "u", "u", "v", "u_2", "tmp"]
CMPS = ["==", "!=", "<", "<=", ">", ">="]


def sub(a, b):
    """a - b as the overloaded operators build it"""
    return p.Sum((a, p.Product((-1, b))))


class Wrappers:
    """a pool of wrapper children: shared wrappers, fresh wrappers with equal children, equal
    children under different prefixes"""

    def __init__(self, rng, gen_child):
        self.rng, self.gen_child, self.children = rng, gen_child, []

    def wrap(self, depth):
        r = self.rng
        if self.children and r.random() < 0.6:
            child = r.choice(self.children)
        else:
            child = self.gen_child(depth)
            self.children.append(child)
        return CSE(child, r.choice(PREFIXES))


class IntGen:
    """the integer part of the C-expressible fragment"""

    def __init__(self, rng, cse=0.0, bitwise=0.05, bigpow=0.04, minmax=0.02, rich=0.0):
        self.rng, self.cse, self.bitwise, self.bigpow = rng, cse, bitwise, bigpow
        self.minmax, self.rich = minmax, rich
        self.wr = Wrappers(rng, lambda d: self.num(max(d - 1, 0), nocse=rng.random() < 0.7))

    def leaf(self):
        r = self.rng
        if r.random() < 0.6:
            return p.Variable(r.choice(IVARS))
        return r.randint(0, 12)

    def cond(self, d, nocse=False, nopow=False):
        r = self.rng
        k = r.random()
        if d <= 0 or k < 0.6:
            return p.Comparison(self.num(d - 1, nocse, nopow), r.choice(CMPS),
                                self.num(d - 1, nocse, nopow))
        if k < 0.75:
            return p.LogicalNot(self.cond(d - 1, nocse, nopow))
        cls = p.LogicalAnd if k < 0.88 else p.LogicalOr
        return cls(tuple(self.cond(d - 1, nocse, nopow) for _ in range(r.randint(2, 3))))

    def num(self, d, nocse=False, nopow=False):
        """`nopow`: below a bitwise operator / shift no pow(…) (a double) is generated"""
        r = self.rng
        if d <= 0 or r.random() < 0.15:
            return self.leaf()
        if not nocse and r.random() < self.cse:
            return self.wr.wrap(d)
        if self.rich and r.random() < self.rich:
            return self.cshape(d, nocse, nopow)
        k = r.random()
        g = lambda: self.num(d - 1, nocse, nopow)  # noqa: E731
        if k < 0.2:
            cs = [g() for _ in range(r.randint(2, 3))]
            if r.random() < 0.3:
                cs.append(r.choice([-1, -3, 5]))
            return p.Sum(tuple(cs))
        if k < 0.32:
            return sub(g(), g())
        if k < 0.36:
            if r.random() < 0.4:
                # no positive term at all (what -a - b builds)
                return p.Sum(tuple(p.Product((-1, g())) for _ in range(r.randint(2, 3))))
            return p.Sum((g(), p.Product((-1, g(), g())), p.Product((-1, g()))))
        if k < 0.54:
            return p.Product(tuple(g() for _ in range(r.randint(2, 3))))
        if k < 0.66:
            return p.FloorDiv(g(), g())
        if k < 0.78:
            return p.Remainder(g(), g())
        if k < 0.86:
            e = 3 if r.random() < self.bigpow and not nopow else r.choice([0, 1, 2, 2, 2])
            return p.Power(g(), e)
        if k < 0.92:
            return p.If(self.cond(d - 1, nocse, nopow), g(), g())
        if k < 0.92 + self.bitwise:
            g = lambda: self.num(d - 1, True, True)  # noqa: E731
            kk = r.random()
            if kk < 0.5:
                cls = r.choice([p.BitwiseAnd, p.BitwiseOr, p.BitwiseXor])
                return cls((g(), g()))
            if kk < 0.7:
                return r.choice([p.LeftShift, p.RightShift])(g(), r.randint(0, 3))
            if kk < 0.8:
                return p.BitwiseNot(g())
            cls = r.choice([p.BitwiseAnd, p.BitwiseOr, p.BitwiseXor])
            return p.Comparison(cls((g(), g())), r.choice(CMPS), g())
        if k < 0.92 + self.bitwise + self.minmax:
            return r.choice([p.Min, p.Max])((g(), g()))
        return self.cond(d - 1, nocse, nopow)

    def cshape(self, d, nocse=False, nopow=False):
        """one node of the enlarged proved fragment (PV.C14.cFrag): comparisons, `?:`, `&&`, `||`,
        `!`, `&`, `^`, `|`, `~`, shifts, two-operand min/max — operands of bitwise operators and
        shifts are kept non-negative most of the time (sums of products, remainders, leaves)"""
        r = self.rng
        g = lambda: self.num(d - 1, nocse, True)  # noqa: E731
        nn = lambda: self.nonneg(d - 1, nocse)  # noqa: E731
        k = r.randrange(9)
        if k == 0:
            return p.If(self.cond(d - 1, nocse, True), g(), g())
        if k == 1:
            cls = r.choice([p.BitwiseAnd, p.BitwiseOr, p.BitwiseXor])
            return cls(tuple(nn() for _ in range(r.randint(2, 3))))
        if k == 2:
            amount = r.choice([0, 1, 2, 3, p.Remainder(nn(), 4), p.RightShift(p.Remainder(nn(), 8), 1),
                               p.LeftShift(1, p.Remainder(nn(), 2)), p.Sum((1, p.Remainder(nn(), 3))),
                               p.BitwiseAnd((nn(), 3))])
            return r.choice([p.LeftShift, p.RightShift])(nn(), amount)
        if k == 3:
            return p.BitwiseNot(nn())
        if k == 4:
            return r.choice([p.Min, p.Max])((g(), g()))
        if k == 5:
            return p.LogicalNot(r.choice([g, lambda: self.cond(d - 1, nocse, True)])())
        if k == 6:
            cls = r.choice([p.LogicalAnd, p.LogicalOr])
            return cls(tuple(r.choice([g, lambda: self.cond(d - 1, nocse, True)])()
                             for _ in range(r.randint(2, 3))))
        if k == 7:
            # a guard that keeps the second operand from being evaluated: x != 0 and a // x > 1
            v = p.Variable(r.choice(IVARS))
            return p.LogicalAnd((p.Comparison(v, "!=", 0),
                                 p.Comparison(p.FloorDiv(g(), v), r.choice(CMPS), g())))
        return p.Comparison(g(), r.choice(CMPS), g())

    def nonneg(self, d, nocse=False):
        """an expression that is non-negative on non-negative variables"""
        r = self.rng
        if d <= 0 or r.random() < 0.3:
            return self.leaf()
        k = r.randrange(6)
        nn = lambda: self.nonneg(d - 1, nocse)  # noqa: E731
        if k == 0:
            return p.Sum((nn(), nn()))
        if k == 1:
            return p.Product((nn(), nn()))
        if k == 2:
            return p.Remainder(nn(), r.randint(2, 9))
        if k == 3:
            return p.FloorDiv(nn(), r.randint(1, 4))
        if k == 4:
            cls = r.choice([p.BitwiseAnd, p.BitwiseOr, p.BitwiseXor])
            return cls((nn(), nn()))
        return p.RightShift(nn(), r.randint(0, 2))

    def env(self):
        return {v: self.rng.randint(0, 9) for v in IVARS}


class FloatGen:
    """the floating-point part: `dbl` produces expressions whose C type is certainly double"""

    def __init__(self, rng, cse=0.0, intquot=0.02):
        self.rng, self.cse, self.intquot = rng, cse, intquot
        self.wr = Wrappers(rng, lambda d: self.dbl(max(d - 1, 0), nocse=rng.random() < 0.7))

    def dleaf(self):
        r = self.rng
        if r.random() < 0.7:
            return p.Variable(r.choice(IVARS))
        return r.choice([0.5, 1.5, 2.0, 0.25, 3.0, 1e-05, 2.5])

    def ileaf(self):
        return self.rng.randint(1, 5)

    def cond(self, d, nocse=False):
        r = self.rng
        k = r.random()
        if d <= 0 or k < 0.65:
            return p.Comparison(self.anyn(d - 1, nocse), r.choice(["<", "<=", ">", ">="]),
                                self.anyn(d - 1, nocse))
        if k < 0.78:
            return p.LogicalNot(self.cond(d - 1, nocse))
        cls = p.LogicalAnd if k < 0.9 else p.LogicalOr
        return cls(tuple(self.cond(d - 1, nocse) for _ in range(2)))

    def anyn(self, d, nocse=False):
        r = self.rng
        k = r.random()
        if k < 0.7:
            return self.dbl(d, nocse)
        if d <= 0 or k < 0.85:
            return self.ileaf()
        if k < 0.9:
            return p.Power(self.dbl(d - 1, nocse), 0)
        if k < 0.95:
            return p.If(self.cond(d - 1, nocse), self.ileaf(), self.ileaf())
        return p.Sum((self.ileaf(), self.ileaf()))

    def dbl(self, d, nocse=False):
        r = self.rng
        if d <= 0 or r.random() < 0.15:
            return self.dleaf()
        if not nocse and r.random() < self.cse:
            return self.wr.wrap(d)
        k = r.random()
        g = lambda: self.dbl(d - 1, nocse)  # noqa: E731
        h = lambda: self.anyn(d - 1, nocse)  # noqa: E731
        if k < 0.2:
            cs = [g()] + [h() for _ in range(r.randint(1, 2))]
            r.shuffle(cs)
            return p.Sum(tuple(cs))
        if k < 0.32:
            return sub(g(), h()) if r.random() < 0.5 else sub(h(), g())
        if k < 0.5:
            cs = [g()] + [h() for _ in range(r.randint(1, 2))]
            r.shuffle(cs)
            return p.Product(tuple(cs))
        if k < 0.66:
            if r.random() < self.intquot:
                return p.Quotient(self.ileaf(), self.ileaf())
            return p.Quotient(g(), h()) if r.random() < 0.5 else p.Quotient(h(), g())
        if k < 0.78:
            e = r.choice([1, 2, 2, 2, 2.0, 3, -1, 0.5, p.Variable("b")])
            return p.Power(g(), e)
        if k < 0.9:
            f = r.choice(["sin", "cos", "exp", "sqrt", "fabs", "atan2"])
            args = (h(), h()) if f == "atan2" else (h(),)
            return p.Call(p.Variable(f), args)
        return p.If(self.cond(d - 1, nocse), g(), h())

    def env(self):
        r = self.rng
        return {v: round(r.uniform(0.25, 4.0), 3) * (1 if r.random() < 0.8 else -1)
                for v in IVARS}


def decorate(rng, e, mk):
    """shapes of the text syntax that are only compared with the model (never compiled):
    subscripts, attribute lookups, calls of computed functions, min/max, degenerate n-ary nodes,
    unusual constants"""
    k = rng.randrange(12)
    if k == 0:
        return p.Subscript(p.Variable("arr"), e)
    if k == 1:
        return p.Subscript(p.Variable("arr"), (e, mk(1)))
    if k == 2:
        return p.Sum((p.Lookup(p.Variable("s"), "f"), e))
    if k == 3:
        return p.Call(p.Lookup(p.Variable("m"), "g"), (e, mk(1)))
    if k == 4:
        return rng.choice([p.Min, p.Max])((e, mk(1)))
    if k == 5:
        return p.Sum((e, p.Product((-1,)), p.Product((mk(1),)), p.Sum(())))
    if k == 6:
        return p.Product((e, rng.choice([True, False, -2.5, 1e-05, -7, 2.0])))
    if k == 7:
        return p.Sum((p.Product((-1.0, e)), p.Product((rng.choice([True, -1, 1]), mk(1))), mk(1)))
    if k == 8:
        return p.Power(e, rng.choice([True, False, 2.0, 1.0, 0.0, -2, mk(1)]))
    if k == 9:
        return p.Power(rng.choice([3, 0, -2, True]), 2)
    if k == 10:
        return p.Sum((e,))
    return p.Product((p.Sum((-1,)), e))


def two_level_int():
    """every outer operator of the integer fragment over every pair of inner shapes"""
    x, y, z, a, b = [p.Variable(v) for v in "xyzab"]
    inner = [x, 3, p.Sum((y, 2)), sub(y, z), p.Product((a, b)), p.FloorDiv(y, 2),
             p.Remainder(y, 3), p.Power(a, 2)]
    outer = [lambda u, v: p.Sum((u, v)), sub, lambda u, v: p.Product((u, v)),
             p.FloorDiv, p.Remainder,
             lambda u, v: p.Product((z, u, v)), lambda u, v: p.Sum((v, p.Product((-1, u, v)), z))]
    for o in outer:
        for u in inner:
            for v in inner:
                yield o(u, v)
    for u in inner:
        yield p.Power(u, 2)
        yield p.Power(u, 1)
        yield p.Power(u, 0)


def c_inner_shapes():
    """one expression per node kind of the enlarged fragment (plus the arithmetic ones)"""
    x, y, z, a, b = [p.Variable(v) for v in "xyzab"]
    return [x, 3, p.Sum((y, 2)), sub(y, z), p.Product((a, b)), p.FloorDiv(y, 2),
            p.Remainder(y, 3), p.Power(a, 2),
            p.Comparison(y, "<", z), p.Comparison(a, "==", b), p.LogicalAnd((y, z)),
            p.LogicalOr((a, z)), p.LogicalNot(y), p.BitwiseAnd((a, b)), p.BitwiseOr((y, z)),
            p.BitwiseXor((a, z)), p.BitwiseNot(y), p.LeftShift(y, 1), p.RightShift(a, 1),
            p.If(p.Comparison(y, ">", 2), a, b), p.Min((a, b)), p.Max((y, z))]


def c_outer_ops():
    x, z = p.Variable("x"), p.Variable("z")
    return [("sum", lambda u, v: p.Sum((u, v))), ("sub", sub),
            ("prod", lambda u, v: p.Product((u, v))), ("floordiv", p.FloorDiv),
            ("rem", p.Remainder),
            ("lt", lambda u, v: p.Comparison(u, "<", v)),
            ("eq", lambda u, v: p.Comparison(u, "==", v)),
            ("ge", lambda u, v: p.Comparison(u, ">=", v)),
            ("and", lambda u, v: p.LogicalAnd((u, v))), ("or", lambda u, v: p.LogicalOr((u, v))),
            ("and3", lambda u, v: p.LogicalAnd((z, u, v))),
            ("band", lambda u, v: p.BitwiseAnd((u, v))), ("bor", lambda u, v: p.BitwiseOr((u, v))),
            ("bxor", lambda u, v: p.BitwiseXor((u, v))),
            ("bor3", lambda u, v: p.BitwiseOr((u, v, x))),
            ("min", lambda u, v: p.Min((u, v))), ("max", lambda u, v: p.Max((u, v))),
            ("if", lambda u, v: p.If(u, v, x)), ("if2", lambda u, v: p.If(x, u, v))]


def two_level_c(rng, full):
    """every operator of the enlarged fragment over the inner shapes: with one simple operand
    (both positions) and on the diagonal always; all pairs in the thorough tier, a random sample
    of pairs in the quick tier"""
    x = p.Variable("x")
    inner = c_inner_shapes()
    for u in inner:
        yield p.LogicalNot(u)
        yield p.BitwiseNot(u)
        yield p.LeftShift(u, 2)
        yield p.RightShift(u, 1)
        yield p.LeftShift(3, p.Remainder(u, 3))
    # shifts as outer operators: the amount ranges over small-valued shapes of every kind
    y, z, a = p.Variable("y"), p.Variable("z"), p.Variable("a")
    small = [1, p.Remainder(y, 3), p.RightShift(a, 1), p.LeftShift(1, 1), p.Comparison(y, "<", z),
             p.LogicalNot(y), p.BitwiseAnd((a, 3)), p.BitwiseOr((1, 2)), p.BitwiseXor((a, a)),
             p.Min((a, 3)), p.If(p.Comparison(y, ">", 2), 1, 2), p.Sum((1, 1)), p.Product((2, 1)),
             p.FloorDiv(y, 3), p.LogicalAnd((y, z)), p.LogicalOr((y, z)), p.Power(1, 2)]
    lefts = inner if full else [x, p.Sum((y, 2)), p.LeftShift(y, 1), p.BitwiseAnd((a, 5))]
    for u in lefts:
        for v in small:
            yield p.LeftShift(u, v)
            yield p.RightShift(u, v)
    if not full:
        for u in inner:
            yield p.LeftShift(u, p.RightShift(a, 1))
            yield p.RightShift(u, p.LeftShift(1, 1))
    for _name, o in c_outer_ops():
        if full:
            for u in inner:
                for v in inner:
                    yield o(u, v)
        else:
            for u in inner:
                yield o(u, x)
                yield o(x, u)
                yield o(u, u)
            for _ in range(12):
                yield o(rng.choice(inner), rng.choice(inner))


def fixed_findings():
    """the minimal inputs of the known findings (value-checked "hist" payloads)"""
    x, y, a, b, c = [p.Variable(v) for v in "xyabc"]
    ienv = {"x": 2, "y": 5, "a": 7, "b": 3, "c": 2, "z": 1}
    benv = {"x": 2, "y": 5, "a": 6, "b": 3, "c": 5, "z": 1}
    fenv = {"x": 2.0, "y": 5.0, "a": 7.0, "b": 3.0, "c": 2.0, "z": 1.0}
    cases = [
        ("int", ienv, p.Product((a, p.Remainder(b, c)))),
        ("int", ienv, p.Remainder(a, p.Power(x, 2))),
        ("float", fenv, p.Quotient(a, p.Power(x, 2))),
        ("float", fenv, p.Sum((x, p.Quotient(1, 2)))),
        ("int", ienv, p.Product((p.FloorDiv(p.Power(b, 3), 2), 2))),
        ("int", ienv, p.Remainder(p.Power(b, 3), 5)),
        ("int", benv, p.Comparison(p.BitwiseAnd((a, b)), "<", c)),
        ("int", benv, p.Comparison(p.BitwiseOr((a, b)), "<", c)),
        ("int", benv, p.Comparison(p.BitwiseXor((a, b)), "<", c)),
    ]
    for mode, env, e in cases:
        yield {"kind": "hist", "mode": mode, "reverse": True, "pfx": "_cse", "env": env,
               "value": True, "src": "fixed", "ops": [["emit", 0, dumps(expr_to_sx(e))]]}
    u = CSE(p.Sum((x, 1)), "u")
    yield {"kind": "hist", "mode": "int", "reverse": True, "pfx": "_cse", "env": ienv, "value": True,
           "src": "fixed",
           "ops": [["emit", 0, dumps(expr_to_sx(p.Product((u, 2))))], ["copy", 0],
                   ["emit", 1, dumps(expr_to_sx(p.Sum((u, CSE(y, "u")))))]]}
    yield {"kind": "hist", "mode": "int", "reverse": True, "pfx": "_cse", "env": ienv, "value": True,
           "src": "fixed",
           "ops": [["emit", 0, dumps(expr_to_sx(p.Product((u, 2))))], ["copy", 0],
                   ["emit", 1, dumps(expr_to_sx(CSE(y, "u")))]]}
    yield {"kind": "hist", "mode": "int", "reverse": True, "pfx": "_cse", "env": ienv, "value": True,
           "src": "fixed",
           "ops": [["copymapped", 0, [["_cse_u", dumps(expr_to_sx(p.Sum((x, 1))))]]],
                   ["emit", 1, dumps(expr_to_sx(p.Sum((u, CSE(y, "u")))))]]}
    for e in [p.LogicalAnd((y,)), p.LogicalOr((y,))]:
        yield {"kind": "hist", "mode": "int", "reverse": True, "pfx": "_cse", "env": ienv,
               "value": True, "src": "fixed", "ops": [["emit", 0, dumps(expr_to_sx(e))]]}

# }}}


# {{{ running the real mapper

def key_sx(v):
    if isinstance(v, str):
        return [A("T"), v]
    return [A("E"), expr_to_sx(v)]


def mapper_sx(m):
    lst = [A("list")] + [[n, key_sx(v)] for n, v in m.cse_name_list]
    dct = [A("dict")] + [[key_sx(k), n] for k, n in m.cse_to_name.items()]
    st = [A("set")] + [A(s) for s in sorted(dumps(key_sx(k)) for k in m.cse_names)]
    return [A("m"), lst, dct, st]


IDENT = re.compile(r"[A-Za-z_][A-Za-z_0-9]*")


def hoisted_idents(text, pfx):
    return sorted({t for t in IDENT.findall(text) if t.startswith(pfx)})


def decode_op(op):
    if op[0] == "emit":
        return ("emit", op[1], sx_to_expr(loads(op[2])))
    if op[0] == "copy":
        return ("copy", op[1], None)
    if op[0] == "copylist":
        # copy(cse_name_list=L) on mapper i: L = the first k entries of mapper j's list followed by
        # the (name, expression) pairs the caller computes itself
        return ("copylist", op[1], (op[2], op[3], [(n, sx_to_expr(loads(s))) for n, s in op[4]]))
    return ("copymapped", op[1], [(n, sx_to_expr(loads(s))) for n, s in op[2]])


def replay(pl):
    """run the history on real mappers; returns (steps, pool, trace) where trace records, per emit,
    (mapper index, expression, text, list length before, list after)"""
    from pymbolic.mapper.c_code import CCodeMapper
    pool = [CCodeMapper(reverse=pl["reverse"], cse_prefix=pl["pfx"])]
    steps, trace = [], []
    for op in pl["ops"]:
        what, i, arg = decode_op(op)
        if what == "emit":
            before = len(pool[i].cse_name_list)
            text = pool[i](arg)
            known = set(pool[i].cse_to_name.values())
            steps.append([A("emit"), text, sorted({t for t in IDENT.findall(text) if t in known})])
            trace.append(("emit", i, arg, text, before, list(pool[i].cse_name_list)))
        elif what == "copy":
            pool.append(pool[i].copy())
            steps.append([A("made"), len(pool) - 1])
            trace.append(("copy", i, None, None, None, None))
        elif what == "copylist":
            j, k, pairs = arg
            inherited = list(pool[j].cse_name_list[:k])
            pool.append(pool[i].copy(cse_name_list=inherited + list(pairs)))
            steps.append([A("made"), len(pool) - 1])
            trace.append(("copylist", i, (j, inherited, pairs), None, None, None))
        else:
            pool.append(pool[i].copy_with_mapped_cses(list(arg)))
            steps.append([A("made"), len(pool) - 1])
            trace.append(("copymapped", i, arg, None, None, None))
    return steps, pool, trace

# }}}


# {{{ the property's own statement on the real code

def structural_failure(pl, pool, trace):
    pfx = pl["pfx"]
    parent: dict = {0: None}
    sent: dict = {0: []}        # wrapper children already sent through the lineage of a mapper
    mapped: dict = {0: []}      # expressions pre-mapped to names
    n = 1
    for what, i, arg, text, before, after in trace:
        if what == "copylist":
            # a mapper constructed from an explicit list: it answers for the assignments of that
            # list only.  With an empty list it is a fresh mapper (same settings); the wrapped
            # subexpressions behind inherited assignments are those of the list's source (an
            # over-approximation when only a prefix is inherited: never a false alarm)
            j, inherited, pairs = arg
            parent[n] = j if inherited or pairs else None
            sent[n] = list(sent[j]) if any(isinstance(v, str) for _n, v in inherited) else []
            mapped[n] = [v for _n, v in inherited if not isinstance(v, str)] + [e for _n, e in pairs]
            n += 1
            continue
        if what in ("copy", "copymapped"):
            parent[n] = i
            sent[n] = list(sent[i])
            mapped[n] = list(mapped[i]) + ([e for _n, e in arg] if what == "copymapped" else [])
            n += 1
            continue
        copied = " after copy()" if parent[i] is not None else ""
        # a wrapped subexpression is assigned once however often and in whatever order it recurs:
        # never more assignments than distinct wrapped subexpressions sent through the mapper and
        # the mappers it was copied from (a wrapper may legitimately never be printed: `w**0`)
        for s in scan.subterms(arg):
            if isinstance(s, CSE) and not any(s.child == c for c in sent[i] + mapped[i]):
                sent[i].append(s.child)
        hoisted = [nm for nm, val in after if isinstance(val, str)]
        if len(hoisted) > len(sent[i]):
            return Failure("ccode-copy-forgets-hoisted-cse" if copied else "ccode-assigned-twice",
                           f"mapper {i}{copied}: {len(hoisted)} assignments {after} for "
                           f"{len(sent[i])} distinct wrapped subexpressions")
        # every hoisted name is unique
        names = [nm for nm, _ in after]
        dup = sorted({nm for nm in names if names.count(nm) > 1})
        if dup:
            return Failure("ccode-copy-duplicate-name" if copied else "ccode-duplicate-name",
                           f"mapper {i}{copied}: names {dup} assigned twice in {after}")
        # … and assigned before any use
        seen = set()
        for nm, val in after:
            if isinstance(val, str):
                missing = [t for t in hoisted_idents(val, pfx) if t not in seen]
                if missing:
                    return Failure("ccode-use-before-assignment",
                                   f"{nm} = {val} uses {missing} before their assignment")
            seen.add(nm)
        missing = [t for t in hoisted_idents(text, pfx) if t not in seen]
        if missing:
            return Failure("ccode-use-before-assignment", f"{text!r} uses unassigned {missing}")
    return None


def mapper_units(pl, pool, trace):
    """[(unit, [(expr, scale)])] per mapper that emitted something; None if out of range"""
    env, mode = pl["env"], pl["mode"]
    res = []
    for i, m in enumerate(pool):
        emitted = [(arg, text) for what, j, arg, text, _b, _a in trace if what == "emit" and j == i]
        if not emitted:
            continue
        scales = []
        for e, _t in emitted:
            sc = in_range(e, env, mode)
            if sc is None:
                return None
            scales.append(sc)
        decls = sorted(env.items())
        assigns = []
        for nm, val in m.cse_name_list:
            if isinstance(val, str):
                assigns.append((nm, val))
            else:                       # a mapped name: provided by the caller with this value
                if in_range(val, env, mode) is None:
                    return None
                decls.append((nm, py_eval(val, env)))
        unit = make_unit(mode, decls, assigns, [t for _e, t in emitted])
        res.append((unit, [(e, sc) for (e, _t), sc in zip(emitted, scales)]))
    return res


def single_unit(mode, env, e):
    """the program for one expression through a fresh mapper"""
    from pymbolic.mapper.c_code import CCodeMapper
    m = CCodeMapper()
    text = m(e)
    return make_unit(mode, sorted(env.items()), m.cse_name_list, [text])


def expr_status(mode, env, e):
    """("ok" | "mismatch" | "nocompile" | "skip", detail, C type) for one expression on its own"""
    sc = in_range(e, env, mode)
    if sc is None:
        return "skip", None, None
    try:
        u = single_unit(mode, env, e)
    except Exception:
        return "skip", None, None
    r = compile_units([u])[0]
    if r[0] == "nocompile":
        return "nocompile", r[1], None
    if r[0] != "ok":
        return ("mismatch", "arithmetic trap (SIGFPE)", None) if r[0] == "fpe" else ("skip", None, None)
    pyv = py_eval(e, env)
    if value_matches(mode, pyv, r[1][0], sc):
        return "ok", None, r[1][0][0]
    return ("mismatch", f"C gives {r[1][0][1]}, the evaluator {pyv!r} for {u['texts'][0]!r}",
            r[1][0][0])


# values tried for the siblings of a child when a failure is attributed (see `classify`)
ALT_VALUES = [(0, 1), (1, 0), (1, 1), (2, 1), (0, 0), (3, 2), (1, 2), (2, 3), (5, 1), (7, 2)]


def normalize(e):
    """value-preserving simplification used only to NAME a failure: one-operand sums/products
    unwrapped, nested sums/products flattened, e**1 -> e, e**2 -> e*e"""
    if isinstance(e, (p.Sum, p.Product)):
        cs = []
        for c in e.children:
            c = normalize(c)
            cs.extend(c.children if type(c) is type(e) else [c])
        return cs[0] if len(cs) == 1 else type(e)(tuple(cs))
    if isinstance(e, p.Power) and type(e.exponent) is int and e.exponent in (1, 2):
        b = normalize(e.base)
        return b if e.exponent == 1 else normalize(p.Product((b, b)))
    if isinstance(e, (p.Quotient, p.FloorDiv, p.Remainder)):
        return type(e)(normalize(e.numerator), normalize(e.denominator))
    if isinstance(e, p.Power):
        return p.Power(normalize(e.base), normalize(e.exponent))
    if isinstance(e, CSE):
        return CSE(normalize(e.child), e.prefix, e.scope)
    # the other composite nodes: only their operands are normalised (so that `(b | 8)**1 < 1` is
    # named like `b | 8 < 1`, the text the C printer really emits for it)
    if isinstance(e, p.Comparison):
        return p.Comparison(normalize(e.left), e.operator, normalize(e.right))
    if isinstance(e, p.If):
        return p.If(normalize(e.condition), normalize(e.then), normalize(e.else_))
    if isinstance(e, (p.BitwiseOr, p.BitwiseAnd, p.BitwiseXor, p.LogicalAnd, p.LogicalOr, p.Min, p.Max)):
        return type(e)(tuple(normalize(c) for c in e.children))
    if isinstance(e, (p.BitwiseNot, p.LogicalNot)):
        return type(e)(normalize(e.child))
    if isinstance(e, (p.LeftShift, p.RightShift)):
        return type(e)(normalize(e.shiftee), normalize(e.shift))
    return e


def nonleaf_children(sx):
    return [(path, c) for path, c in sx_children(sx)
            if isinstance(c, list) and c[0] not in _NOCHILD]


def variants(mode, env, sx):
    """[(child kind, variant expr, env)]: all non-leaf children but one replaced by variables"""
    kids = nonleaf_children(sx)
    out = []
    for keep_path, keep in kids:
        v, env2, ok = sx, dict(env), True
        for j, (path, c) in enumerate(kids):
            if path == keep_path:
                continue
            try:
                val = py_eval(sx_to_expr(c), env)
            except Exception:
                ok = False
                break
            if mode == "int" and not is_intlike(val):
                ok = False
                break
            env2[f"q{j}"] = val
            v = sx_replace(v, path, [A("Var"), f"q{j}"])
        if ok:
            out.append((keep[0], v, env2))
    return out


NARY = (p.Sum, p.Product, p.BitwiseAnd, p.BitwiseOr, p.BitwiseXor, p.LogicalAnd, p.LogicalOr,
        p.Min, p.Max)


def _unsigned(c):
    """the operand without a leading factor -1 (negations of one term are `repeated` too)"""
    if isinstance(c, p.Product) and len(c.children) >= 2 and type(c.children[0]) is int \
            and c.children[0] == -1:
        rest = c.children[1:]
        return rest[0] if len(rest) == 1 else p.Product(tuple(rest))
    return c


def has_repeated_operand(s):
    if not isinstance(s, NARY):
        return False
    cs = [_unsigned(c) for c in s.children]
    return any(cs[i] == cs[j] for i in range(len(cs)) for j in range(i))


def distinct_variant(mode, env, s):
    """(tree, env): every operand of the n-ary node `s` that occurs more than once (up to sign)
    replaced by ITS OWN variable holding the operand's value — equal operands get different
    variables, the other operands stay as they are; None if not applicable"""
    if not has_repeated_operand(s):
        return None
    us = [_unsigned(c) for c in s.children]
    env2, cs = dict(env), []
    for j, c in enumerate(s.children):
        if not any(us[j] == us[i] for i in range(len(us)) if i != j):
            cs.append(c)
            continue
        try:
            val = py_eval(c, env)
        except Exception:
            return None
        if isinstance(val, complex) or not isinstance(val, (bool, int, float)) \
                or (mode == "int" and not is_intlike(val)):
            return None
        env2[f"r{j}"] = val
        cs.append(p.Variable(f"r{j}"))
    return type(s)(tuple(cs)), env2


def post_order(s, acc):
    for c in scan.children(s):
        post_order(c, acc)
    acc.append(s)
    return acc


def classification_units(mode, env, e):
    """every program `classify` may ask for (to batch them into one compiler run)"""
    exprs, seen = [], set()
    for s in scan.subterms(e):
        for t in [s] + ([] if not isinstance(s, p.Expression) else scan.subterms(normalize(s))):
            if isinstance(t, p.Expression) and not isinstance(t, p.Variable):
                k = dumps(expr_to_sx(t))
                if k not in seen:
                    seen.add(k)
                    exprs.append(t)
    units = []
    for s in exprs:
        if in_range(s, env, mode) is None:
            continue
        try:
            units.append(single_unit(mode, env, s))
            dv = distinct_variant(mode, env, s)
            if dv is not None and in_range(dv[0], dv[1], mode) is not None:
                units.append(single_unit(mode, dv[1], dv[0]))
            for _k, v, env2 in variants(mode, env, expr_to_sx(s)):
                ve = sx_to_expr(v)
                if in_range(ve, env2, mode) is not None:
                    units.append(single_unit(mode, env2, ve))
        except Exception:
            pass
    return units


def classify(mode, env, e, normalized=False):
    """(key, detail, minimal expression) for an expression whose program fails: the smallest
    failing subterm (after `normalize`, if that still fails) and the child that makes it fail"""
    for s in post_order(e, []):
        if not isinstance(s, p.Expression) or isinstance(s, p.Variable):
            continue
        st, detail, ctype = expr_status(mode, env, s)
        if st not in ("nocompile", "mismatch"):
            continue
        if not normalized:
            n = normalize(s)
            if n != s and expr_status(mode, env, n)[0] in ("nocompile", "mismatch"):
                return classify(mode, env, n, True)
        sx = expr_to_sx(s)
        kids = nonleaf_children(sx)
        # does one child alone (the others replaced by variables holding their values) reproduce
        # a wrong value?  then that pair names the failure
        vs = [(k, expr_status(mode, env2, sx_to_expr(v))) for k, v, env2 in variants(mode, env, sx)] \
            if len(kids) > 1 else []
        for k, (vst, _d, vct) in vs:
            if vst == "mismatch" and not (mode == "int" and vct == "d"):
                return f"c-value-mismatch:{kind(s)}>{k}", f"{s!r}: {detail}", s
        # the smallest failing subterm is an n-ary node with a repeated operand, and the same node
        # over pairwise different variables holding the operands' values is fine: the repetition
        # is what makes it fail (`x + x - x`)
        dv = distinct_variant(mode, env, s)
        if dv is not None and expr_status(mode, dv[1], dv[0])[0] == "ok":
            return f"c-value-mismatch:{kind(s)}:repeated-operand", f"{s!r}: {detail}", s
        if st == "nocompile":
            return f"c-does-not-compile:{kind(s)}", f"{s!r}: {detail}", s
        if mode == "int" and ctype == "d":
            return f"c-value-mismatch:{kind(s)}:double-typed", f"{s!r}: {detail}", s
        if not kids:
            return f"c-value-mismatch:{kind(s)}", f"{s!r}: {detail}", s
        if len(kids) == 1:
            return f"c-value-mismatch:{kind(s)}>{kids[0][1][0]}", f"{s!r}: {detail}", s
        for k, (vst, _d, _vct) in vs:
            if vst in ("mismatch", "nocompile"):
                return f"c-value-mismatch:{kind(s)}>{k}", f"{s!r}: {detail}", s
        # no child reproduces the wrong value with its siblings' ACTUAL values: is there a child
        # that does so alone for SOME values of the siblings?  (`a & b == a ^ z` is wrong although
        # `a & b == q` and `q == a ^ z` happen to be right for the values at hand)
        if mode == "int" and len(kids) > 1:
            for k, v, env2 in variants(mode, env, sx):
                qs = sorted(n for n in env2 if n not in env)
                for trial in ALT_VALUES[:len(ALT_VALUES) if len(qs) == 1 else 6]:
                    env3 = dict(env2)
                    for j, n in enumerate(qs):
                        env3[n] = trial[j % len(trial)]
                    vst, _d, vct = expr_status(mode, env3, sx_to_expr(v))
                    if vst == "mismatch" and vct != "d":
                        return f"c-value-mismatch:{kind(s)}>{k}", f"{s!r}: {detail}", s
        ks = ",".join(sorted({c[0] for _p, c in kids}))
        return f"c-value-mismatch:{kind(s)}>{ks}", f"{s!r}: {detail}", s
    return "c-value-mismatch:history", "every subterm is fine on its own", e


def value_failure(pl, pool, trace, want_units=False):
    """compile/run the programs of the history; Failure or None.  With `want_units`, returns the
    list of units needed (first phase of batching) instead"""
    mus = mapper_units(pl, pool, trace)
    if mus is None:
        return [] if want_units else None
    if want_units:
        return [u for u, _ in mus]
    mode, env = pl["mode"], pl["env"]
    results = compile_units([u for u, _ in mus])
    for (u, exprs), r in zip(mus, results):
        if r[0] == "harness":
            return Failure("harness-c-compiler", r[1])
        if r[0] == "ok":
            bad = [e for (e, sc), cres in zip(exprs, r[1])
                   if not value_matches(mode, py_eval(e, env), cres, sc)]
        else:
            bad = [e for e, _ in exprs]
        for e in bad:
            key, detail, _m = classify(mode, env, e)
            if key != "c-value-mismatch:history":
                return Failure(key, detail)
        if bad:
            what = "c-value-mismatch:history" if r[0] == "ok" else "c-program-fails:" + r[0]
            return Failure(what, f"every expression is fine on its own, the program of the history "
                                 f"is not: {u['assigns']} {u['texts']}: {r[1:]}")
    return None

# }}}


class CStream(Stream):
    name = "ccode"

    # {{{ cases

    def _hist(self, rng, mode, value):
        gen = (IntGen if mode == "int" else FloatGen)(rng, cse=rng.choice([0.15, 0.3, 0.45]))
        mk = gen.num if mode == "int" else gen.dbl
        ops, n = [], 1
        for _ in range(rng.randint(1, 5)):
            k = rng.random()
            if k < 0.72 or not ops:
                e = mk(rng.randint(1, 4))
                if not value and rng.random() < 0.2:
                    e = decorate(rng, e, mk)
                ops.append(["emit", rng.randrange(n), dumps(expr_to_sx(e))])
            elif k < 0.9:
                ops.append(["copy", rng.randrange(n)])
                n += 1
            else:
                pairs = []
                for j in range(rng.randint(0, 2)):
                    child = rng.choice(gen.wr.children) if gen.wr.children and rng.random() < 0.7 \
                        else mk(1)
                    nm = rng.choice([f"m{j}", "_cse_u", "_cse0", f"_cse_m{j}"])
                    pairs.append([nm, dumps(expr_to_sx(child))])
                ops.append(["copymapped", rng.randrange(n), pairs])
                n += 1
        return {"kind": "hist", "mode": mode, "reverse": rng.random() < 0.85,
                "pfx": rng.choice(["_cse", "_cse", "_cse", "_t"]), "env": gen.env(),
                "value": value, "src": "random", "ops": ops}

    def _nocopy_hist(self, rng, mode):
        """value-checked: one mapper, several expressions with shared wrappers"""
        gen = (IntGen if mode == "int" else FloatGen)(rng, cse=rng.choice([0.0, 0.2, 0.4]))
        mk = gen.num if mode == "int" else gen.dbl
        for _attempt in range(6):
            env = gen.env()
            es = [mk(rng.randint(1, 4)) for _ in range(rng.randint(1, 3))]
            if all(in_range(e, env, mode) is not None for e in es):
                break
        return {"kind": "hist", "mode": mode, "reverse": rng.random() < 0.85, "pfx": "_cse",
                "env": env, "value": True, "src": "random-value",
                "ops": [["emit", 0, dumps(expr_to_sx(e))] for e in es]}

    def _cval(self, rng, e, src, small=False, positive=False):
        """`small`: variables from 0 … 2 (zeros and ones make `!`, `&&`, `||`, `?:` decide);
        `positive`: variables from 1 … 9, pairwise different (no term vanishes, no two coincide)"""
        gen = IntGen(rng)
        for _attempt in range(8):
            env = {v: rng.randint(0, 2) for v in IVARS} if small else gen.env()
            if positive:
                env = dict(zip(IVARS, rng.sample(range(1, 10), len(IVARS))))
            if in_range(e, env, "int") is not None:
                break
        return {"kind": "cval", "mode": "int", "env": env, "expr": dumps(expr_to_sx(e)), "src": src}

    def _single(self, rng, e, mode, src):
        """value-checked: one expression through a fresh mapper (floating point: variables away
        from 0 and from one another)"""
        if mode == "float":
            vals = rng.sample([0.75, 1.25, 1.5, 2.5, 3.25, 3.5, 4.75, 5.5], len(IVARS))
            env = {v: x * (1 if rng.random() < 0.75 else -1) for v, x in zip(IVARS, vals)}
        else:
            env = dict(zip(IVARS, rng.sample(range(1, 10), len(IVARS))))
        return {"kind": "hist", "mode": mode, "reverse": rng.random() < 0.85, "pfx": "_cse",
                "env": env, "value": True, "src": src, "ops": [["emit", 0, dumps(expr_to_sx(e))]]}

    def _families(self, rng, big):
        """the directed families of harness/c14fam.py: trees as rebuilding mappers leave them
        (unflattened negations / products / sums: where two sign characters meet) and n-ary nodes
        with repeated operands (one term with both signs and different multiplicities)"""
        F = c14fam
        pls = []
        rebuilt = list(F.rebuilt_single())
        rebuilt += list(F.rebuilt_double(rng, None if big else 260))
        rebuilt += [F.rebuilt_random(rng, rng.randint(3, 5)) for _ in range(2500 if big else 60)]
        for name, e in rebuilt:
            pls.append(self._cval(rng, e, "rebuilt:" + name.split("(")[0], positive=True))
        repeated = list(F.repeated_sums_small(rng, 4 if big else 3)) + list(F.repeated_operands())
        repeated += [F.repeated_sum_random(rng) for _ in range(3000 if big else 160)]
        for name, e in repeated:
            pls.append(self._cval(rng, e, "repeated:" + name.split(":")[0], positive=True))
        # the same trees as doubles, and behind wrappers (the hoisted assignment carries the text)
        both = rebuilt + repeated
        for name, e in rng.sample(both, 4000 if big else 170):
            pls.append(self._single(rng, e, "float", "family-float"))
        x = p.Variable("x")
        for name, e in rng.sample(both, 2500 if big else 90):
            w = CSE(e, rng.choice(PREFIXES))
            e2 = rng.choice([lambda: p.Sum((x, p.Product((w, 2)))), lambda: c14fam.sub(x, w),
                             lambda: p.Product((-1, w)), lambda: p.Sum((w, CSE(e, "v"))),
                             lambda: CSE(c14fam.neg(w), "u")])()
            pls.append(self._single(rng, e2, rng.choice(["int", "int", "float"]), "family-wrapped"))
        return pls

    def cases(self, rng, tier):
        big = tier != "quick"
        pls = list(fixed_findings())
        for e in two_level_int():
            pls.append(self._cval(rng, e, "two-level"))
        for e in two_level_c(rng, big):
            pls.append(self._cval(rng, e, "two-level-c"))
            pls.append(self._cval(rng, e, "two-level-c", small=True))
        g = IntGen(rng, bitwise=0.03)
        for _ in range(500 if not big else 8000):
            pls.append(self._cval(rng, g.num(rng.randint(2, 4)), "random"))
        g = IntGen(rng, bitwise=0.03, bigpow=0.0, minmax=0.04, rich=0.45)
        for _ in range(700 if not big else 10000):
            pls.append(self._cval(rng, g.num(rng.randint(2, 4)), "random-c"))
        for _ in range(1300 if not big else 20000):
            pls.append(self._hist(rng, rng.choice(["int", "int", "float"]), False))
        for _ in range(420 if not big else 6000):
            pls.append(self._nocopy_hist(rng, rng.choice(["int", "float"])))
        for _ in range(120 if not big else 2000):
            pls.append(self._hist(rng, rng.choice(["int", "float"]), True))
        pls += self._families(rng, big)
        self.prepare(pls, chunk=4000 if not big else 400)
        yield from pls

    def prepare(self, pls, chunk):
        """compile the programs of all cases in few compiler runs (results land in CACHE)"""
        def units_of(pl):
            try:
                if pl["kind"] == "cval":
                    e = sx_to_expr(loads(pl["expr"]))
                    return [single_unit("int", pl["env"], e)]
                if not pl.get("value"):
                    return []
                _steps, pool, trace = replay(pl)
                if structural_failure(pl, pool, trace) is not None:
                    return []
                return value_failure(pl, pool, trace, want_units=True)
            except Exception:
                return []
        for lo in range(0, len(pls), chunk):
            part = pls[lo:lo + chunk]
            compile_units([u for pl in part for u in units_of(pl)])
            # second phase: the programs needed to classify the failing cases
            more = []
            for pl in part:
                try:
                    if pl["kind"] == "cval":
                        e = sx_to_expr(loads(pl["expr"]))
                        if expr_status("int", pl["env"], e)[0] in ("mismatch", "nocompile"):
                            more += classification_units("int", pl["env"], e)
                    elif pl.get("value"):
                        _steps, pool, trace = replay(pl)
                        if structural_failure(pl, pool, trace) is not None:
                            continue
                        mus = mapper_units(pl, pool, trace)
                        for (u, exprs), r in zip(mus or [], compile_units([u for u, _ in mus or []])):
                            for (e, sc), cres in zip(exprs, r[1] if r[0] == "ok" else [None] * len(exprs)):
                                if cres is None or not value_matches(pl["mode"], py_eval(e, pl["env"]), cres, sc):
                                    more += classification_units(pl["mode"], pl["env"], e)
                except Exception:
                    pass
            compile_units(more)

    # }}}

    def request(self, pl):
        if pl["kind"] == "cval":
            env = "(" + " ".join(f"({k} {int(v)})" for k, v in sorted(pl["env"].items())) + ")"
            return f"(ccode-denc {env} {pl['expr']})"
        ops = []
        for op in pl["ops"]:
            if op[0] == "emit":
                ops.append(f"(emit {op[1]} {op[2]})")
            elif op[0] == "copy":
                ops.append(f"(copy {op[1]})")
            else:
                ops.append(f"(copymapped {op[1]} ({' '.join(f'({q(n)} {s})' for n, s in op[2])}))")
        return f"(ccode-hist {'true' if pl['reverse'] else 'false'} {q(pl['pfx'])} ({' '.join(ops)}))"

    def run_impl(self, pl):
        if pl["kind"] == "cval":
            e = sx_to_expr(loads(pl["expr"]))
            u = single_unit("int", pl["env"], e)
            r = compile_units([u])[0]
            if r[0] == "ok":
                typ, txt = r[1][0]
                val = f"(int {txt})" if typ == "i" else f"(double {txt})"
            else:
                val = f"({r[0]})"
            return f"({q(u['texts'][0])} {val} (py {py_value_sx(e, pl['env'])}))"
        try:
            steps, pool, _trace = replay(pl)
        except RecursionError:
            raise
        except Exception as ex:
            return f"(err {type(ex).__name__})"
        return dumps([steps, [mapper_sx(m) for m in pool]])

    def agree(self, model, impl, pl):
        if pl["kind"] != "cval":
            return super().agree(model, impl, pl)
        if "(noclaim)" in model:
            return "trivial"
        try:
            ms, ims = loads(model), loads(impl)
        except Exception:
            return "diff"
        if ms[0] != ims[0]:
            return "diff"
        in_frag = len(ms) >= 4 and ms[2][1] == "true" and ms[3][0] != "none"
        if in_frag:
            # inside the proved fragment with a defined meaning (PV.C14.ccode_value_c_partial):
            # `denV` is the real evaluator's value (type included), and both the model's C reading
            # and gcc give the corresponding number
            if dumps(ms[3]) != dumps(ims[2][1]):
                return "diff"
            want = int(ms[3][1]) if ms[3][0] == "int" else (1 if ms[3][1] == "true" else 0)
            if ms[1][0] != "int" or int(ms[1][1]) != want:
                return "diff"
            if ims[1][0] != "int" or int(ims[1][1]) != want:
                return "diff"
            return "ok"
        if ms[1][0] == "none":
            # the C reading of the model abstains (opaque text / an undefined operation)
            return "trivial"
        if dumps(ms[1]) == dumps(ims[1]):
            return "ok"
        if len(ms) >= 5 and ms[4][1] == "true" and ms[1][0] == "int":
            # the text contains parts the C reading does not model (pow(…) in a branch that is
            # not taken makes the whole `?:` a double, `… % 5` of it does not compile): the NUMBER
            # is claimed where C computes one, not the C type
            if ims[1][0] != "double":
                return "diff" if ims[1][0] == "int" else "trivial"
            # a double: the usual arithmetic conversions are outside the model (`(c ? 7 : pow(x, 3))/2`
            # is 3.5): agreement is recorded when the number is the same, no claim otherwise
            try:
                return "ok" if float(ims[1][1]) == float(int(ms[1][1])) else "trivial"
            except (ValueError, OverflowError):
                return "trivial"
        return "diff"

    def oracle(self, pl):
        if pl["kind"] == "cval":
            e = sx_to_expr(loads(pl["expr"]))
            st, _detail, _ct = expr_status("int", pl["env"], e)
            if st in ("ok", "skip"):
                return None
            key, detail, _m = classify("int", pl["env"], e)
            return Failure(key, detail)
        try:
            _steps, pool, trace = replay(pl)
        except Exception:
            return None       # outside the C mapper's domain (unhashable children, …)
        f = structural_failure(pl, pool, trace)
        if f is not None or not pl.get("value"):
            return f
        return value_failure(pl, pool, trace)

    def shrink(self, pl):
        if pl["kind"] == "cval":
            for s in sx_shrinks(loads(pl["expr"])):
                yield {**pl, "expr": dumps(s)}
            return
        ops = pl["ops"]
        for i in reversed(range(len(ops))):
            if ops[i][0] == "emit":
                yield {**pl, "ops": ops[:i] + ops[i + 1:]}
        for i, op in enumerate(ops):
            if op[0] == "emit":
                for s in sx_shrinks(loads(op[2])):
                    yield {**pl, "ops": ops[:i] + [["emit", op[1], dumps(s)]] + ops[i + 1:]}

    def nontrivial_key(self, pl, model, impl):
        return json.dumps(pl, sort_keys=True, default=str)

    def stats(self, pl, mo, io, acc):
        k = pl["kind"] + ":" + pl.get("mode", "") + (":value" if pl.get("value") or pl["kind"] == "cval" else "")
        acc[k] = acc.get(k, 0) + 1
        if pl["kind"] == "cval" and "(frag true)" in mo and not mo.rstrip().endswith("(none))"):
            acc["cval:in_proved_fragment"] = acc.get("cval:in_proved_fragment", 0) + 1
        acc["compiler_runs"] = RUNS["compiler"]
        acc["c_programs"] = RUNS["units"]
        if pl["kind"] == "hist":
            n = sum(1 for op in pl["ops"] if op[0] != "emit")
            acc["histories_with_copy"] = acc.get("histories_with_copy", 0) + (1 if n else 0)


class TableStream(Stream):
    """T-gen tie, checked from the compiled side: the same history of operations goes through the
    hand-written model (`runOps`) AND through the TABLE INTERPRETER (`c14RunOpsT`, compiled) run on
    the table regenerated from the source of c_code.py / stringifier.py; both answers must be the
    real mapper's (texts, hoisted names, complete allocator state of every mapper of the pool).  The
    Lean theorem `runOps_eq_table_current` says the two are equal for all histories; this stream
    checks the reader `extract/ccode.py` and the meaning of the table language against the real
    code.  Cases: the random histories of the main stream plus every node kind of the text syntax
    with wrappers in EVERY operand position (the order in which a handler prints its operands
    decides which wrapper gets which name: `map_subscript` prints the index first)."""
    name = "ccode-table"

    def __init__(self):
        self._main = CStream()

    @staticmethod
    def shapes():
        """every handler with distinct wrappers in all operand positions"""
        v = [p.Variable(n) for n in "abcd"]
        w = [CSE(p.Sum((x, k + 1)), pre) for k, (x, pre) in
             enumerate(zip(v, [None, "u", None, "u"]))]
        a, b, c, d = w
        out = [
            p.Subscript(a, b), p.Subscript(a, (b, c)), p.Subscript(a, (b,)), p.Subscript(v[0], ()),
            p.Subscript(p.Subscript(a, b), (c, d)), p.Lookup(a, "f"), p.Lookup(p.Subscript(a, b), "g"),
            p.Call(a, (b, c)), p.Call(p.Variable("f"), (a, b)), p.Call(p.Lookup(a, "m"), (b,)),
            p.Call(p.Variable("f"), ()), p.Call(p.Sum((a, 1)), (b,)),
            p.Quotient(a, b), p.FloorDiv(a, b), p.Remainder(a, b), p.Power(a, b), p.Power(a, 2),
            p.Power(a, 1), p.Power(a, 0), p.Power(p.Sum((a, b)), 2), p.Power(2, a),
            p.LeftShift(a, b), p.RightShift(a, b), p.BitwiseNot(a), p.LogicalNot(a),
            p.Comparison(a, "<=", b), p.If(a, b, c), p.If(p.Comparison(a, "<", b), c, d),
            p.Min((a, b)), p.Max((a, b, c)), p.Min((a,)), p.Max(()),
            p.Sum((a, p.Product((-1, b)), c, p.Product((-1, d, a)))),
            p.Sum((p.Product((-1, a)), p.Product((-1, b)))), p.Sum((p.Product((-1, a)),)),
            p.Sum((p.Product((-1.0, a)), p.Product((True, b)), p.Product((-1,)))),
            p.Product((a, p.Quotient(b, c), p.Remainder(c, d))), p.Product((a, -2, b)),
            p.BitwiseOr((a, b)), p.BitwiseXor((a, b, c)), p.BitwiseAnd((a, b)),
            p.LogicalOr((a, b)), p.LogicalAnd((a, b, c)), p.LogicalAnd((a,)),
            CSE(p.Sum((a, b)), "u"), CSE(CSE(v[0], "u"), "u"), CSE(p.Subscript(a, b)),
            p.Quotient(p.Product((a, b)), p.FloorDiv(c, d)), p.Remainder(p.Quotient(a, b), p.Product((c, d))),
            p.Sum((-3, a, 2.5, -1e-05, True)), p.Product((p.Sum((a, -3)), -7)), p.Power(-2, a),
        ]
        return out

    def cases(self, rng, tier):
        big = tier != "quick"
        shapes = self.shapes()
        for e in shapes:
            for rev in (True, False):
                yield {"kind": "hist", "mode": "int", "reverse": rev, "pfx": "_cse", "env": {},
                       "value": False, "src": "shape", "ops": [["emit", 0, dumps(expr_to_sx(e))]]}
        # two shapes through one mapper and a copy of it
        for _ in range(150 if not big else 2500):
            e1, e2, e3 = (rng.choice(shapes) for _ in range(3))
            ops = [["emit", 0, dumps(expr_to_sx(e1))], ["copy", 0],
                   ["emit", rng.randrange(2), dumps(expr_to_sx(e2))],
                   ["copymapped", 0, [["m0", dumps(expr_to_sx(p.Variable("a") + 1))]]],
                   ["emit", rng.randrange(3), dumps(expr_to_sx(e3))]]
            yield {"kind": "hist", "mode": "int", "reverse": rng.random() < 0.8,
                   "pfx": rng.choice(["_cse", "_t"]), "env": {}, "value": False, "src": "shape-hist",
                   "ops": ops}
        for _ in range(450 if not big else 7000):
            yield self._main._hist(rng, rng.choice(["int", "int", "float"]), False)

    def request(self, pl):
        return self._main.request(pl).replace("(ccode-hist ", "(ccode-hist2 ", 1)

    def run_impl(self, pl):
        return self._main.run_impl(pl)

    def agree(self, model, impl, pl):
        try:
            ms = loads(model)
            parts = {x[0]: dumps(x[1]) for x in ms}
        except Exception:
            return "diff"
        if set(parts) != {"model", "table"}:
            return "diff"
        if parts["model"] == "(noclaim)" and parts["table"] == "(noclaim)":
            return "trivial"
        try:
            want = dumps(loads(impl))
        except Exception:
            return "diff"
        return "ok" if parts["model"] == want and parts["table"] == want else "diff"

    def oracle(self, pl):
        return self._main.oracle(pl)

    def shrink(self, pl):
        return self._main.shrink(pl)

    def stats(self, pl, mo, io, acc):
        acc[pl["src"]] = acc.get(pl["src"], 0) + 1



# {{{ program level: assignments + expression

class ProgGen:
    """trees of `PV.C14.cFragCse` by construction: the C-expressible integer fragment with
    `CommonSubexpression` wrappers at any place — shared wrappers, wrappers whose child contains
    wrappers, equal children under different prefixes, wrappers of Boolean-valued and of
    remainder-valued subexpressions (which may stand where the bare subexpression may not)"""

    def __init__(self, rng, cse=0.3):
        self.rng, self.cse, self.pool = rng, cse, []

    def leaf(self):
        r = self.rng
        return p.Variable(r.choice(IVARS)) if r.random() < 0.65 else r.randint(0, 9)

    def prod(self, fs):
        """a bare remainder is not a factor of the fragment (`a * b % c`); a wrapped one is"""
        r = self.rng
        return p.Product(tuple(CSE(f, r.choice(PREFIXES)) if isinstance(f, p.Remainder) else f
                               for f in fs))

    def wrap(self, d):
        r = self.rng
        if self.pool and r.random() < 0.55:
            child = r.choice(self.pool)
        else:
            k = r.random()
            child = self.cond(d - 1) if k < 0.15 else \
                p.Remainder(self.nn(d - 1), r.randint(2, 7)) if k < 0.3 else self.num(d - 1)
            self.pool.append(child)
        return CSE(child, r.choice(PREFIXES))

    def cond(self, d):
        r = self.rng
        k = r.random()
        if d <= 0 or k < 0.55:
            return p.Comparison(self.num(d - 1, bit=False), r.choice(CMPS), self.num(d - 1, bit=False))
        if k < 0.7:
            return p.LogicalNot(self.any(d - 1))
        cls = p.LogicalAnd if k < 0.85 else p.LogicalOr
        return cls(tuple(self.any(d - 1) for _ in range(r.randint(2, 3))))

    def any(self, d):
        return self.cond(d) if self.rng.random() < 0.6 else self.num(d)

    def nn(self, d):
        """non-negative on non-negative variables (operands of `&`, `^`, `|`, `~`, shifts, `//`, `%`)"""
        r = self.rng
        if d <= 0 or r.random() < 0.25:
            return self.leaf()
        if r.random() < self.cse:
            w = self.wrap_nn(d)
            if w is not None:
                return w
        k = r.randrange(8)
        g = lambda: self.nn(d - 1)  # noqa: E731
        if k == 0:
            return p.Sum((g(), g()))
        if k == 1:
            return self.prod((g(), g()))
        if k == 2:
            return p.Remainder(g(), r.randint(2, 9))
        if k == 3:
            return p.FloorDiv(g(), r.choice([1, 2, 3, p.Sum((g(), 1))]))
        if k == 4:
            cls = r.choice([p.BitwiseAnd, p.BitwiseOr, p.BitwiseXor])
            return cls(tuple(g() for _ in range(r.randint(2, 3))))
        if k == 5:
            return r.choice([p.LeftShift, p.RightShift])(g(), r.choice([0, 1, 2, p.Remainder(g(), 3)]))
        if k == 6:
            return p.Power(p.Variable(r.choice(IVARS)), 2)
        return r.choice([p.Min, p.Max])((g(), g()))

    def wrap_nn(self, d):
        r = self.rng
        nnpool = getattr(self, "nnpool", None)
        if nnpool is None:
            nnpool = self.nnpool = []
        if nnpool and r.random() < 0.55:
            child = r.choice(nnpool)
        else:
            child = self.nn(d - 1)
            nnpool.append(child)
            self.pool.append(child)
        return CSE(child, r.choice(PREFIXES))

    def num(self, d, bit=True):
        """`bit = False`: not a bitwise operation at the root (operand of a comparison)"""
        r = self.rng
        if d <= 0 or r.random() < 0.12:
            return self.leaf()
        if r.random() < self.cse:
            return self.wrap(d)
        k = r.random()
        g = lambda: self.num(d - 1)  # noqa: E731
        if k < 0.2:
            cs = [g()] + [r.choice([g, lambda: self.prod((-1, g())), lambda: self.prod((-1, g(), g()))])()
                          for _ in range(r.randint(1, 2))]
            first = cs[0]
            if isinstance(first, p.Product) and first.children and first.children[0] == -1:
                cs[0] = self.leaf()
            return p.Sum(tuple(cs))
        if k < 0.38:
            return self.prod([g() for _ in range(r.randint(2, 3))])
        if k < 0.48:
            return p.FloorDiv(self.nn(d - 1), r.choice([2, 3, p.Sum((self.nn(d - 1), 1))]))
        if k < 0.58:
            return p.Remainder(self.nn(d - 1), r.choice([2, 5, p.Sum((self.nn(d - 1), 1))]))
        if k < 0.63:
            return p.Power(p.Variable(r.choice(IVARS)), 2)
        if k < 0.73:
            return p.If(self.any(d - 1), g(), g())
        if k < 0.8 and bit:
            cls = r.choice([p.BitwiseAnd, p.BitwiseOr, p.BitwiseXor])
            return cls(tuple(self.nn(d - 1) for _ in range(r.randint(2, 3))))
        if k < 0.85:
            return r.choice([p.LeftShift, p.RightShift])(self.nn(d - 1), r.randint(0, 3))
        if k < 0.88:
            return p.BitwiseNot(self.nn(d - 1))
        if k < 0.93:
            return r.choice([p.Min, p.Max])((g(), g()))
        return self.cond(d - 1)

    def env(self):
        return {v: self.rng.randint(0, 9) for v in IVARS}


def prog_shapes():
    """every binary / unary node kind of the fragment, to be filled with wrappers"""
    x = p.Variable("x")
    ops = [("sum", lambda u, v: p.Sum((u, v))), ("sub", sub),
           ("sum3", lambda u, v: p.Sum((x, p.Product((-1, u, v)), 4))),
           ("prod", lambda u, v: p.Product((u, v))), ("prod3", lambda u, v: p.Product((u, 3, v))),
           ("floordiv", p.FloorDiv), ("rem", p.Remainder),
           ("shl", lambda u, v: p.LeftShift(u, p.Remainder(v, 3))),
           ("shr", lambda u, v: p.RightShift(u, p.Remainder(v, 3))),
           ("band", lambda u, v: p.BitwiseAnd((u, v))), ("bor", lambda u, v: p.BitwiseOr((u, v, x))),
           ("bxor", lambda u, v: p.BitwiseXor((u, v))),
           ("lt", lambda u, v: p.Comparison(u, "<", v)), ("eq", lambda u, v: p.Comparison(u, "==", v)),
           ("and", lambda u, v: p.LogicalAnd((u, v))), ("or", lambda u, v: p.LogicalOr((x, u, v))),
           ("min", lambda u, v: p.Min((u, v))), ("max", lambda u, v: p.Max((u, v))),
           ("if", lambda u, v: p.If(u, v, x)), ("if2", lambda u, v: p.If(x, u, v)),
           ("not", lambda u, v: p.Sum((p.LogicalNot(u), v))),
           ("bnot", lambda u, v: p.Product((p.BitwiseNot(u), v)))]
    return ops


def prog_wrappers():
    x, y, z, a = [p.Variable(v) for v in "xyza"]
    w1 = CSE(p.Sum((x, 1)), "u")
    w2 = CSE(p.Product((w1, y)))                       # nested
    w3 = CSE(p.Sum((x, 1)), "v")                       # equal child, other prefix
    w4 = CSE(p.Remainder(a, 3))                        # remainder-valued
    w5 = CSE(p.Comparison(y, "<", z), "u")             # Boolean-valued, repeated prefix
    w6 = CSE(CSE(p.BitwiseAnd((a, w4)), "u"), "u_2")   # wrapper of a wrapper
    return [w1, w2, w3, w4, w5, w6]


class ProgStream(Stream):
    """The C PROGRAM of a history of calls on one mapper: the assignments hoisted so far
    (`cse_name_list`, in order) followed by an expression text.

      * correspondence: per call, the expression text and the `(name, text)` assignments the call
        appends (model `PV.C14.emitProg` vs the real `CCodeMapper`); per environment and call, the
        reference meaning `denVCse` (a wrapper means its child) vs the real evaluator, typed; the
        model's `runProg` (declarations in order, then the expression, all read by C's grammar
        `denC`) vs gcc on the WHOLE program; inside the proved statement (`cFragCse`, `cseTotal`,
        disjoint names, meaning defined) the instance of `history_value_partial`:
        `runProg = toInt(denVCse)` for EVERY expression of the history under the final list;
      * oracle (real code only): names unique, assigned once, assigned before use, and the whole
        program compiled by gcc (`long long name = …;` in order) and run gives the evaluator's value
        of every expression of the history, on a few environments."""
    name = "ccode-prog"

    # {{{ cases

    def _payload(self, rng, es, gen, src, reverse=None, pfx=None):
        envs = []
        for _attempt in range(10):
            env = gen.env()
            if all(in_range(e, env, "int") is not None for e in es):
                envs.append(env)
                if len(envs) == 2:
                    break
        if not envs:
            envs = [gen.env()]
        return {"reverse": (rng.random() < 0.8) if reverse is None else reverse,
                "pfx": pfx or rng.choice(["_cse", "_cse", "_cse", "_t"]), "envs": envs,
                "exprs": [dumps(expr_to_sx(e)) for e in es], "src": src}

    def cases(self, rng, tier):
        big = tier != "quick"
        pls = []
        ws = prog_wrappers()
        x = p.Variable("x")
        g0 = ProgGen(rng)
        # every node kind with wrappers in both operand positions; a second call reuses them
        for name, o in prog_shapes():
            pairs = [(w, x) for w in ws] + [(x, w) for w in ws] + [(w, w) for w in ws[:3]]
            if big:
                pairs += [(u, v) for u in ws for v in ws if u is not v]
            else:
                pairs += [(rng.choice(ws), rng.choice(ws)) for _ in range(4)]
            for u, v in pairs:
                es = [o(u, v)]
                if rng.random() < 0.5:
                    _n2, o2 = rng.choice(prog_shapes())
                    es.append(o2(v, CSE(u.child if isinstance(u, CSE) else u, rng.choice(PREFIXES))))
                pls.append(self._payload(rng, es, g0, "shape:" + name, reverse=rng.random() < 0.7,
                                         pfx="_cse"))
        # random histories: 1 … 4 calls sharing one pool of wrapper children
        for _ in range(260 if not big else 5000):
            gen = ProgGen(rng, cse=rng.choice([0.2, 0.35, 0.5]))
            es = [gen.num(rng.randint(1, 4)) for _ in range(rng.randint(1, 4))]
            if len(es) > 1 and rng.random() < 0.3:
                es.append(CSE(rng.choice(es[:-1]), rng.choice(PREFIXES)))    # an earlier tree, wrapped
            pls.append(self._payload(rng, es, gen, "random"))
        # shapes beyond the proved fragment (text, runProg vs gcc, the oracle)
        for _ in range(60 if not big else 1200):
            gen = IntGen(rng, cse=rng.choice([0.3, 0.5]), bitwise=0.03, bigpow=0.0, minmax=0.04, rich=0.3)
            es = [gen.num(rng.randint(1, 3)) for _ in range(rng.randint(1, 3))]
            pls.append(self._payload(rng, es, gen, "random-wide"))
        self.prepare(pls, chunk=3000 if not big else 1500)
        yield from pls

    def prepare(self, pls, chunk):
        units = []
        for pl in pls:
            try:
                _m, _emits, us = self.real(pl)
                units += us
            except Exception:
                pass
        for lo in range(0, len(units), chunk):
            compile_units(units[lo:lo + chunk])
        # second phase: what `classify` needs for the failing programs
        more = []
        for pl in pls:
            try:
                more += self.failure(pl, want_units=True) or []
            except Exception:
                pass
        compile_units(more)

    # }}}

    @staticmethod
    def real(pl):
        """the real mapper on the history: (mapper, [(expr, text, new assignments)], one program
        per environment: all assignments in order, every expression text)"""
        from pymbolic.mapper.c_code import CCodeMapper
        m = CCodeMapper(reverse=pl["reverse"], cse_prefix=pl["pfx"])
        emits = []
        for s in pl["exprs"]:
            e = sx_to_expr(loads(s))
            before = len(m.cse_name_list)
            text = m(e)
            emits.append((e, text, list(m.cse_name_list[before:]), list(m.cse_name_list)))
        units = [make_unit("int", sorted(env.items()), m.cse_name_list, [t for _e, t, _n, _a in emits])
                 for env in pl["envs"]]
        return m, emits, units

    def request(self, pl):
        envs = " ".join("(" + " ".join(f"({k} {int(v)})" for k, v in sorted(env.items())) + ")"
                        for env in pl["envs"])
        return (f"(ccode-prog {'true' if pl['reverse'] else 'false'} {q(pl['pfx'])} ({envs}) "
                f"({' '.join(pl['exprs'])}))")

    def run_impl(self, pl):
        try:
            m, emits, units = self.real(pl)
        except RecursionError:
            raise
        except Exception as ex:
            return f"(err {type(ex).__name__})"
        em = [[t, [[n, v] for n, v in new]] for _e, t, new, _a in emits]
        names = {n for n, _v in m.cse_name_list}
        envs = []
        for env, r in zip(pl["envs"], compile_units(units)):
            inr = all(in_range(e, env, "int") is not None for e, _t, _n, _a in emits)
            vals = []
            for i, (e, _t, _n, _a) in enumerate(emits):
                if r[0] == "ok":
                    typ, txt = r[1][i]
                    cv = [A("int"), A(txt)] if typ == "i" else [A("double"), A(txt)]
                else:
                    cv = [A(r[0])]
                vals.append([cv, loads(py_value_sx(e, env))])
            envs.append([[A("disj"), A("true" if not (names & set(env)) else "false")],
                         [A("inrange"), A("true" if inr else "false")], vals])
        return dumps([A("prog"), em, envs])

    def agree(self, model, impl, pl):
        if "(noclaim)" in model:
            return "trivial"
        try:
            ms, ims = loads(model), loads(impl)
        except Exception:
            return "diff"
        if not (isinstance(ms, list) and isinstance(ims, list) and ms and ims
                and ms[0] == "prog" and ims[0] == "prog"):
            return "diff"
        # the program text, call by call
        if dumps(ms[1]) != dumps(ims[1]):
            return "diff"
        frags = ms[2]
        for menv, ienv in zip(ms[3], ims[2]):
            disj = menv[0][1] == "true"
            if disj != (ienv[0][1] == "true"):
                return "diff"
            inr = ienv[1][1] == "true"
            # the hypotheses of `history_value_partial` speak about ALL trees of the history (every
            # hoisted assignment is executed before any expression)
            hyp = disj and all(fr == "true" for fr in frags) and all(mv[2][1] == "true" for mv in menv[1])
            for mv, iv in zip(menv[1], ienv[2]):
                m_run, m_ref = mv[0], mv[1]
                c_val, py_val = iv
                if hyp and m_ref[0] != "none":
                    # the instance of `history_value_partial`
                    if dumps(m_ref) != dumps(py_val):
                        return "diff"
                    want = int(m_ref[1]) if m_ref[0] == "int" else (1 if m_ref[1] == "true" else 0)
                    if m_run[0] != "int" or int(m_run[1]) != want:
                        return "diff"
                if m_run[0] == "int" and inr and disj:
                    # C's reading of the whole program in the model and in gcc
                    if c_val[0] != "int" or int(c_val[1]) != int(m_run[1]):
                        return "diff"
        return "ok"

    # {{{ the property's own statement on the real code

    def failure(self, pl, want_units=False):
        try:
            m, emits, units = self.real(pl)
        except RecursionError:
            raise
        except AssertionError as ex:
            # the mapper's own check `len(cse_names) == len(cse_to_name)`: a name handed out twice
            # or a wrapped subexpression entered twice
            return [] if want_units else Failure("ccode-allocator-assertion",
                                                 f"CCodeMapper raises AssertionError {ex}")
        except Exception:
            return [] if want_units else None       # outside the C mapper's domain
        if not want_units:
            trace = [("emit", 0, e, t, None, after) for e, t, _n, after in emits]
            f = structural_failure({"pfx": pl["pfx"]}, [m], trace)
            if f is not None:
                return f
        names = {n for n, _v in m.cse_name_list}
        more = []
        for env, u, r in zip(pl["envs"], units, compile_units(units)):
            if names & set(env):
                continue          # the environment declares a generated name: nothing is promised
            scales = [in_range(e, env, "int") for e, _t, _n, _a in emits]
            if any(sc is None for sc in scales):
                continue          # out of range (this includes every hoisted subexpression)
            if r[0] == "harness":
                if want_units:
                    continue
                return Failure("harness-c-compiler", r[1])
            if r[0] == "ok":
                bad = [i for i, ((e, _t, _n, _a), sc) in enumerate(zip(emits, scales))
                       if not value_matches("int", py_eval(e, env), r[1][i], sc)]
            else:
                bad = list(range(len(emits)))
            if want_units:
                for i in bad:
                    more += classification_units("int", env, emits[i][0])
                continue
            for i in bad:
                key, detail, _m = classify("int", env, emits[i][0])
                if key != "c-value-mismatch:history":
                    return Failure(key, detail)
            if bad:
                i = bad[0]
                e, text = emits[i][0], emits[i][1]
                known = {n for n, _v in emits[i - 1][3]} if i else set()
                reuse = "reused-name" if set(IDENT.findall(text)) & known else "own-names"
                if r[0] == "ok":
                    pos = "last-call" if i == len(emits) - 1 else "earlier-call"
                    return Failure(f"prog-value-mismatch:{pos}:{reuse}",
                                   f"call {i} of {len(emits)}: every expression is fine through a "
                                   f"fresh mapper; the program {u['assigns']} ; {text!r} gives "
                                   f"{r[1][i][1]}, the evaluator {py_eval(e, env)!r} on {env}")
                why = r[1] if len(r) > 1 else ""
                kind_ = "redeclared-name" if "redefinition" in why or "redeclar" in why else \
                    "undeclared-name" if "undeclared" in why else r[0]
                return Failure(f"prog-fails:{kind_}",
                               f"every expression is fine through a fresh mapper; the program "
                               f"{u['assigns']} ; {u['texts']} on {env}: {r}")
        return more if want_units else None

    def oracle(self, pl):
        return self.failure(pl)

    # }}}

    def shrink(self, pl):
        es = pl["exprs"]
        if len(pl["envs"]) > 1:
            for i in range(len(pl["envs"])):
                yield {**pl, "envs": pl["envs"][:i] + pl["envs"][i + 1:]}
        if len(es) > 1:
            for i in reversed(range(len(es))):
                yield {**pl, "exprs": es[:i] + es[i + 1:]}
        for i, s in enumerate(es):
            for t in sx_shrinks(loads(s)):
                yield {**pl, "exprs": es[:i] + [dumps(t)] + es[i + 1:]}

    def nontrivial_key(self, pl, model, impl):
        return json.dumps(pl, sort_keys=True, default=str)

    def stats(self, pl, mo, io, acc):
        acc["histories"] = acc.get("histories", 0) + 1
        acc["calls"] = acc.get("calls", 0) + len(pl["exprs"])
        src = pl["src"].split(":")[0]
        acc["src:" + src] = acc.get("src:" + src, 0) + 1
        try:
            ms, ims = loads(mo), loads(io)
            if ms[0] != "prog" or ims[0] != "prog":
                return
            acc["assignments"] = acc.get("assignments", 0) + sum(len(c[1]) for c in ims[1])
            for menv, ienv in zip(ms[3], ims[2]):
                disj, inr = menv[0][1] == "true", ienv[1][1] == "true"
                hyp = disj and all(fr == "true" for fr in ms[2]) and all(mv[2][1] == "true" for mv in menv[1])
                for mv, iv in zip(menv[1], ienv[2]):
                    if hyp and mv[1][0] != "none":
                        acc["values_in_proved_statement"] = acc.get("values_in_proved_statement", 0) + 1
                    if mv[0][0] == "int" and inr and disj:
                        acc["runProg_vs_gcc"] = acc.get("runProg_vs_gcc", 0) + 1
        except Exception:
            pass
        acc["compiler_runs"] = RUNS["compiler"]
        acc["c_programs"] = RUNS["units"]

# }}}


# {{{ function bodies: mappers constructed from an explicit assignment list

class BodiesStream(Stream):
    """`copy(cse_name_list=L)`: the mapper of a NEW function body takes the settings of an existing
    mapper and an assignment list chosen by the caller — empty (a new body), the first k assignments
    of some mapper of the pool (a body continued from an earlier point), each optionally followed by
    `(name, expression)` pairs the caller computes itself — and then sees expressions in which the
    wrapped subexpressions of the earlier bodies recur (same wrapper nodes, fresh wrappers around
    equal children, other prefixes, nested inside other wrappers), directly and through further
    copies of the copy, interleaved with further calls on the older mappers.

      * correspondence: texts and the complete allocator state of every mapper of the pool vs the
        model (`PV.runBodyOps`: `CSt.copyWithList`, lean/PV/Model/CCodeBodies.lean);
      * oracle (real code only; reference = the property's words on each body's OWN list, gcc and
        the evaluator): in every body the names are unique, no wrapped subexpression is assigned
        more often than it was sent, every hoisted identifier in an assignment or a returned text
        is assigned earlier IN THAT BODY's list, and the body — declarations of the caller-provided
        names, the assignments in order, the returned texts — compiled by gcc computes the
        evaluator's value of every expression sent through its mapper."""
    name = "ccode-bodies"

    def __init__(self):
        self._main = CStream()

    # {{{ cases

    @staticmethod
    def _emit(i, e):
        return ["emit", i, dumps(expr_to_sx(e))]

    def _finish(self, rng, mode, gen, ops, src, tries=8):
        """pick an environment in which every expression of the history is in range"""
        es = [sx_to_expr(loads(op[2])) for op in ops if op[0] == "emit"]
        es += [sx_to_expr(loads(s)) for op in ops if op[0] == "copylist" for _n, s in op[4]]
        env = gen.env()
        for _attempt in range(tries):
            if all(in_range(e, env, mode) is not None for e in es):
                break
            env = gen.env()
        return {"kind": "hist", "mode": mode, "reverse": rng.random() < 0.85,
                "pfx": rng.choice(["_cse", "_cse", "_cse", "_t", "tmp"]), "env": env,
                "value": True, "src": src, "ops": ops}

    def _random(self, rng, mode):
        gen = (IntGen if mode == "int" else FloatGen)(rng, cse=rng.choice([0.3, 0.45, 0.6]))
        mk = gen.num if mode == "int" else gen.dbl

        def expr(again):
            """`again`: wrapped subexpressions of the earlier calls recur under fresh wrappers"""
            e = mk(rng.randint(1, 3))
            if again and gen.wr.children:
                cs = [CSE(rng.choice(gen.wr.children), rng.choice(PREFIXES))
                      for _ in range(rng.randint(1, 2))]
                if rng.random() < 0.35:          # … nested inside another wrapper
                    cs = [CSE(p.Sum((cs[0], rng.randint(1, 3))), rng.choice(PREFIXES))] + cs[1:]
                e = rng.choice([p.Sum, p.Product])(tuple(cs + [e]))
            return e

        ops, n, given = [], 1, 0
        for _ in range(rng.randint(1, 2)):
            ops.append(self._emit(0, expr(False)))
        for _body in range(rng.randint(1, 3)):
            i = rng.randrange(n)
            k = rng.random()
            # the list: empty | a prefix | everything (what plain copy() passes)
            take = 0 if k < 0.55 else rng.randint(1, 2) if k < 0.8 else 99
            pairs = []
            if rng.random() < 0.3:
                child = rng.choice(gen.wr.children) if gen.wr.children and rng.random() < 0.7 else mk(1)
                pairs.append([f"given{given}", dumps(expr_to_sx(child))])
                given += 1
            ops.append(["copylist", i, i if rng.random() < 0.85 else rng.randrange(n), take, pairs])
            n += 1
            for _ in range(rng.randint(1, 2)):
                ops.append(self._emit(n - 1, expr(True)))
            if rng.random() < 0.3:
                ops.append(self._emit(rng.randrange(n), expr(True)))
        return self._finish(rng, mode, gen, ops, "random")

    def _shapes(self, rng, big):
        """every node kind with wrappers in both operand positions in the first body; the second
        body (empty list) sees the same children under fresh wrappers; a third one is copied from
        the second; then the first mapper is used again"""
        ws = prog_wrappers()
        g0 = ProgGen(rng)
        shapes = prog_shapes()

        def fresh(w):
            return CSE(w.child, rng.choice(PREFIXES))

        for name, o in shapes:
            pairs = [(u, v) for u in ws for v in ws] if big else \
                [(rng.choice(ws), rng.choice(ws)) for _ in range(3)]
            for u, v in pairs:
                _n2, o2 = rng.choice(shapes)
                _n3, o3 = rng.choice(shapes)
                ops = [self._emit(0, o(u, v)),
                       ["copylist", 0, 0, 0, []],
                       self._emit(1, o2(fresh(v), fresh(u))),
                       ["copylist", 1, 1, 0, []],
                       self._emit(2, o3(fresh(u), CSE(p.Sum((fresh(v), 1)), "t"))),
                       self._emit(0, o3(v, fresh(u)))]
                yield self._finish(rng, "int", g0, ops, "shape:" + name)

    def cases(self, rng, tier):
        big = tier != "quick"
        pls = list(self._shapes(rng, big))
        for _ in range(260 if not big else 6000):
            pls.append(self._random(rng, rng.choice(["int", "int", "float"])))
        self._main.prepare(pls, chunk=4000 if not big else 1000)
        yield from pls

    # }}}

    def request(self, pl):
        ops = []
        for op in pl["ops"]:
            if op[0] == "copylist":
                pairs = " ".join(f"({q(n)} {s})" for n, s in op[4])
                ops.append(f"(copylist {op[1]} {op[2]} {op[3]} ({pairs}))")
            elif op[0] == "emit":
                ops.append(f"(emit {op[1]} {op[2]})")
            elif op[0] == "copy":
                ops.append(f"(copy {op[1]})")
            else:
                ops.append(f"(copymapped {op[1]} ({' '.join(f'({q(n)} {s})' for n, s in op[2])}))")
        return f"(ccode-bodies {'true' if pl['reverse'] else 'false'} {q(pl['pfx'])} ({' '.join(ops)}))"

    def run_impl(self, pl):
        return self._main.run_impl(pl)

    def oracle(self, pl):
        return self._main.oracle(pl)

    def shrink(self, pl):
        yield from self._main.shrink(pl)
        ops = pl["ops"]
        for i, op in enumerate(ops):
            if op[0] == "copylist" and (op[4] or op[3]):
                if op[4]:
                    yield {**pl, "ops": ops[:i] + [op[:4] + [[]]] + ops[i + 1:]}
                if op[3]:
                    yield {**pl, "ops": ops[:i] + [op[:3] + [0, op[4]]] + ops[i + 1:]}

    def nontrivial_key(self, pl, model, impl):
        return json.dumps(pl, sort_keys=True, default=str)

    def stats(self, pl, mo, io, acc):
        acc["src:" + pl["src"].split(":")[0]] = acc.get("src:" + pl["src"].split(":")[0], 0) + 1
        acc["mode:" + pl["mode"]] = acc.get("mode:" + pl["mode"], 0) + 1
        for op in pl["ops"]:
            if op[0] == "copylist":
                k = "empty-list" if not op[3] and not op[4] else "prefix-or-given"
                acc[k] = acc.get(k, 0) + 1
        acc["bodies"] = acc.get("bodies", 0) + 1 + sum(1 for op in pl["ops"] if op[0] != "emit")

# }}}


def probe():
    """replay the minimal input of every known finding on the real code"""
    st = CStream()
    out = []
    expected = {
        0: "c-value-mismatch:Product>Remainder", 1: "c-value-mismatch:Remainder>Power",
        2: "c-value-mismatch:Quotient>Power", 3: "c-value-mismatch:Quotient",
        4: "c-value-mismatch:FloorDiv:double-typed", 5: "c-does-not-compile:Remainder",
        6: "c-value-mismatch:Comparison>BitwiseAnd", 7: "c-value-mismatch:Comparison>BitwiseOr",
        8: "c-value-mismatch:Comparison>BitwiseXor",
        9: "ccode-copy-forgets-hoisted-cse", 10: "ccode-copy-duplicate-name",
        11: "ccode-copy-duplicate-name",
        12: "c-value-mismatch:LogicalAnd", 13: "c-value-mismatch:LogicalOr"}
    for i, pl in enumerate(fixed_findings()):
        f = st.oracle(pl)
        key = expected[i]
        if f is None:
            out.append((key, False, "no longer fails"))
        else:
            out.append((f.key, True, f.detail[:300]))
    return out


def probe_program():
    """program-level findings of the proof (PV.C14.program_value_lazy_cex / _env_clash_cex), replayed
    on the real mapper + gcc + evaluator"""
    from pymbolic.mapper.c_code import CCodeMapper
    from pymbolic.mapper.evaluator import EvaluationMapper
    x, y = p.Variable("x"), p.Variable("y")
    cases = [
        ("prog-hoisted-out-of-lazy-context",
         p.If(p.Comparison(y, "!=", 0), p.CommonSubexpression(p.FloorDiv(x, y)), 0), {"x": 7, "y": 0}),
        ("prog-generated-name-clashes-with-variable",
         p.Product((p.CommonSubexpression(p.Sum((x, 1))), p.Variable("_cse0"))), {"x": 1, "_cse0": 5}),
    ]
    out = []
    for key, e, env in cases:
        try:
            m = CCodeMapper()
            text = m(e)
            want = EvaluationMapper(env)(e)
            r = compile_units([make_unit("int", sorted(env.items()), m.cse_name_list, [text])])[0]
        except Exception as ex:  # the mapper refusing the input would be a repair
            out.append((key, False, f"no longer reproducible: {ex!r}"))
            continue
        if r[0] == "harness":
            continue                      # no compiler: nothing can be said
        ok = r[0] == "ok" and len(r[1]) == 1 and r[1][0][0] == "i" and int(r[1][0][1]) == int(want)
        out.append((key, not ok, f"{e!r} at {env}: evaluator {want}, C program "
                                 f"`{'; '.join(n + ' = ' + t for n, t in m.cse_name_list)}; {text}` gives {r[:2]!r}"[:400]))
    return out


PROP = Prop(
    id="C14",
    title="Generated C code computes what the evaluator computes",
    lean_targets=["PV.Properties.C14", "PV.Properties.C14Table", "PV.Properties.C14Prog",
                  "PV.Properties.C14Bodies"],
    extractors=[extract],
    streams=[CStream(), TableStream(), ProgStream(), BodiesStream()],
    probes=[probe, probe_program],
    trusted_base=["Lean 4.33 kernel; axioms propext, Classical.choice, Quot.sound only",
                  "gcc and the machine's floating point (runtime part: values are compared per run)",
                  "the C reading `denC` of the printed structure is tied to gcc by correspondence",
                  "extract/prec.py (precedence constants read from the live modules)",
                  "extract/ccode.py: the reader of the handler source text of CCodeMapper and its "
                  "base classes (inspect + ast) and the meaning lean/PV/Model/CCodeTable.lean gives "
                  "to the table language (both exercised by the ccode-table stream against the real "
                  "mapper); Python-level primitives of the interpreter (attribute access, str() of "
                  "constants, list.sort, the overloaded operators) are hand-written"],
    assumptions=["C programs are compiled with gcc -O0; `long long` variables for integer "
                 "environments, `double` for floating-point ones; values small enough not to overflow",
                 "`min(a, b)` / `max(a, b)` printed for two-operand Min / Max are supplied to the C "
                 "program as the usual macros"],
    level="proof",
    level_text="Lean theorems about the model of CCodeMapper: for all histories of calls on one "
               "mapper the hoisted names are pairwise distinct, every wrapped child is assigned "
               "exactly once, and every name used in an assignment or a returned text is assigned "
               "earlier (false after copy(): witnesses); on the C-expressible integer fragment "
               "(arithmetic, comparisons, ?:, &&, ||, !, bitwise operators, shifts, two-operand "
               "min/max) without the mis-parenthesised shapes, C's grammar groups the emitted text "
               "as the tree and the C value equals the evaluator's (True/False as 1/0); with "
               "CommonSubexpression wrappers anywhere (cFragCse) the PROGRAM — the hoisted "
               "assignments executed in order, then the expression — computes the evaluator's value, "
               "for every expression of every history of calls on one mapper under the whole "
               "accumulated assignment list (program_value_partial, history_value_partial; "
               "hypotheses: every hoisted subexpression has a value, the environment declares no "
               "generated name, no copy(): witnesses). A mapper made with copy(cse_name_list=[]) is a "
               "fresh mapper with the parent's settings, so all single-mapper theorems hold for every "
               "such body whatever the parent hoisted (body_names_unique, body_assigned_once, "
               "body_assigned_before_use); for all histories with explicit lists (a prefix of some "
               "mapper's list plus caller-provided pairs) every mapper only knows names its own list "
               "assigns (bodies_assigned_before_use; copyList_eq_table_current ties it to the source). Text, "
               "allocator state, the C reading (vs gcc) and the reference meaning (vs the real "
               "evaluator) are tied by correspondence; floating point and gcc itself are runtime "
               "checks. The hand-written model is proved equal (ccodeE_eq_table_current, "
               "runOps_eq_table_current: all expressions, allocator states, precedences, histories) to "
               "a table interpreter run on the handler table REGENERATED on every run from the source "
               "text of CCodeMapper / SimplifyingSortingStringifyMapper / StringifyMapper (recursion "
               "sites and their precedences, format strings, own precedences, forced parentheses, the "
               "sorted sum, map_power's cases, the allocator protocol and name generators, __init__ / "
               "copy / copy_with_mapped_cses).",
    level_note="Partial: gcc and floating point are runtime (oracle: programs compiled and run); the "
               "value theorem covers the integer fragment cFrag under the property's guards (floor "
               "division / remainder / shifts / bitwise on non-negative operands); pow(...) is opaque "
               "text; copy() breaks name uniqueness (known finding with witness). Trusted: Lean "
               "kernel; C99 operator grammar as modelled (ten levels); the reader extract/ccode.py.",
    technique="Lean 4 invariant proofs over allocator histories + C-grammar reading of the emitted text "
              "(value theorem on the integer fragment) + regenerated handler table with "
              "interpreter-equals-model theorems + differential correspondence and gcc oracle",
    design_ref="DESIGN.md §4 C14",
)
