"""C20 — statement-stream utilities keep programs well-formed.

Streams (model = lean/PV/Model/Imperative.lean through the driver ops `imp-*`):
  namegen       pytools.UniqueNameGenerator naming scheme (the parameter of the fusion theorems)
  fuse          fuse_statement_streams_with_unique_ids, repeated (already fused streams fused again)
  reads-writes  get_read_variables / get_written_variables of single statements
  disambiguate  disambiguate_identifiers and disambiguate_and_fuse with filters
  dot           get_dot_dependency_graph: edges parsed from the returned text
  dot-text      get_dot_dependency_graph with caller-supplied stringifier and hooks: every line
  dot-families / dot-text-families
                the two dot streams on directed graph families: chains of 3..33 edges with shortcuts
                of every span, layered DAGs, diamonds on chains, ladders, each listed in dependency
                order, consumers first, interleaved and shuffled, also after (repeated) fusion;
                thorough tier: every DAG on <= 5 statements in every listing order
  derived-statements
                histories on long-lived statement objects (driver op `imp-hist`): the streams the
                utilities RETURN are kept in registers and used again — disambiguated /
                fused / fused with themselves / sent through map_expressions / copied with one
                field replaced / asked for their sets in between or only at the end; identifiers
                that occur at ONE position only (condition / rhs / lhs index / target) and clash.
                Every returned statement must report the reads / writes of the fields it holds
                now (`judge_rw`, keys `derived-*`); every step is judged by the oracle of the
                stream that owns the operation, on the real objects earlier steps returned.
                The same check on returned statements is part of the `fuse` and `disambiguate`
                oracles (`judge_derived`).

T-gen (extract/imperative.py): the bodies of the five functions and of the statement-class methods
are re-read from the source on every run (lean/PV/Generated/Imperative.lean) and the model is
proved to be the table interpreter on that table (lean/PV/Properties/C20Table.lean).

Oracles are written from the property text: distinctness / prefix / renaming / dependency
remapping checked directly on the returned objects; read and written sets against an independent
dataclass-field scan of lhs, rhs and condition; disambiguation against an independent renaming
through the S-expression form; the drawn edges against a reachability-based transitive reduction.
"""
from __future__ import annotations

import itertools
import re
import warnings

import pymbolic.primitives as p

from ..core import Failure, Prop, Stream
from ..gen import ExprGen
from ..oracles import scan
from ..sexp import A, Atom, dumps, expr_to_sx, loads, q, sx_children, sx_shrinks, sx_to_expr

warnings.filterwarnings("ignore", category=DeprecationWarning)

NAME_RE = re.compile(r"^[A-Za-z_][A-Za-z0-9_]*$")


# {{{ statements <-> payloads

class Raw(str):
    """an expression already in S-expression text form"""


def S(k, id, deps=(), lhs=None, rhs=None, cond=None):
    """payload form of a statement; expressions are S-expression strings"""
    d = {"k": k, "id": id, "deps": sorted(set(deps))}

    def ser(e):
        return str(e) if isinstance(e, Raw) else dumps(expr_to_sx(e))
    if k != "nop":
        d["lhs"] = ser(lhs)
        d["rhs"] = ser(rhs)
    if k == "casg":
        d["cond"] = ser(cond)
    return d


def mk_stmt(d):
    from pymbolic.imperative.statement import Assignment, ConditionalAssignment, Nop
    if d["k"] == "nop":
        return Nop(id=d["id"], depends_on=list(d["deps"]))
    lhs = sx_to_expr(loads(d["lhs"]))
    rhs = sx_to_expr(loads(d["rhs"]))
    if d["k"] == "asg":
        return Assignment(lhs=lhs, rhs=rhs, id=d["id"], depends_on=list(d["deps"]))
    return ConditionalAssignment(lhs=lhs, rhs=rhs, condition=sx_to_expr(loads(d["cond"])),
                                 id=d["id"], depends_on=list(d["deps"]))


def mk_stream(ds):
    return [mk_stmt(d) for d in ds]


def strs_req(xs):
    return "(" + " ".join(q(x) for x in xs) + ")"


def stmt_req(d):
    head = f"{d['k']} {q(d['id'])} {strs_req(d['deps'])}"
    if d["k"] == "nop":
        return f"({head})"
    if d["k"] == "asg":
        return f"({head} {d['lhs']} {d['rhs']})"
    return f"({head} {d['lhs']} {d['rhs']} {d['cond']})"


def stream_req(ds):
    return "(" + " ".join(stmt_req(d) for d in ds) + ")"


def stmt_out(s):
    """canonical rendering of a REAL statement object (same format as the requests)"""
    from pymbolic.imperative.statement import Assignment, ConditionalAssignment, Nop
    deps = strs_req(sorted(s.depends_on))
    if type(s) is Nop:
        return f"(nop {q(s.id)} {deps})"
    if type(s) is Assignment:
        return f"(asg {q(s.id)} {deps} {dumps(expr_to_sx(s.lhs))} {dumps(expr_to_sx(s.rhs))})"
    if type(s) is ConditionalAssignment:
        return (f"(casg {q(s.id)} {deps} {dumps(expr_to_sx(s.lhs))} {dumps(expr_to_sx(s.rhs))} "
                f"{dumps(expr_to_sx(s.condition))})")
    raise TypeError(type(s))


def stream_out(ss):
    return "(" + " ".join(stmt_out(s) for s in ss) + ")"


def sstr(x):
    """str() of a statement; some node kinds have no printer (not this property's business)"""
    try:
        return str(x)
    except RecursionError:
        raise
    except Exception:
        return "<unprintable>"


def pairs_out(items):
    return "(" + " ".join(f"({q(a)} {q(b)})" for a, b in items) + ")"


def err_out(ex):
    from pymbolic.mapper import UnsupportedExpressionError
    if isinstance(ex, KeyError):
        return "(err KeyError)"
    if isinstance(ex, (UnsupportedExpressionError, NotImplementedError)):
        return "(err Unsupported)"
    if isinstance(ex, ValueError) and "foreign" in str(ex):
        return "(err Foreign)"
    if isinstance(ex, ValueError):
        return "(err ValueError)"
    if isinstance(ex, TypeError):
        return "(err TypeError)"
    if isinstance(ex, AssertionError):
        return "(err AssertionError)"
    if isinstance(ex, AttributeError):
        return "(err AttributeError)"
    return f"(err {type(ex).__name__})"


def set_out(thunk):
    try:
        return strs_req(sorted(thunk()))
    except RecursionError:
        raise
    except Exception as ex:
        return err_out(ex)

# }}}


# {{{ independent scans (no mapper code)

def scan_vars(e):
    """names of the variables an expression mentions, found by dataclass-field iteration; the
    function position of a call names a function, not a variable that is read"""
    out = set()
    if isinstance(e, p.Variable):
        out.add(e.name)
        return out
    if isinstance(e, (p.Call, p.CallWithKwargs)):
        kids = list(e.parameters)
        if isinstance(e, p.CallWithKwargs):
            kids += list(e.kw_parameters.values())
    else:
        kids = scan.children(e)
    for c in kids:
        out |= scan_vars(c)
    return out


def lhs_parts(lhs):
    """(written name, index expression or None) of a left-hand side: a variable or a subscripted
    variable; None for anything else"""
    if isinstance(lhs, p.Variable):
        return lhs.name, None
    if isinstance(lhs, p.Subscript) and isinstance(lhs.aggregate, p.Variable):
        return lhs.aggregate.name, lhs.index
    return None


def want_rw_exprs(k, lhs, rhs, cond):
    """(reads, writes, index-only names) of a statement of kind `k` with the given left-hand side,
    right-hand side and condition (expressions) by the independent scan, or None when the
    left-hand side is outside the property's quantifier"""
    if k == "nop":
        return set(), set(), set()
    parts = lhs_parts(lhs)
    if parts is None:
        return None
    name, index = parts
    main = scan_vars(rhs)
    if k == "casg":
        main |= scan_vars(cond)
    idx = scan_vars(index) if index is not None else set()
    return main | idx, {name}, idx - main


def want_reads_writes(d):
    """`want_rw_exprs` of a payload statement"""
    if d["k"] == "nop":
        return set(), set(), set()
    return want_rw_exprs(d["k"], sx_to_expr(loads(d["lhs"])), sx_to_expr(loads(d["rhs"])),
                         sx_to_expr(loads(d["cond"])) if d["k"] == "casg" else None)


def stmt_kind(s):
    from pymbolic.imperative.statement import Assignment, ConditionalAssignment, Nop
    return {Nop: "nop", Assignment: "asg", ConditionalAssignment: "casg"}.get(type(s))


def judge_rw(s, payload, prefix="", where=""):
    """the property's read / written clause for ONE real statement object `s`: the sets it REPORTS
    against the independent scan of the left-hand side, right-hand side and condition it HOLDS
    NOW (its current attributes).  None, or a Failure; statements outside the quantifier (other
    left-hand sides, node kinds the mappers do not take) are not judged.  `prefix` tells the
    statements that came out of a utility (`derived-…`) from freshly constructed ones."""
    k = stmt_kind(s)
    if k is None:
        return None
    if k == "nop":
        want, fields = (set(), set(), set()), ()
    else:
        fields = (s.lhs, s.rhs) + ((s.condition,) if k == "casg" else ())
        want = want_rw_exprs(k, s.lhs, s.rhs, s.condition if k == "casg" else None)
    if want is None or not all(in_fragment(e) for e in fields):
        return None
    reads, writes, idx_only = want
    try:
        got_r, got_w = set(s.get_read_variables()), set(s.get_written_variables())
    except RecursionError:
        raise
    except Exception as ex:
        return Failure(prefix + "reads-writes-raise", where + repr(ex), payload)
    if got_w != writes:
        return Failure(prefix + "written-set-differs",
                       f"{where}{sstr(s)}: reports {sorted(got_w)}, scan finds {sorted(writes)}", payload)
    if got_r != reads:
        # a subscripted target `a[i] <- …` may also be said to read `a`: tolerated
        if got_r - reads <= writes and reads <= got_r and lhs_parts(s.lhs)[1] is not None:
            return None
        missing = reads - got_r
        if missing and missing <= idx_only and got_r <= reads:
            return Failure("assignment-reads-ignore-lhs",
                           f"{where}{sstr(s)}: reports reads {sorted(got_r)}, the scan of lhs/rhs/condition "
                           f"finds {sorted(reads)} ({sorted(missing)} occur only in the lhs index)", payload)
        return Failure(prefix + "read-set-differs",
                       f"{where}{sstr(s)}: reports {sorted(got_r)}, scan finds {sorted(reads)}", payload)
    return None


KNOWN_KEYS = ("assignment-reads-ignore-lhs", "disambiguate-misses-lhs-only-identifier",
              "disambiguate-fresh-name-hits-lhs-only-identifier")


def judge_derived(stream, payload, where, only_new=True):
    """`judge_rw` for every statement of a stream that came out of a utility, and the identifier
    set the stream reports (`get_all_used_identifiers`) against the scan.  With `only_new` the
    recorded finding (names that occur only in a left-hand-side index) is left to the stream
    that owns it."""
    from pymbolic.imperative.analysis import get_all_used_identifiers
    first_known = None
    allv, hidden, judged = set(), set(), True
    for pos, s in enumerate(stream):
        f = judge_rw(s, payload, "derived-", f"{where}, statement {pos} [{s.id}]: ")
        if f is not None:
            if f.key not in KNOWN_KEYS:
                return f
            first_known = first_known or f
        k = stmt_kind(s)
        w = None if k is None else want_rw_exprs(
            k, getattr(s, "lhs", None), getattr(s, "rhs", None), getattr(s, "condition", None))
        if w is None or (k != "nop" and not all(
                in_fragment(e) for e in (s.lhs, s.rhs) + ((s.condition,) if k == "casg" else ()))):
            judged = False
            continue
        allv |= w[0] | w[1]
        hidden |= w[2]
    if judged:
        try:
            got = set(get_all_used_identifiers(stream))
        except RecursionError:
            raise
        except Exception as ex:
            return Failure("derived-used-identifiers-raise", where + ": " + repr(ex), payload)
        # names that occur only in left-hand-side indices may be missing (recorded finding)
        if not (allv - hidden <= got <= allv):
            return Failure("derived-used-identifiers-differ",
                           f"{where}: get_all_used_identifiers reports {sorted(got)}, the scan of the "
                           f"statements finds {sorted(allv)}", payload)
    return None if only_new else first_known


def stream_idents(ds):
    """(all identifiers, identifiers visible outside left-hand-side indices) of a payload stream"""
    allv, vis = set(), set()
    for d in ds:
        w = want_reads_writes(d)
        if w is None:
            return None
        reads, writes, idx_only = w
        allv |= reads | writes
        vis |= (reads - idx_only) | writes
    return allv, vis


def rename_sx(s, ren):
    """independent renaming of every variable leaf in an expression S-expression"""
    if isinstance(s, list):
        if len(s) == 2 and s[0] == "Var" and isinstance(s[0], Atom):
            return [s[0], ren.get(s[1], s[1])]
        return [rename_sx(c, ren) for c in s]
    return s


def has_zero_cse(e):
    return any(isinstance(s, p.CommonSubexpression) and p.is_zero(s.child)
               for s in scan.subterms(e) if isinstance(s, p.Expression))


def in_fragment_sx(s, under_slice=False):
    if isinstance(s, Atom):
        return under_slice if s == "nil" else True
    if s[0] in ("Str", "List", "Substitution", "Derivative"):
        return False
    return all(in_fragment_sx(c, s[0] == "Slice") for _path, c in sx_children(s))


def in_fragment(e):
    """expression kinds the dependency and substitution mappers both accept (no strings, lists,
    None outside slices, Substitution/Derivative nodes)"""
    return in_fragment_sx(expr_to_sx(e))

# }}}


# {{{ generators

IDS = ["s", "s_0", "s_1", "t"]


def id_streams():
    """all streams of at most two no-op/assignment statements with distinct ids from IDS and every
    dependency pattern among them (acyclic), as payloads"""
    x = p.Variable("x")
    out = [[]]
    for i in IDS:
        out.append([S("nop", i)])
    for i, j in itertools.permutations(IDS, 2):
        for di, dj in (((), ()), ((), (i,)), ((j,), ())):
            out.append([S("asg", i, di, x, 1), S("nop", j, dj)])
    return out


def templates():
    a, x, y, x0 = (p.Variable(n) for n in ("a", "x", "y", "x_0"))
    lt = p.Comparison(x, "<", 1)
    return [
        ("asg", a, x, None),
        ("asg", p.Subscript(a, x), y, None),
        ("asg", x, 1, None),
        ("asg", p.Subscript(y, x0), x, None),
        ("casg", a, y, lt),
        ("nop", None, None, None),
        ("asg", x0, p.Subscript(a, y), None),
        ("casg", p.Subscript(a, y), 1, True),
    ]


def template_streams(prefix):
    ts = templates()
    out = []
    for k, l, r, c in ts:
        out.append([S(k, prefix, (), l, r, c)])
    for (k1, l1, r1, c1), (k2, l2, r2, c2) in itertools.product(ts, ts):
        out.append([S(k1, prefix, (), l1, r1, c1), S(k2, prefix + "_0", (prefix,), l2, r2, c2)])
    return out


SUFFIXES = ["", "", "", "_0", "_1", "_01", "_0_0"]


def rename_all(sx_text, ren):
    return dumps(rename_sx(loads(sx_text), ren))


def rand_stream(rng, n, g, idpool, pool_ren=None, dangling=0.0, bad_lhs=0.0, depth=3):
    """a random stream: ids drawn without repetition from idpool, acyclic dependencies (each
    statement may depend on any statement placed earlier in a random topological order)"""
    ids = rng.sample(idpool, n)
    topo = list(ids)
    rng.shuffle(topo)
    rank = {i: k for k, i in enumerate(topo)}
    out = []
    for i in ids:
        cands = [j for j in ids if rank[j] < rank[i]]
        deps = [j for j in cands if rng.random() < 0.4]
        if rng.random() < dangling:
            deps.append(rng.choice(["zz", "s", "q_1"]))
        k = rng.choice(["asg", "asg", "asg", "casg", "casg", "nop"])
        if k == "nop":
            out.append(S("nop", i, deps))
            continue
        name = p.Variable(rng.choice(["x", "y", "a", "t", "i", "b"]))
        r = rng.random()
        if r < bad_lhs:
            lhs = rng.choice([p.Sum((name, 1)), p.Subscript(p.Subscript(name, 0), 1),
                              p.Lookup(name, "u"), 3, p.Call(name, (1,))])
        elif r < 0.5:
            lhs = name
        else:
            lhs = p.Subscript(name, g.gen(rng.choice(["int", "small", "num"]), rng.randint(0, 2)))
        rhs = g.gen(rng.choice(["num", "num", "int", "any", "bool"]), rng.randint(0, depth))
        cond = None
        if k == "casg":
            cond = True if rng.random() < 0.3 else g.gen("bool", rng.randint(0, 2))
        d = S(k, i, deps, lhs, rhs, cond)
        if pool_ren:
            for f in ("lhs", "rhs", "cond"):
                if f in d:
                    d[f] = rename_all(d[f], pool_ren)
        out.append(d)
    return out


def rand_renaming(rng):
    names = ["x", "y", "z", "i", "j", "n", "m", "b", "c", "t", "a", "r"]
    return {n: n + rng.choice(SUFFIXES) for n in names}


IDPOOL = ["s", "s_0", "s_1", "s_2", "s_01", "t", "t_0", "u", "u_9", "insn", "insn_0", "a_b_1", "_0",
          "s__0"]

# }}}


# {{{ stream: name generator

class GenStream(Stream):
    """pytools.UniqueNameGenerator(existing)(b1), (b2), … — the naming scheme the model mirrors"""
    name = "namegen"
    NAMES = ["a", "a_0", "a_1", "a_2", "a_00", "a_01", "a_1_2", "a_1_0", "b", "a__1", "_1", "a_",
             "x_10", "a_9", "a_10", "_", "__0", "a0", "a_0x", "A_0", "a_007", "a.b_1", "x y_3", "a_7",
             "a_99999999999999999999", "0_0", "a_1_"]

    def cases(self, rng, tier):
        n = 1500 if tier == "quick" else 30000
        for ex in ([], ["a"], ["a", "a_0"], ["a_0"], ["a", "a_1"]):
            for b1 in self.NAMES:
                for b2 in ("a", "a_0", "a_1", b1):
                    yield {"existing": ex, "based": [b1, b2, b1]}
        for _ in range(n):
            ex = rng.sample(self.NAMES, rng.randint(0, 6))
            based = [rng.choice(self.NAMES) for _ in range(rng.randint(1, 6))]
            yield {"existing": ex, "based": based}

    def request(self, pl):
        return f"(imp-gen {strs_req(pl['existing'])} {strs_req(pl['based'])})"

    def _run(self, pl):
        from pytools import UniqueNameGenerator
        g = UniqueNameGenerator(set(pl["existing"]))
        return [g(b) for b in pl["based"]]

    def run_impl(self, pl):
        return strs_req(self._run(pl))

    def oracle(self, pl):
        used = set(pl["existing"])
        for b, n in zip(pl["based"], self._run(pl)):
            if n in used:
                return Failure("namegen-not-fresh", f"{n!r} generated for {b!r} but already used", pl)
            used.add(n)
        return None

    def shrink(self, pl):
        for i in range(len(pl["based"])):
            yield {**pl, "based": pl["based"][:i] + pl["based"][i + 1:]}
        for i in range(len(pl["existing"])):
            yield {**pl, "existing": pl["existing"][:i] + pl["existing"][i + 1:]}

# }}}


# {{{ stream: fusion

def check_fuse_step(a, b, fused, mapping):
    """the property's statement for ONE fusion step, on real objects; None or (key, detail)"""
    ids = [s.id for s in fused]
    if len(set(ids)) != len(ids):
        return "fuse-ids-not-distinct", f"ids {ids}"
    if len(fused) != len(a) + len(b):
        return "fuse-length", f"{len(fused)} statements from {len(a)} + {len(b)}"
    for s, t in zip(a, fused):
        if stmt_out(s) != stmt_out(t) or sstr(s) != sstr(t):
            return "fuse-prefix-changed", f"{stmt_out(s)} became {stmt_out(t)}"
    tail = fused[len(a):]
    if set(mapping) != {s.id for s in b}:
        return "fuse-mapping-keys", f"mapping {mapping} for ids {[s.id for s in b]}"
    for s, t in zip(b, tail):
        if t.id != mapping[s.id]:
            return "fuse-second-not-renamed", f"{s.id} -> {t.id}, mapping says {mapping[s.id]}"
        if type(s) is not type(t) or sstr(s) != sstr(t) or \
                stmt_out(s.copy(id="i", depends_on=frozenset())) != \
                stmt_out(t.copy(id="i", depends_on=frozenset())):
            return "fuse-second-changed", f"{stmt_out(s)} became {stmt_out(t)}"
    by_id = {s.id: t for s, t in zip(b, tail)}
    for s, t in zip(b, tail):
        want = {by_id[dep].id for dep in s.depends_on}
        if set(t.depends_on) != want or len(t.depends_on) != len(s.depends_on):
            return ("fuse-deps-not-remapped",
                    f"{s.id} depends on {sorted(s.depends_on)}; renamed {t.id} depends on "
                    f"{sorted(t.depends_on)}, expected {sorted(want)}")
    return None


class FuseStream(Stream):
    name = "fuse"

    def cases(self, rng, tier):
        small = id_streams()
        for a in small:
            for b in small:
                yield {"streams": [a, b]}
        pairs = [(a, b) for a in small for b in small]
        reps = pairs if tier != "quick" else rng.sample(pairs, 700)
        for a, b in reps:
            yield {"streams": [a, b, a]}
            yield {"streams": [a, b, b]}
            yield {"streams": [a, b, b, a]}
        n = 600 if tier == "quick" else 12000
        g = ExprGen(rng, malformed=0.0, floats=0.0, lists=False, foreign=False, cse=0.05,
                    extra_nodes=False)
        for i in range(n):
            k = rng.randint(2, 4)
            streams = [rand_stream(rng, rng.randint(0, 6), g, IDPOOL,
                                   dangling=0.04 if i % 5 == 0 else 0.0, depth=2)
                       for _ in range(k)]
            if rng.random() < 0.4:
                streams.append(streams[rng.randrange(len(streams))])
            yield {"streams": streams}
        # duplicate ids inside one stream (outside the quantifier; model and code still agree)
        for i in range(40):
            a = rand_stream(rng, 3, g, IDPOOL, depth=1)
            b = rand_stream(rng, 3, g, IDPOOL, depth=1)
            b[2] = {**b[2], "id": b[0]["id"], "deps": []}
            yield {"streams": [a, b, b]}

    def request(self, pl):
        return "(imp-fuse " + " ".join(stream_req(s) for s in pl["streams"]) + ")"

    def _steps(self, pl):
        """[(a objects, b objects, fused or exception, mapping)] for every step"""
        from pymbolic.imperative.transform import fuse_statement_streams_with_unique_ids
        acc = mk_stream(pl["streams"][0])
        res = []
        for ds in pl["streams"][1:]:
            b = mk_stream(ds)
            try:
                fused, mapping = fuse_statement_streams_with_unique_ids(acc, b)
            except RecursionError:
                raise
            except Exception as ex:
                res.append((acc, b, ex, None))
                break
            res.append((acc, b, fused, mapping))
            acc = fused
        return res

    def run_impl(self, pl):
        steps = self._steps(pl)
        maps = [pairs_out(sorted(m.items())) for _, _, _, m in steps if m is not None]
        last = steps[-1][2] if steps else mk_stream(pl["streams"][0])
        head = err_out(last) if isinstance(last, Exception) else stream_out(last)
        return "(" + " ".join([head] + maps) + ")"

    def oracle(self, pl):
        last = None
        for a, b, fused, mapping in self._steps(pl):
            ids_a, ids_b = [s.id for s in a], [s.id for s in b]
            if len(set(ids_a)) != len(ids_a) or len(set(ids_b)) != len(ids_b):
                return None            # ids are distinct within each input stream (hypothesis)
            if any(dep not in ids_b for s in b for dep in s.depends_on):
                return None            # a dependency that names no statement of its stream
            if isinstance(fused, Exception):
                return Failure("fuse-raises", repr(fused), pl)
            bad = check_fuse_step(a, b, fused, mapping)
            if bad is not None:
                return Failure(bad[0], bad[1], pl)
            last = fused
        # the fused statements report the reads / writes of the fields they hold
        return judge_derived(last, pl, "fused stream") if last is not None else None

    def shrink(self, pl):
        st = pl["streams"]
        if len(st) > 2:
            for i in range(len(st)):
                yield {"streams": st[:i] + st[i + 1:]}
        for i, s in enumerate(st):
            for j in range(len(s)):
                gone = s[j]["id"]
                s2 = [{**d, "deps": [x for x in d["deps"] if x != gone]} for d in s[:j] + s[j + 1:]]
                yield {"streams": st[:i] + [s2] + st[i + 1:]}

    def nontrivial_key(self, pl, model, impl):
        return self.request(pl) if sum(len(s) for s in pl["streams"][1:]) > 0 else None

    def stats(self, pl, mo, io, acc):
        k = "error" if io.startswith("((err") else "fused"
        acc[k] = acc.get(k, 0) + 1
        acc["max_streams"] = max(acc.get("max_streams", 0), len(pl["streams"]))
        if k == "fused" and any(a != b for m in loads(io)[1:] for a, b in m):
            acc["with_renamed_ids"] = acc.get("with_renamed_ids", 0) + 1

# }}}


# {{{ stream: read / written variables

class RWStream(Stream):
    name = "reads-writes"

    def cases(self, rng, tier):
        a, b, x, y, f = (p.Variable(n) for n in "abxyf")
        lhss = [a, p.Subscript(a, x), p.Subscript(a, p.Sum((x, y))), p.Subscript(a, 1),
                p.Subscript(b, a), p.Subscript(a, p.Call(f, (x,))), p.Subscript(a, (x, y))]
        rhss = [1, x, y, p.Sum((y, 1)), p.Call(f, (y,)), p.Subscript(b, y), p.Product((a, x)),
                p.If(p.Comparison(x, "<", 1), y, 2), p.Lookup(b, "u"), f,
                p.CallWithKwargs(f, (a,), {"k": y})]
        conds = [None, True, p.Comparison(x, "<", 1), p.Comparison(b, "==", y), p.LogicalNot(a)]
        yield S("nop", "n", ["m"])
        for l in lhss:
            for r in rhss:
                for c in conds:
                    yield S("asg" if c is None else "casg", "i", (), l, r, c)
        # left-hand sides outside the quantifier: error kinds must agree
        for l in (p.Sum((a, x)), p.Subscript(p.Subscript(a, x), y), 3, p.Lookup(a, "u"),
                  p.Call(f, (x,)), p.Subscript(p.Call(f, (x,)), y)):
            yield S("asg", "i", (), l, x)
            yield S("casg", "i", (), l, x, p.Comparison(y, "<", 1))
        n = 1500 if tier == "quick" else 30000
        g = ExprGen(rng, malformed=0.0, floats=0.0, lists=False, foreign=False, cse=0.08,
                    extra_nodes=False)
        gx = ExprGen(rng, malformed=0.02, floats=0.0, lists=False, foreign=True, cse=0.08)
        for i in range(n):
            gg = gx if i % 6 == 0 else g
            ren = rand_renaming(rng) if i % 2 else None
            yield rand_stream(rng, 1, gg, IDPOOL, ren, bad_lhs=0.05, depth=4)[0]

    def request(self, pl):
        return f"(imp-rw {stmt_req(pl)})"

    def run_impl(self, pl):
        s = mk_stmt(pl)
        return f"({set_out(s.get_read_variables)} {set_out(s.get_written_variables)})"

    def oracle(self, pl):
        want = want_reads_writes(pl)
        if want is None:
            return None
        for f in ("lhs", "rhs", "cond"):
            if f in pl and not in_fragment(sx_to_expr(loads(pl[f]))):
                return None
        return judge_rw(mk_stmt(pl), pl)

    def shrink(self, pl):
        if pl["k"] == "casg":
            yield {k: v for k, v in {**pl, "k": "asg"}.items() if k != "cond"}
        for f in ("lhs", "rhs", "cond"):
            if f in pl:
                for s in sx_shrinks(loads(pl[f])):
                    yield {**pl, f: dumps(s)}

    def nontrivial_key(self, pl, model, impl):
        return stmt_req(pl) if pl["k"] != "nop" else None

    def stats(self, pl, mo, io, acc):
        k = "error" if "(err" in io else "sets"
        acc[k] = acc.get(k, 0) + 1
        acc[pl["k"]] = acc.get(pl["k"], 0) + 1

# }}}


# {{{ stream: disambiguation

FILTERS = [
    {"default": True, "except": []},
    {"default": True, "except": ["x"]},
    {"default": False, "except": ["x", "a"]},
    {"default": False, "except": []},
]


def make_filter(f):
    ex = set(f["except"])
    return lambda name: (not f["default"]) if name in ex else f["default"]


def disamb_in_quantifier(pl):
    """(identifier sets of the first, of the second stream) of a disambiguation case
    {"a", "b", "filter", "fuse"} by the independent scan, or None when the case lies outside the
    property's quantifier"""
    ia, ib = stream_idents(pl["a"]), stream_idents(pl["b"])
    if ia is None or ib is None:
        return None
    exprs = [sx_to_expr(loads(d[f])) for d in pl["a"] + pl["b"] for f in ("lhs", "rhs", "cond")
             if f in d]
    if not all(in_fragment(e) for e in exprs) or any(has_zero_cse(e) for e in exprs):
        return None
    ids_b = [d["id"] for d in pl["b"]]
    if pl["fuse"] and any(dep not in ids_b for d in pl["b"] for dep in d["deps"]):
        return None
    return ia, ib


def judge_disamb(pl, idents, a, b, res, subst, idmap, payload):
    """the property's disambiguation clauses for ONE call on the real objects `a`, `b` (whose
    payload forms are pl["a"], pl["b"]) that returned `res`, `subst` (and `idmap` when fused)"""
    ia, ib = idents
    ids_a, ids_b = [d["id"] for d in pl["a"]], [d["id"] for d in pl["b"]]
    flt = make_filter(pl["filter"])
    all_a, vis_a = ia
    all_b, vis_b = ib
    hidden = (all_a - vis_a) | (all_b - vis_b)      # names that occur only in lhs indices
    ren = {}
    for k, v in subst.items():
        if not isinstance(v, p.Variable):
            return Failure("disambiguate-not-a-renaming", f"{k} -> {v!r}", payload)
        ren[k] = v.name
    want_keys = {n for n in all_a & all_b if flt(n)}

    def classify(default_key, detail):
        # the two recorded defects: a clash the code does not see because one side mentions
        # the name only in a left-hand-side index; a fresh name that collides with such a name
        lost = want_keys - set(ren)
        if set(ren) <= want_keys and lost and all(n not in vis_a or n not in vis_b for n in lost):
            return Failure("disambiguate-misses-lhs-only-identifier", detail, payload)
        if set(ren) <= want_keys and any(v in hidden for v in ren.values()):
            return Failure("disambiguate-fresh-name-hits-lhs-only-identifier", detail, payload)
        return Failure(default_key, detail, payload)

    if set(ren) != want_keys:
        return classify("disambiguate-renames-wrong-set",
                        f"renamed {sorted(ren)}, clashing identifiers that pass the filter: "
                        f"{sorted(want_keys)}")
    fresh = list(ren.values())
    if len(set(fresh)) != len(fresh) or any(v in all_a | all_b for v in fresh):
        return classify("disambiguate-name-not-fresh", f"renaming {ren}; identifiers in use "
                        f"{sorted(all_a | all_b)}")
    new_b = res[len(a):] if pl["fuse"] else res
    if len(new_b) != len(b):
        return Failure("disambiguate-length", f"{len(new_b)} statements from {len(b)}", payload)
    if pl["fuse"]:
        bad = check_fuse_step(a, new_b_before_fuse(b, ren), res, idmap) \
            if len(set(ids_a)) == len(ids_a) and len(set(ids_b)) == len(ids_b) else None
        if bad is not None:
            return Failure("disfuse-" + bad[0], bad[1], payload)
    for d, old, new in zip(pl["b"], b, new_b):
        want = dict(d)
        for f in ("lhs", "rhs", "cond"):
            if f in d:
                want[f] = rename_all(d[f], ren)
        if not pl["fuse"]:
            if new.id != old.id or new.depends_on != old.depends_on:
                return Failure("disambiguate-touches-ids", f"{stmt_out(old)} became {stmt_out(new)}",
                               payload)
        w = mk_stmt({**want, "id": new.id, "deps": sorted(new.depends_on)})
        if stmt_out(w) != stmt_out(new) or sstr(w) != sstr(new):
            return Failure("disambiguate-inconsistent-renaming",
                           f"{sstr(old)} became {sstr(new)}, renaming {ren} gives {sstr(w)}", payload)
    after = stream_idents([stmt_payload(s) for s in new_b])
    shared = {n for n in after[0] & all_a if flt(n)}
    if shared:
        return classify("disambiguate-still-shared", f"still shared afterwards: {sorted(shared)}")
    # the statements that come back are statements like any other: what they REPORT as read and
    # written is what a scan of the (renamed) left-hand side, right-hand side and condition finds
    return judge_derived(res, payload, "returned by disambiguate_and_fuse" if pl["fuse"]
                         else "returned by disambiguate_identifiers")


class DisambStream(Stream):
    name = "disambiguate"

    def cases(self, rng, tier):
        sa = template_streams("s")
        sb = template_streams("s")          # same ids on purpose: id clashes when fused
        k = 0
        for a in sa:
            for b in sb:
                k += 1
                fs = FILTERS if tier != "quick" else [FILTERS[k % 4]]
                if tier == "quick" and k % 2 and len(a) + len(b) == 4:
                    continue
                for f in fs:
                    yield {"a": a, "b": b, "filter": f, "fuse": k % 3 == 0}
        n = 700 if tier == "quick" else 14000
        g = ExprGen(rng, malformed=0.0, floats=0.0, lists=False, foreign=False, cse=0.04,
                    extra_nodes=False)
        gx = ExprGen(rng, malformed=0.0, floats=0.0, lists=False, foreign=False, cse=0.04)
        names = ["x", "y", "z", "i", "j", "a", "t", "b", "x_0", "y_1", "i_0"]
        for i in range(n):
            gg = gx if i % 9 == 0 else g
            a = rand_stream(rng, rng.randint(0, 5), gg, IDPOOL, rand_renaming(rng), depth=3,
                            bad_lhs=0.01)
            b = rand_stream(rng, rng.randint(0, 5), gg, IDPOOL, rand_renaming(rng), depth=3,
                            bad_lhs=0.01)
            f = {"default": rng.random() < 0.7, "except": rng.sample(names, rng.randint(0, 4))}
            yield {"a": a, "b": b, "filter": f, "fuse": i % 2 == 0}
            if i % 10 == 0:        # an already disambiguated-and-fused stream, fused once more
                yield {"a": a, "b": a, "filter": f, "fuse": True}

    def _run(self, pl):
        from pymbolic.imperative.transform import disambiguate_and_fuse, disambiguate_identifiers
        a, b = mk_stream(pl["a"]), mk_stream(pl["b"])
        flt = make_filter(pl["filter"])
        if pl["fuse"]:
            fused, subst, idmap = disambiguate_and_fuse(a, b, flt)
            return a, b, fused, subst, idmap
        new_b, subst = disambiguate_identifiers(a, b, flt)
        return a, b, new_b, subst, None

    def _order(self, pl):
        """the order in which the code iterated over the clash set = key order of its result"""
        try:
            return list(self._run(pl)[3].keys())
        except RecursionError:
            raise
        except Exception:
            return []

    def request(self, pl):
        f = pl["filter"]
        flt = f"({'true' if f['default'] else 'false'} {strs_req(f['except'])})"
        op = "imp-disfuse" if pl["fuse"] else "imp-disamb"
        return f"({op} {flt} {strs_req(self._order(pl))} {stream_req(pl['a'])} {stream_req(pl['b'])})"

    def run_impl(self, pl):
        try:
            _a, _b, res, subst, idmap = self._run(pl)
        except RecursionError:
            raise
        except Exception as ex:
            return err_out(ex)
        for v in subst.values():
            if not isinstance(v, p.Variable):
                return "(harness-error substitution value is not a variable)"
        sub = pairs_out((k, v.name) for k, v in subst.items())
        if idmap is None:
            return f"({stream_out(res)} {sub})"
        return f"({stream_out(res)} {sub} {pairs_out(sorted(idmap.items()))})"

    def oracle(self, pl):
        idents = disamb_in_quantifier(pl)
        if idents is None:
            return None
        try:
            a, b, res, subst, idmap = self._run(pl)
        except Exception as ex:
            return Failure("disambiguate-raises", repr(ex), pl)
        return judge_disamb(pl, idents, a, b, res, subst, idmap, pl)

    def shrink(self, pl):
        for side in ("a", "b"):
            s = pl[side]
            for j in range(len(s)):
                gone = s[j]["id"]
                yield {**pl, side: [{**d, "deps": [x for x in d["deps"] if x != gone]}
                                    for d in s[:j] + s[j + 1:]]}
        if pl["fuse"]:
            yield {**pl, "fuse": False}
        for side in ("a", "b"):
            for j, d in enumerate(pl[side]):
                for f in ("lhs", "rhs", "cond"):
                    if f in d:
                        for s in itertools.islice(sx_shrinks(loads(d[f])), 12):
                            nd = {**d, f: dumps(s)}
                            yield {**pl, side: pl[side][:j] + [nd] + pl[side][j + 1:]}

    def nontrivial_key(self, pl, model, impl):
        return self.request(pl) if pl["b"] else None

    def stats(self, pl, mo, io, acc):
        if io.startswith("(err"):
            acc["error"] = acc.get("error", 0) + 1
            return
        n = len(loads(io)[1])
        acc["renamings"] = acc.get("renamings", 0) + n
        if n:
            acc["cases_with_renaming"] = acc.get("cases_with_renaming", 0) + 1
        if pl["fuse"]:
            acc["and_fuse"] = acc.get("and_fuse", 0) + 1


def stmt_payload(s):
    """payload form of a real statement object"""
    from pymbolic.imperative.statement import Assignment, ConditionalAssignment, Nop
    if type(s) is Nop:
        return S("nop", s.id, s.depends_on)
    if type(s) is Assignment:
        return S("asg", s.id, s.depends_on, s.lhs, s.rhs)
    assert type(s) is ConditionalAssignment
    return S("casg", s.id, s.depends_on, s.lhs, s.rhs, s.condition)


def new_b_before_fuse(b, ren):
    """the second stream after the expected renaming (independent), as real objects"""
    out = []
    for s in b:
        d = stmt_payload(s)
        for f in ("lhs", "rhs", "cond"):
            if f in d:
                d[f] = rename_all(d[f], ren)
        out.append(mk_stmt(d))
    return out

# }}}


# {{{ stream: histories — the statements that COME OUT of the utilities are used again

# The property speaks about "a statement" and about "repeated fusion of already fused streams":
# the statements a utility returns (copies with a renamed condition, a new id, remapped
# dependencies) are statements like any other.  What they report as read / written has to describe
# the left-hand side, right-hand side and condition they hold NOW, and a later disambiguation /
# fusion that takes them as input has to see them as they are.  A history keeps the real objects
# alive in registers; every operation takes registers as input and appends what it returns:
#     disamb a b filter    disambiguate_identifiers(reg[a], reg[b], filter)        -> second stream
#     disfuse a b filter   disambiguate_and_fuse(reg[a], reg[b], filter)           -> fused stream
#     fuse a b             fuse_statement_streams_with_unique_ids(reg[a], reg[b])  -> fused stream
#     rename r ren lhs     stmt.map_expressions(substitution ren, include_lhs=lhs) for every stmt
#     copy r j field e     reg[r] with statement j replaced by stmt.copy(field=e)
#     query r              the read / written sets and str() of reg[r] are asked for (no result)
# (a == b is allowed: a stream fused with itself).

POS_TAGS = {"lhs": "_l", "rhs": "_r", "cond": "_c"}


def positional_stream(rng, n, g, idpool, excl):
    """a random stream in which, with probability `excl` per statement and position, the
    identifiers of that position (left-hand side / right-hand side / condition) are names that
    occur in no other position (position-tagged), so that a clash with another stream built the
    same way is a clash on a condition-only / rhs-only / lhs-only identifier"""
    shared = rand_renaming(rng)
    out = []
    for d in rand_stream(rng, n, g, idpool, None, depth=2):
        for f, tag in POS_TAGS.items():
            if f in d:
                ren = shared
                if rng.random() < excl:
                    ren = {k: k + tag for k in shared}
                d[f] = rename_all(d[f], ren)
        out.append(d)
    return out


def exclusive_statement(k, pos, name, other):
    """a statement of kind `k` (asg / casg) in which `name` occurs ONLY at position `pos`
    (target / index / rhs / cond); every other position uses names derived from `other`"""
    N, o1, o2, o3 = p.Variable(name), p.Variable(other), p.Variable(other + "_r"), \
        p.Variable(other + "_c")
    lhs = N if pos == "target" else p.Subscript(o1, p.Sum((N, 1))) if pos == "index" else o1
    rhs = p.Product((N, 2)) if pos == "rhs" else p.Sum((o2, 1))
    cond = None
    if k == "casg":
        cond = p.Comparison(N, "<", o3) if pos == "cond" else p.Comparison(o3, "<", 1)
    return lhs, rhs, cond


HIST_SCRIPTS = [
    # registers: 0 = first stream, 1 = second stream, 2.. = results
    [("disamb", 0, 1)],
    [("disfuse", 0, 1)],
    [("disamb", 0, 1), ("fuse", 0, 2)],
    [("disamb", 0, 1), ("disamb", 2, 1)],
    [("disamb", 0, 1), ("disamb", 0, 2)],
    [("disamb", 0, 1), ("disfuse", 1, 2)],
    [("disfuse", 0, 1), ("disfuse", 2, 2)],
    [("disfuse", 0, 1), ("disamb", 2, 2), ("disfuse", 2, 3)],
    [("fuse", 0, 1), ("disfuse", 2, 2)],
    [("query", 1), ("disamb", 0, 1), ("query", 2), ("disfuse", 0, 2)],
    [("rename", 1), ("disamb", 0, 2)],
    [("rename", 1), ("disamb", 1, 2), ("disfuse", 0, 3)],
    [("copy", 1), ("disamb", 0, 2)],
    [("disamb", 0, 1), ("copy", 2), ("disfuse", 0, 3)],
    [("disamb", 0, 1), ("rename", 2), ("disfuse", 3, 3)],
]


class DerivedStream(Stream):
    """histories of the utilities on long-lived statement objects: after every step (or, in the
    other half of the cases, only at the end, so that nothing has asked the intermediate
    statements anything) every statement of every register is judged by `judge_rw` against the
    scan of its current fields, every disambiguation / fusion step by the same oracle as the
    `disambiguate` / `fuse` streams (its inputs being statements earlier steps returned), every
    `map_expressions` step against an independent renaming.  Model side: `imp-hist` replays the
    history and lists the read / written sets of every derived statement."""
    name = "derived-statements"
    NAMES = ["x", "y", "z", "i", "j", "a", "t", "b", "x_0", "y_1", "x_c", "y_c", "a_l", "x_r"]

    # -- generation ---------------------------------------------------------------------------
    def _fill(self, rng, streams, script):
        """turn a script of (op, registers…) into full operations on the given streams (sizes of
        the registers are tracked so that `copy` can name a statement that exists)"""
        kinds = [[(d["k"], d) for d in ds] for ds in streams]
        ops = []
        for step in script:
            op = step[0]
            if op in ("disamb", "disfuse"):
                a, b = step[1], step[2]
                f = {"default": rng.random() < 0.8,
                     "except": rng.sample(self.NAMES, rng.randint(0, 2))}
                ops.append({"op": op, "a": a, "b": b, "filter": f})
                kinds.append(kinds[b] if op == "disamb" else kinds[a] + kinds[b])
            elif op == "fuse":
                ops.append({"op": "fuse", "a": step[1], "b": step[2]})
                kinds.append(kinds[step[1]] + kinds[step[2]])
            elif op == "query":
                ops.append({"op": "query", "r": step[1]})
            elif op == "rename":
                olds = rng.sample(self.NAMES, rng.randint(1, 4))
                ren = {o: rng.choice([o + "_9", o + rng.choice(SUFFIXES) + "q", "w"]) for o in olds}
                if rng.random() < 0.3:        # a swap: the substitution is simultaneous
                    x, y = rng.sample(self.NAMES, 2)
                    ren.update({x: y, y: x})
                ops.append({"op": "rename", "r": step[1], "ren": ren, "lhs": rng.random() < 0.75})
                kinds.append(kinds[step[1]])
            elif op == "copy":
                r = step[1]
                cands = [(j, f) for j, (k, _d) in enumerate(kinds[r]) if k != "nop"
                         for f in (("lhs", "rhs", "cond") if k == "casg" else ("lhs", "rhs"))]
                if not cands:
                    # nothing to replace: an empty renaming keeps the script's register numbering
                    ops.append({"op": "rename", "r": r, "ren": {}, "lhs": True})
                    kinds.append(kinds[r])
                    continue
                j, f = rng.choice(cands)
                n1, n2 = (p.Variable(n) for n in rng.sample(self.NAMES, 2))
                if f == "lhs":
                    e = rng.choice([n1, p.Subscript(n1, n2), p.Subscript(n1, p.Sum((n2, 1)))])
                elif f == "rhs":
                    e = rng.choice([n1, p.Sum((n1, n2)), p.Subscript(n1, n2), 3])
                else:
                    e = rng.choice([p.Comparison(n1, "<", n2), p.LogicalNot(n1), True,
                                    p.LogicalAnd((n1, p.Comparison(n2, ">", 0)))])
                ops.append({"op": "copy", "r": r, "j": j, "field": f, "expr": dumps(expr_to_sx(e))})
                kinds.append(kinds[r])
        return ops

    def cases(self, rng, tier):
        quick = tier == "quick"
        # (1) exhaustive small: ONE identifier that occurs at exactly one position of a statement
        # of the second stream and at one position of a statement of the first, every script
        k = 0
        for pos_b in ("cond", "rhs", "index", "target"):
            for pos_a in ("rhs", "cond", "target"):
                for kind_b in ("casg", "asg"):
                    if pos_b == "cond" and kind_b == "asg":
                        continue
                    for script in HIST_SCRIPTS:
                        k += 1
                        if quick and k % 2 and script is not HIST_SCRIPTS[0]:
                            continue
                        name = rng.choice(["n", "x", "flag", "x_0", "k_1"])
                        la, ra, ca = exclusive_statement("casg", pos_a, name, "u")
                        lb, rb, cb = exclusive_statement(kind_b, pos_b, name, "v")
                        a = [S("casg", "s", (), la, ra, ca), S("nop", "s_0", ("s",))]
                        b = [S(kind_b, "s", (), lb, rb, cb),
                             S("asg", "t", ("s",), p.Variable("v_q"), p.Sum((p.Variable("v"), 1)))]
                        streams = [a, b]
                        yield {"streams": streams, "ops": self._fill(rng, streams, script),
                               "observe": "every" if k % 4 < 2 else "end"}
        # (2) random streams with position-exclusive identifiers, scripted and random histories
        n = 600 if quick else 12000
        g = ExprGen(rng, malformed=0.0, floats=0.0, lists=False, foreign=False, cse=0.03,
                    extra_nodes=False)
        for i in range(n):
            streams = [positional_stream(rng, rng.randint(1, 4), g, IDPOOL, rng.choice([0.0, 0.5, 0.9]))
                       for _ in range(2)]
            if i % 3 == 0:
                script = rng.choice(HIST_SCRIPTS)
            else:
                script, nreg = [], 2
                for _ in range(rng.randint(1, 4 if quick else 6)):
                    op = rng.choice(["disamb", "disamb", "disfuse", "disfuse", "fuse", "rename",
                                     "copy", "query"])
                    r1 = rng.choice([nreg - 1, rng.randrange(nreg)])
                    r2 = rng.choice([nreg - 1, r1, rng.randrange(nreg)])
                    script.append((op, r1, r2) if op in ("disamb", "disfuse", "fuse") else (op, r1))
                    if op != "query":
                        nreg += 1
            yield {"streams": streams, "ops": self._fill(rng, streams, script),
                   "observe": "every" if i % 2 else "end"}

    # -- running the history on the real code -----------------------------------------------------
    MAX_STATEMENTS = 40

    def _history(self, pl, observer=None):
        """run the history; returns (registers of real objects, per-operation results); an
        operation that raises ends the history with the exception as its result.
        `observer(step, op, inputs, result)` is called after every operation (step -1: start)."""
        from pymbolic import var
        from pymbolic.imperative.transform import (
            disambiguate_and_fuse, disambiguate_identifiers, fuse_statement_streams_with_unique_ids)
        from pymbolic.mapper.substitutor import SubstitutionMapper, make_subst_func
        regs = [mk_stream(ds) for ds in pl["streams"]]
        results = []
        if observer:
            observer(-1, None, None, None, regs)
        for step, op in enumerate(pl["ops"]):
            kind = op["op"]
            try:
                if kind in ("disamb", "disfuse", "fuse"):
                    a, b = regs[op["a"]], regs[op["b"]]
                    if len(a) + len(b) > self.MAX_STATEMENTS:
                        break
                    if kind == "fuse":
                        fused, idmap = fuse_statement_streams_with_unique_ids(a, b)
                        out = (fused, None, idmap)
                    elif kind == "disfuse":
                        fused, subst, idmap = disambiguate_and_fuse(a, b, make_filter(op["filter"]))
                        out = (fused, subst, idmap)
                    else:
                        new_b, subst = disambiguate_identifiers(a, b, make_filter(op["filter"]))
                        out = (new_b, subst, None)
                elif kind == "rename":
                    m = SubstitutionMapper(make_subst_func({k: var(v) for k, v in op["ren"].items()}))
                    out = ([s.map_expressions(m, include_lhs=op["lhs"]) for s in regs[op["r"]]],
                           None, None)
                elif kind == "copy":
                    src = regs[op["r"]]
                    field = {"lhs": "lhs", "rhs": "rhs", "cond": "condition"}[op["field"]]
                    e = sx_to_expr(loads(op["expr"]))
                    out = ([s.copy(**{field: e}) if j == op["j"] else s for j, s in enumerate(src)],
                           None, None)
                else:
                    for s in regs[op["r"]]:
                        s.get_read_variables(), s.get_written_variables(), sstr(s)
                    out = (None, None, None)
            except RecursionError:
                raise
            except Exception as ex:
                results.append(ex)
                break
            results.append(out)
            if out[0] is not None:
                regs.append(out[0])
            if observer:
                observer(step, op, None, out, regs)
        return regs, results

    def _orders(self, pl):
        """key order of the substitution each disambiguation step returned (= the order in which
        the code iterated over the set of clashes: a parameter of the model)"""
        try:
            _regs, results = self._history(pl)
        except RecursionError:
            raise
        return [list(r[1].keys()) if not isinstance(r, Exception) and r[1] is not None else []
                for r in results]

    def request(self, pl):
        orders = self._orders(pl)
        ops = []
        for k, op in enumerate(pl["ops"]):
            order = strs_req(orders[k]) if k < len(orders) else "()"
            kind = op["op"]
            if kind in ("disamb", "disfuse"):
                f = op["filter"]
                flt = f"({'true' if f['default'] else 'false'} {strs_req(f['except'])})"
                ops.append(f"({kind} {flt} {order} {op['a']} {op['b']})")
            elif kind == "fuse":
                ops.append(f"(fuse {op['a']} {op['b']})")
            elif kind == "rename":
                ops.append(f"(rename {pairs_out(op['ren'].items())} "
                           f"{'true' if op['lhs'] else 'false'} {op['r']})")
            elif kind == "copy":
                ops.append(f"(copy {op['r']} {op['j']} {op['field']} {op['expr']})")
            else:
                ops.append(f"(query {op['r']})")
        # operations after the point where the real run stopped (size cap) are not sent
        ops = ops[:len(orders)]
        return "(imp-hist (" + " ".join(stream_req(ds) for ds in pl["streams"]) + ") " + \
            " ".join(ops) + ")"

    def run_impl(self, pl):
        regs, results = self._history(pl)
        outs = []
        for reg in regs:
            rw = " ".join(f"({set_out(s.get_read_variables)} {set_out(s.get_written_variables)})"
                          for s in reg)
            outs.append(f"({stream_out(reg)} ({rw}))")
        reps = []
        for r in results:
            if isinstance(r, Exception):
                reps.append(err_out(r))
                continue
            _out, subst, idmap = r
            parts = []
            if subst is not None:
                if not all(isinstance(v, p.Variable) for v in subst.values()):
                    return "(harness-error substitution value is not a variable)"
                parts.append(pairs_out((k, v.name) for k, v in subst.items()))
            if idmap is not None:
                parts.append(pairs_out(sorted(idmap.items())))
            reps.append("(" + " ".join(parts) + ")")
        return "((" + " ".join(outs) + ") (" + " ".join(reps) + "))"

    # -- the property on the history ------------------------------------------------------------
    def oracle(self, pl):
        found = []          # first failure with a key that is not a recorded finding wins
        every = pl["observe"] == "every"

        class Stop(Exception):
            pass

        def note(f):
            if f is not None:
                found.append(f)
                if f.key not in KNOWN_KEYS:
                    raise Stop

        def observer(step, op, _inputs, out, regs):
            if step < 0:
                if every:
                    for r, reg in enumerate(regs):
                        note(judge_derived(reg, pl, f"register {r} (input)", only_new=False))
                return
            kind = op["op"]
            where = f"step {step} ({kind})"
            if kind in ("disamb", "disfuse"):
                a, b = regs[op["a"]], regs[op["b"]]
                if all(stmt_kind(s) for s in a + b):
                    sub = {"a": [stmt_payload(s) for s in a], "b": [stmt_payload(s) for s in b],
                           "filter": op["filter"], "fuse": kind == "disfuse"}
                    idents = disamb_in_quantifier(sub)
                    if idents is not None:
                        f = judge_disamb(sub, idents, a, b, out[0], out[1], out[2], pl)
                        if f is not None:
                            f.detail = f"{where}: {f.detail}"
                        note(f)
            elif kind == "fuse":
                a, b = regs[op["a"]], regs[op["b"]]
                ids_a, ids_b = [s.id for s in a], [s.id for s in b]
                if len(set(ids_a)) == len(ids_a) and len(set(ids_b)) == len(ids_b) and \
                        all(dep in ids_b for s in b for dep in s.depends_on):
                    bad = check_fuse_step(a, b, out[0], out[2])
                    if bad is not None:
                        note(Failure(bad[0], f"{where}: {bad[1]}", pl))
            elif kind == "rename":
                src = regs[op["r"]]
                for pos, (old, new) in enumerate(zip(src, out[0])):
                    d = stmt_payload(old)
                    exprs = [sx_to_expr(loads(d[f])) for f in ("lhs", "rhs", "cond") if f in d]
                    if not all(in_fragment(e) for e in exprs) or any(has_zero_cse(e) for e in exprs):
                        continue
                    for f in ("lhs", "rhs", "cond"):
                        if f in d and (f != "lhs" or op["lhs"]):
                            d[f] = rename_all(d[f], op["ren"])
                    w = mk_stmt(d)
                    if stmt_out(w) != stmt_out(new) or sstr(w) != sstr(new):
                        note(Failure("map-expressions-inconsistent-renaming",
                                     f"{where}, statement {pos}: {sstr(old)} became {sstr(new)}, renaming "
                                     f"{op['ren']} (include_lhs={op['lhs']}) gives {sstr(w)}", pl))
            if every and out[0] is not None:
                note(judge_derived(out[0], pl, f"{where} result (register {len(regs) - 1})",
                                   only_new=False))

        try:
            regs, results = self._history(pl, observer)
            if results and isinstance(results[-1], Exception):
                k = len(results) - 1
                op = pl["ops"][k]
                inputs = [regs[op[x]] for x in ("a", "b", "r") if x in op]
                # the quantifier: dependencies of a second stream name statements of that stream
                ok = op["op"] == "disamb" or op["op"] not in ("fuse", "disfuse") or all(
                    dep in [s.id for s in regs[op["b"]]] for s in regs[op["b"]] for dep in s.depends_on)
                if ok and all(judgeable(s) for reg in inputs for s in reg):
                    note(Failure("derived-" + op["op"] + "-raises",
                                 f"step {k} ({op['op']}): {results[-1]!r}", pl))
            # at the end every register is asked, also in the histories that asked nothing before
            for r, reg in enumerate(regs):
                note(judge_derived(reg, pl, f"register {r} at the end of the history", only_new=False))
        except Stop:
            pass
        new = [f for f in found if f.key not in KNOWN_KEYS]
        return (new or found or [None])[0]

    def shrink(self, pl):
        ops = pl["ops"]
        # drop trailing operations, then statements of the input streams, then simplify fields
        if ops:
            yield {**pl, "ops": ops[:-1]}
        for k, o in enumerate(ops):
            if o["op"] == "query":          # produces no register: the numbering stays
                yield {**pl, "ops": ops[:k] + ops[k + 1:]}
        if pl["observe"] == "every":
            yield {**pl, "observe": "end"}
        for i, ds in enumerate(pl["streams"]):
            if any(o["op"] == "copy" and o["r"] == i for o in ops):
                continue
            for j in range(len(ds)):
                gone = ds[j]["id"]
                nd = [{**d, "deps": [x for x in d["deps"] if x != gone]} for d in ds[:j] + ds[j + 1:]]
                yield {**pl, "streams": pl["streams"][:i] + [nd] + pl["streams"][i + 1:]}
        for i, ds in enumerate(pl["streams"]):
            for j, d in enumerate(ds):
                for f in ("lhs", "rhs", "cond"):
                    if f in d:
                        for sx in itertools.islice(sx_shrinks(loads(d[f])), 8):
                            nd = ds[:j] + [{**d, f: dumps(sx)}] + ds[j + 1:]
                            yield {**pl, "streams": pl["streams"][:i] + [nd] + pl["streams"][i + 1:]}

    def nontrivial_key(self, pl, model, impl):
        return self.request(pl) if any(o["op"] != "query" for o in pl["ops"]) else None

    def stats(self, pl, mo, io, acc):
        acc["operations"] = acc.get("operations", 0) + len(pl["ops"])
        for o in pl["ops"]:
            acc["op:" + o["op"]] = acc.get("op:" + o["op"], 0) + 1
        acc["observe:" + pl["observe"]] = acc.get("observe:" + pl["observe"], 0) + 1
        if "(err" in io:
            acc["error"] = acc.get("error", 0) + 1


def judgeable(s):
    """the statement lies inside the property's quantifier (left-hand side a variable or a
    subscripted variable; node kinds both mappers take; no zero-child CSE)"""
    k = stmt_kind(s)
    if k is None:
        return False
    if k == "nop":
        return True
    fields = (s.lhs, s.rhs) + ((s.condition,) if k == "casg" else ())
    return lhs_parts(s.lhs) is not None and all(in_fragment(e) and not has_zero_cse(e)
                                                for e in fields)

# }}}


# {{{ stream: dot export

EDGE_RE = re.compile(r"^(\S+) -> (\S+)$")
NODE_RE = re.compile(r'^"([^"]*)" \[label=')


def parse_dot(text):
    nodes, edges = [], []
    for line in text.split("\n"):
        m = NODE_RE.match(line)
        if m:
            nodes.append(m.group(1))
            continue
        m = EDGE_RE.match(line)
        if m:
            edges.append((m.group(1), m.group(2)))
    return nodes, edges


def transitive_reduction(rel):
    """independent reference: edge a->b of the reachability relation is kept iff no node lies
    strictly between a and b.  rel: dict node -> set of direct successors (a DAG)."""
    nodes = set(rel) | {v for vs in rel.values() for v in vs}
    reach = {}

    def visit(n, stack=()):
        if n in reach:
            return reach[n]
        acc = set()
        for m in rel.get(n, ()):
            acc.add(m)
            acc |= visit(m, stack + (n,))
        reach[n] = acc
        return acc
    for n in nodes:
        visit(n)
    return {(a, b) for a in nodes for b in reach[a]
            if not any(b in reach[m] for m in reach[a])}


def is_acyclic(rel):
    color = {}

    def dfs(n):
        color[n] = 1
        for m in rel.get(n, ()):
            if color.get(m) == 1 or (m not in color and not dfs(m)):
                return False
        color[n] = 2
        return True
    return all(dfs(n) for n in list(rel) if n not in color)


def dot_oracle(ds, run, payload, where=""):
    """the property's statement for the export of the payload stream `ds`: every statement drawn
    once, in stream order, and the drawn edges exactly the transitive reduction of the dependency
    relation (reference: `transitive_reduction`, reachability by DFS over the payload's own
    `deps` fields — no code of the library involved).  `run()` -> (nodes, edges) parsed from the
    text the real function returned."""
    rel = {}
    for d in ds:
        for dep in d["deps"]:
            rel.setdefault(d["id"], set()).add(dep)
    if not is_acyclic(rel) or not all(NAME_RE.match(d["id"]) for d in ds):
        return None
    nodes, edges = run()
    if nodes != [d["id"] for d in ds]:
        return Failure("dot-nodes", f"nodes drawn {nodes}", payload)
    want = transitive_reduction(rel)
    if len(set(edges)) != len(edges) or set(edges) != want:
        extra = ""
        if where:
            extra = (f"; {where}, listed {[d['id'] for d in ds]}: redundant edges drawn "
                     f"{sorted(set(edges) - want)}, covering edges missing {sorted(want - set(edges))}")
        return Failure("dot-not-transitive-reduction",
                       f"drawn {sorted(edges)}, transitive reduction {sorted(want)}{extra}", payload)
    return None


def dot_shrinks(ds):
    for j in range(len(ds)):
        yield ds[:j] + ds[j + 1:]
    for j, d in enumerate(ds):
        for dep in d["deps"]:
            yield ds[:j] + [{**d, "deps": [x for x in d["deps"] if x != dep]}] + ds[j + 1:]


class DotStream(Stream):
    name = "dot"

    def cases(self, rng, tier):
        # every DAG on up to 4 statements (edges only from later to earlier names in a fixed
        # order, then the statements listed in two different orders)
        names = ["a", "b", "c", "d"]
        for n in range(0, 5):
            pairs = [(names[i], names[j]) for i in range(n) for j in range(i)]
            if tier == "quick" and n == 4:
                subsets = [tuple(e for e in pairs if rng.random() < 0.5) for _ in range(40)]
            else:
                subsets = itertools.chain.from_iterable(
                    itertools.combinations(pairs, r) for r in range(len(pairs) + 1))
            for es in subsets:
                for order in (names[:n], names[:n][::-1]):
                    yield [S("nop", i, [b for a, b in es if a == i]) for i in order]
        n = 500 if tier == "quick" else 10000
        g = ExprGen(rng, malformed=0.0, floats=0.0, lists=False, foreign=False, cse=0.0,
                    extra_nodes=False)
        for i in range(n):
            yield rand_stream(rng, rng.randint(1, 9), g, IDPOOL, dangling=0.1 if i % 3 == 0 else 0.0,
                              depth=1)
        # the export of a fused stream
        from pymbolic.imperative.transform import fuse_statement_streams_with_unique_ids
        for i in range(n // 5):
            a = rand_stream(rng, rng.randint(1, 5), g, IDPOOL, depth=1)
            b = rand_stream(rng, rng.randint(1, 5), g, IDPOOL, depth=1)
            fused, _ = fuse_statement_streams_with_unique_ids(mk_stream(a), mk_stream(b))
            yield [stmt_payload(s) for s in fused]

    def request(self, pl):
        return f"(imp-dot {stream_req(pl)})"

    def _run(self, pl):
        from pymbolic.imperative.utils import get_dot_dependency_graph
        return parse_dot(get_dot_dependency_graph(mk_stream(pl), use_stmt_ids=bool(len(pl) % 2)))

    def run_impl(self, pl):
        nodes, edges = self._run(pl)
        return f"({strs_req(nodes)} {pairs_out(sorted(edges))})"

    def oracle(self, pl):
        return dot_oracle(pl, lambda: self._run(pl), pl)

    def shrink(self, pl):
        return dot_shrinks(pl)

    def nontrivial_key(self, pl, model, impl):
        return self.request(pl) if any(d["deps"] for d in pl) else None

    def stats(self, pl, mo, io, acc):
        direct = sum(len(d["deps"]) for d in pl)
        drawn = len(loads(io)[1])
        acc["direct_edges"] = acc.get("direct_edges", 0) + direct
        acc["drawn_edges"] = acc.get("drawn_edges", 0) + drawn
        if drawn < direct:
            acc["cases_with_edges_removed"] = acc.get("cases_with_edges_removed", 0) + 1

# }}}


# {{{ stream: the text of the dot export

class DotTextStream(Stream):
    """get_dot_dependency_graph with a caller-supplied stringifier and hooks: every line of the
    returned text against the model's `dotText` (the function the T-gen theorem
    `dotText_eq_table_current` equates with the regenerated source).  The block of edge lines is
    compared as a sorted list (its order is the iteration order of Python sets)."""
    name = "dot-text"
    PRE = [[], ['node [shape="box"];', 'edge [dir="back"];'], ["a b"]]
    POST = [[], ["x -> y [style=dashed]"], ["p", "q"]]

    def cases(self, rng, tier):
        n = 300 if tier == "quick" else 6000
        g = ExprGen(rng, malformed=0.0, floats=0.0, lists=False, foreign=False, cse=0.0,
                    extra_nodes=False)
        yield {"u": "none", "pre": [], "post": [], "stream": []}
        for i in range(n):
            yield {"u": ["none", "true", "false"][i % 3], "pre": rng.choice(self.PRE),
                   "post": rng.choice(self.POST),
                   "stream": rand_stream(rng, rng.randint(0, 7), g, IDPOOL,
                                         dangling=0.1 if i % 4 == 0 else 0.0, depth=1)}

    def request(self, pl):
        return (f"(imp-dot-text {pl['u']} {strs_req(pl['pre'])} {strs_req(pl['post'])} "
                f"{stream_req(pl['stream'])})")

    def run_impl(self, pl):
        from pymbolic.imperative.utils import get_dot_dependency_graph
        u = {"none": None, "true": True, "false": False}[pl["u"]]
        text = get_dot_dependency_graph(
            mk_stream(pl["stream"]), use_stmt_ids=u, preamble_hook=lambda: list(pl["pre"]),
            additional_lines_hook=lambda: list(pl["post"]),
            statement_stringifier=lambda s: "<" + s.id + ">")
        lines = text.split("\n")
        head = 1 + len(pl["pre"]) + 1 + len(pl["stream"])
        tail = len(lines) - len(pl["post"]) - 1
        if tail < head:
            return f"(harness-error dot text has {len(lines)} lines)"
        return strs_req(lines[:head] + sorted(lines[head:tail]) + lines[tail:])

    def shrink(self, pl):
        st = pl["stream"]
        for j in range(len(st)):
            yield {**pl, "stream": st[:j] + st[j + 1:]}
        if pl["pre"]:
            yield {**pl, "pre": []}
        if pl["post"]:
            yield {**pl, "post": []}

    def nontrivial_key(self, pl, model, impl):
        return self.request(pl) if pl["stream"] else None

    def stats(self, pl, mo, io, acc):
        acc[pl["u"]] = acc.get(pl["u"], 0) + 1

# }}}


# {{{ streams: directed dependency-graph families for the dot export

# A graph is (n, edges): nodes 0..n-1 numbered in a dependency order, edges a set of pairs (i, j)
# with i > j: statement i depends on statement j.  The closure / reduction of the export has to be
# right for EVERY listing order of the statements and for alternative paths of EVERY length, so
# the families below put long alternative paths next to direct dependencies and list each graph
# producers first, consumers first, interleaved and shuffled.

def g_chain(length, shortcuts=()):
    """the chain `length -> … -> 1 -> 0` (`length` edges) plus the given extra edges"""
    return length + 1, {(i, i - 1) for i in range(1, length + 1)} | set(shortcuts)


def chain_shortcuts(length):
    """every possible shortcut (i, j), i - j >= 2, of the chain with `length` edges"""
    return [(i, j) for i in range(length + 1) for j in range(i - 1)]


def g_layered(rng, layers, maxw, skip):
    """layers of 1..maxw statements; each statement depends on a non-empty random part of the
    layer below and, with probability `skip` each, on statements of older layers"""
    lay, edges, n = [], set(), 0
    for _ in range(layers):
        cur = list(range(n, n + rng.randint(1, maxw)))
        n += len(cur)
        if lay:
            for v in cur:
                for u in rng.sample(lay[-1], rng.randint(1, len(lay[-1]))):
                    edges.add((v, u))
                for older in lay[:-1]:
                    for u in older:
                        if rng.random() < skip:
                            edges.add((v, u))
        lay.append(cur)
    return n, edges


def g_diamonds(rng, count, width, link, variant):
    """`count` diamonds (bottom, `width` parallel statements, top) strung on a chain with `link`
    chain statements between two diamonds; variant: none | each (top -> bottom of every diamond)
    | ends (last statement -> first) | random (extra edges between random pairs)"""
    edges, n, bottom, spans = set(), 1, 0, []
    for k in range(count):
        for _ in range(link if k else 0):
            edges.add((n, bottom))
            bottom, n = n, n + 1
        mids = list(range(n, n + width))
        top = n + width
        n = top + 1
        for m in mids:
            edges.add((m, bottom))
            edges.add((top, m))
        spans.append((top, bottom))
        bottom = top
    if variant == "each":
        edges |= set(spans)
    elif variant == "ends":
        edges.add((n - 1, 0))
    elif variant == "random":
        for _ in range(rng.randint(1, 4)):
            i = rng.randrange(1, n)
            edges.add((i, rng.randrange(0, i)))
    return n, edges


def g_ladder(rng, length, cross):
    """two parallel chains from a common first statement to a common last one, with random
    cross dependencies from one chain into the other"""
    left = list(range(1, length + 1))
    right = list(range(length + 1, 2 * length + 1))
    last = 2 * length + 1
    edges = {(left[0], 0), (right[0], 0), (last, left[-1]), (last, right[-1])}
    for c in (left, right):
        for a, b in zip(c[1:], c):
            edges.add((a, b))
    for k in range(1, length):
        if rng.random() < cross:
            edges.add((right[k], left[rng.randrange(0, k)]))
    if rng.random() < 0.5:
        edges.add((last, 0))
    return last + 1, edges


def family_graphs(rng, tier):
    """(family, n, edges) of the directed families"""
    quick = tier == "quick"
    # chains of 3..12 edges with ONE shortcut of every span (quick: one random position per span
    # and always the end-to-end one; thorough: every position)
    for length in range(3, 13):
        for span in range(2, length + 1):
            tops = list(range(span, length + 1))
            if quick and span != length:
                tops = [rng.choice(tops)]
            for i in tops:
                yield f"chain{length}-shortcut-span{span}", *g_chain(length, [(i, i - span)])
    # chains with several shortcuts: a random part of them, all from the last statement, all
    for length in range(3, 13):
        sc = chain_shortcuts(length)
        for prob in (0.1, 0.3, 0.6) * (1 if quick else 6):
            yield f"chain{length}-shortcuts-random", *g_chain(
                length, [e for e in sc if rng.random() < prob])
        yield f"chain{length}-shortcuts-from-last", *g_chain(
            length, [e for e in sc if e[0] == length])
        yield f"chain{length}-shortcuts-to-first", *g_chain(length, [e for e in sc if e[1] == 0])
        if length <= 9:
            yield f"chain{length}-shortcuts-all", *g_chain(length, sc)
    # chains longer than any fixed number of sweeps is likely to cover
    for length in (16, 23, 33):
        yield f"chain{length}-shortcut-span{length}", *g_chain(length, [(length, 0)])
        i = rng.randint(8, length)
        j = rng.randint(0, i - 7)
        yield f"chain{length}-shortcut-span{i - j}", *g_chain(length, [(i, j)])
    for _ in range(36 if quick else 600):
        layers = rng.randint(3, 7)
        yield f"layered{layers}", *g_layered(rng, layers, rng.randint(1, 3),
                                            rng.choice([0.0, 0.15, 0.4]))
    for count in range(1, 5):
        for variant in ("none", "each", "ends", "random"):
            for _ in range(1 if quick else 8):
                yield f"diamonds{count}-{variant}", *g_diamonds(
                    rng, count, rng.randint(2, 3), rng.randint(0, 2), variant)
    for length in range(2, 7):
        for _ in range(2 if quick else 20):
            yield f"ladder{length}", *g_ladder(rng, length, rng.choice([0.3, 0.7]))


NAMEPOOL = IDPOOL + [f"n{i}" for i in range(30)] + [f"k_{i}" for i in range(0, 60, 3)]


def name_nodes(rng, n, scheme):
    """ids for nodes 0..n-1: numbered along the dependency order, against it, or unrelated to it
    (the iteration order of the sets of ids inside the export varies with the names)"""
    if scheme == "s":
        return [f"s{i}" for i in range(n)]
    if scheme == "rev":
        return [f"s{n - 1 - i}" for i in range(n)]
    return rng.sample(NAMEPOOL, n)


def listing_orders(rng, n, shuffles):
    idx = list(range(n))
    yield "dependency-order", idx
    yield "consumers-first", idx[::-1]
    yield "interleaved", idx[1::2] + idx[0::2]
    for _ in range(shuffles):
        sh = list(idx)
        rng.shuffle(sh)
        yield "shuffled", sh


def graph_stream(n, edges, names, order, mixed):
    """payload statements of the graph, listed in `order`"""
    deps = {i: [] for i in range(n)}
    for i, j in edges:
        deps[i].append(names[j])
    x = p.Variable("x")
    out = []
    for i in order:
        k = i % 3 if mixed else 2
        if k == 0:
            out.append(S("asg", names[i], deps[i], p.Subscript(x, i), p.Sum((x, 1))))
        elif k == 1:
            out.append(S("casg", names[i], deps[i], x, i, p.Comparison(x, "<", 1)))
        else:
            out.append(S("nop", names[i], deps[i]))
    return out


def family_cases(rng, tier):
    """(family, order name, payload stream): every graph of the families in every listing order,
    then the same graphs after fusion and repeated fusion"""
    quick = tier == "quick"
    graphs = list(family_graphs(rng, tier))
    for fam, n, edges in graphs:
        names = name_nodes(rng, n, rng.choice(["s", "s", "rev", "pool", "pool"]))
        mixed = rng.random() < 0.25
        for oname, order in listing_orders(rng, n, 1 if quick else 3):
            yield fam, oname, graph_stream(n, edges, names, order, mixed)
    # exported after fuse / repeated fuse: the parts use the same ids on purpose (they are renamed)
    from pymbolic.imperative.transform import fuse_statement_streams_with_unique_ids
    small = [g for g in graphs if g[1] <= 13]
    for _ in range(60 if quick else 1200):
        acc, fams, onames, parts = None, [], [], []
        for step in range(rng.choice([2, 2, 3, 4])):
            if step >= 2 and len(acc) <= 20 and rng.random() < 0.25:
                fam, oname = "itself", "same"              # the fused stream fused with itself
                ds = [stmt_payload(s) for s in acc]
            elif step >= 2 and rng.random() < 0.5:
                fam, oname, ds = rng.choice(parts)         # an already fused part, fused again
            else:
                fam, n, edges = rng.choice(small)
                oname, order = rng.choice(list(listing_orders(rng, n, 1)))
                ds = graph_stream(n, edges, name_nodes(rng, n, rng.choice(["s", "s", "rev"])),
                                  order, False)
                parts.append((fam, oname, ds))
            fams.append(fam)
            onames.append(oname)
            if acc is None:
                acc = mk_stream(ds)
                continue
            try:
                acc, _ = fuse_statement_streams_with_unique_ids(acc, mk_stream(ds))
            except RecursionError:
                raise
            except Exception:
                break                                      # the fuse stream reports this
            yield ("fused(" + " + ".join(fams) + ")", " + ".join(onames),
                   [stmt_payload(s) for s in acc])


DAG_NAMES = ["a", "b", "c", "d", "e"]


def dag_stream(n, mask, perm):
    """the DAG number `mask` on n <= 5 statements (bit k set = k-th pair (i, j), i > j, is a
    dependency of i on j), listed in the order `perm`"""
    pairs = [(i, j) for i in range(n) for j in range(i)]
    edges = [e for k, e in enumerate(pairs) if mask >> k & 1]
    return graph_stream(n, edges, DAG_NAMES, perm, False)


class DotFamilyStream(DotStream):
    """the dot export on directed graph families (long chains with shortcuts of every span, layered
    DAGs, diamonds on chains, ladders; in dependency order, consumers first, interleaved, shuffled;
    also after fusion and repeated fusion): edges against the model and against the independent
    transitive reduction.  Thorough tier: every DAG on <= 5 statements in every listing order."""
    name = "dot-families"

    def cases(self, rng, tier):
        for fam, oname, ds in family_cases(rng, tier):
            yield {"family": fam, "order": oname, "stream": ds}
        if tier != "quick":
            for n in range(0, 6):
                for mask in range(1 << (n * (n - 1) // 2)):
                    for perm in itertools.permutations(range(n)):
                        yield {"family": f"all-dags{n}", "order": "every-order",
                               "dag": [n, mask, list(perm)]}

    @staticmethod
    def _stream(pl):
        return pl["stream"] if "stream" in pl else dag_stream(*pl["dag"])

    def request(self, pl):
        return f"(imp-dot {stream_req(self._stream(pl))})"

    def _run(self, pl):
        return DotStream._run(self, self._stream(pl))

    def oracle(self, pl):
        return dot_oracle(self._stream(pl), lambda: self._run(pl), pl,
                          f"family {pl['family']}, order {pl['order']}")

    def shrink(self, pl):
        for ds in dot_shrinks(self._stream(pl)):
            yield {"family": pl["family"], "order": pl["order"], "stream": ds}

    def nontrivial_key(self, pl, model, impl):
        return self.request(pl) if any(d["deps"] for d in self._stream(pl)) else None

    def stats(self, pl, mo, io, acc):
        DotStream.stats(self, self._stream(pl), mo, io, acc)
        fam = re.sub(r"\d+", "", pl["family"].split("(")[0])
        for k in ("family:" + fam, "order:" + pl["order"].split(" + ")[-1]):
            acc[k] = acc.get(k, 0) + 1
        acc["max_statements"] = max(acc.get("max_statements", 0), len(self._stream(pl)))


class DotTextFamilyStream(DotTextStream):
    """the whole text of the export (hooks, caller-supplied stringifier) on the same directed
    families, against the model's `dotText`; the edge lines also against the independent
    transitive reduction"""
    name = "dot-text-families"

    def cases(self, rng, tier):
        for k, (fam, oname, ds) in enumerate(family_cases(rng, tier)):
            yield {"u": ["none", "true", "false"][k % 3], "pre": rng.choice(self.PRE),
                   "post": rng.choice(self.POST), "stream": ds, "family": fam, "order": oname}

    def _run(self, pl):
        from pymbolic.imperative.utils import get_dot_dependency_graph
        u = {"none": None, "true": True, "false": False}[pl["u"]]
        text = get_dot_dependency_graph(
            mk_stream(pl["stream"]), use_stmt_ids=u, preamble_hook=lambda: list(pl["pre"]),
            additional_lines_hook=lambda: list(pl["post"]),
            statement_stringifier=lambda s: "<" + s.id + ">")
        lines = text.split("\n")
        # the lines between `rankdir` and the additional lines: statements, then edges
        return parse_dot("\n".join(lines[1 + len(pl["pre"]) + 1:len(lines) - len(pl["post"]) - 1]))

    def oracle(self, pl):
        return dot_oracle(pl["stream"], lambda: self._run(pl), pl,
                          f"family {pl['family']}, order {pl['order']}")

    def shrink(self, pl):
        for ds in dot_shrinks(pl["stream"]):
            yield {**pl, "stream": ds}
        if pl["pre"]:
            yield {**pl, "pre": []}
        if pl["post"]:
            yield {**pl, "post": []}

    def stats(self, pl, mo, io, acc):
        DotTextStream.stats(self, pl, mo, io, acc)
        k = "order:" + pl["order"].split(" + ")[-1]
        acc[k] = acc.get(k, 0) + 1

# }}}


# {{{ T-gen

def extract(ctx=None):
    """lean/PV/Generated/Imperative.lean from the live source (extract/imperative.py)"""
    from extract.imperative import extract_imperative
    return extract_imperative(ctx)

# }}}


# {{{ probes for the recorded findings

def probe_known():
    from pymbolic.imperative.statement import Assignment
    from pymbolic.imperative.transform import disambiguate_identifiers
    a, b, x, y = (p.Variable(n) for n in "abxy")
    res = []
    s = Assignment(lhs=p.Subscript(a, x), rhs=p.Sum((y, 1)), id="i")
    got = set(s.get_read_variables())
    res.append(("assignment-reads-ignore-lhs", "x" not in got,
                f"`a[x] <- y + 1` reports reads {sorted(got)}"))
    _nb, sub = disambiguate_identifiers([Assignment(lhs=p.Subscript(a, x), rhs=1, id="i")],
                                        [Assignment(lhs=b, rhs=x, id="j")])
    res.append(("disambiguate-misses-lhs-only-identifier", "x" not in sub,
                f"disambiguate_identifiers([a[x] <- 1], [b <- x]) renames {sorted(sub)}"))
    x0 = p.Variable("x_0")
    nb, sub = disambiguate_identifiers(
        [Assignment(lhs=p.Subscript(a, x0), rhs=x, id="i")], [Assignment(lhs=b, rhs=x, id="j")])
    res.append(("disambiguate-fresh-name-hits-lhs-only-identifier",
                sub.get("x") == x0,
                f"disambiguate_identifiers([a[x_0] <- x], [b <- x]) renames x to {sub.get('x')}, "
                f"which the first stream uses"))
    return res

# }}}


PROP = Prop(
    id="C20",
    title="Statement-stream utilities keep programs well-formed",
    lean_targets=["PV.Properties.C20", "PV.Properties.C20Table", "PV.Properties.C20Derived"],
    theorems=[],
    streams=[GenStream(), FuseStream(), RWStream(), DisambStream(), DotStream(), DotTextStream(),
             DotFamilyStream(), DotTextFamilyStream(), DerivedStream()],
    probes=[probe_known],
    extractors=[extract],
    trusted_base=["Lean 4.33 kernel; axioms propext, Classical.choice, Quot.sound only",
                  "harness serialisation; Python sets/frozensets modelled as duplicate-free lists, "
                  "dicts as association lists",
                  "pytools.UniqueNameGenerator: theorems assume only its freshness contract; its "
                  "naming scheme is mirrored and tied by the namegen correspondence stream"],
    assumptions=["ids distinct within each input stream",
                 "every dependency of a second-stream statement names a second-stream statement "
                 "(otherwise KeyError, reproduced by the model)",
                 "dependency graph acyclic for the reduction theorem",
                 "identifiers and ids are ASCII names [A-Za-z_][A-Za-z0-9_]*"],
    level_text='Lean theorems, unbounded in stream length and generic in the name generator (any generator meeting the freshness contract; the mirrored pytools generator is proved to meet it and never to give up): fusing keeps all ids distinct (also under repeated fusion of already fused streams), keeps the first stream as a prefix, renames the second stream by the returned mapping and remaps every dependency to the renamed id of the same original statement; it fails only with KeyError, exactly when a dependency of the second stream names none of its statements. Reported written sets equal an independent scan; reported read sets are sound and equal the scan exactly when no variable occurs only in a left-hand-side index (counter-example proved). Disambiguation renames exactly the clashing identifiers the code sees that pass the filter, to pairwise distinct fresh names, by one consistent renaming of lhs, rhs and condition, for every set-iteration order, and leaves no shared visible identifier; with the scan-level identifier sets this holds under the same no-lhs-only hypothesis (two counter-examples proved). The fixed-point loop of the dot export computes the transitive closure and terminates; on acyclic graphs the drawn edges are exactly the transitive reduction (covering edges), preserve reachability and are the least such edge set. Tied to the code (i) by T-gen: the bodies of fuse_statement_streams_with_unique_ids, disambiguate_identifiers, disambiguate_and_fuse, get_all_used_identifiers, get_dot_dependency_graph and of the statement-class methods (with their MROs) are re-read from the source on every run into a small Python (lean/PV/Generated/Imperative.lean), and the hand-written model is proved to be the table interpreter run on that table for all inputs (fuseG/disambiguateG/disambiguateAndFuseG/usedIdentifiers/reads/written/mapExprs/dotText _eq_table_current), so the theorems speak about what the current source says; (ii) by correspondence streams (name generator, repeated fusion, read/written sets, disambiguate / disambiguate_and_fuse with filters, dot edges parsed from the text) and independent oracles.',
    level_note='Trusted: Lean kernel; harness serialisation; Python sets/dicts modelled as duplicate-free lists / association lists; the iteration order of the Python set `id_a & id_b` is a parameter of the model (supplied from the key order of the returned dict, checked to be a permutation of the model\'s own clash set) and the theorems hold for every order. Hypotheses: ids distinct within the first stream (for distinctness) and within the second (for the mapping lookups); acyclic dependency relation for the reduction theorem; no CommonSubexpression with a zero child for the consistent-renaming theorem (C08 finding cse-zero-child-collapses); ASCII names. str() of statements is checked by the oracle only (no printer model). T-gen: the reader extract/imperative.py and the primitives of the table language (UniqueNameGenerator = the generator parameter, Record.copy, Variable, isinstance, DependencyMapper = deps, SubstitutionMapper = substM, list, formatting of str values) are hand-written; the fusion table theorems assume a generator seeded by a set (proved for the mirrored pytools generator), the dot table theorem is stated for representation-order set iteration and use_stmt_ids in {None, True, False}.',
    technique="Lean 4 proofs about an executable model of the statement utilities (generic in the "
              "name generator) + differential correspondence + independent scans / reachability",
    design_ref="DESIGN.md §4 C20",
)
