"""C01 — expression nodes: structural equality, consistent hashing, immutability.

Streams
  stock-triples        exhaustive pairs/triples over a reduced alphabet covering every stock class
                       that has a tree form (`Expr`): `==`, `!=`, hash equality of equal trees vs
                       `Expr.pyEq` and vs the table-driven generated `__eq__` on the objects
  class-table-triples  the same for EVERY class of the regenerated class table in the generic object
                       format: stock classes, their abstract bases, `NaN(data_type)`, the user
                       hierarchies of harness/c01_classes.py (decorated / undecorated legacy / mixed,
                       2-3 levels), Polynomial / Rational / SubPoly / SubRat (hand-written `__eq__`:
                       answered by `ownEq` / `hashX`, lean/PV/Model/EqHashOwn.lean)
  own-eq-triples       pairs / triples over Rational, SubRat, Polynomial, SubPoly instances
                       (unnormalised and nested fractions, polynomials over fractions), numbers,
                       strings / None / tuples, ordinary nodes, and the same below ordinary parents:
                       `==`, `!=`, hash equality of equal values and dict lookup of the real objects
                       vs the Lean model of the hand-written methods inside CPython's `==` dispatch,
                       run on the records extract/classes.py reads from the methods' SOURCE
  rational-init        what `Rational(numerator, denominator)` stores or raises vs `rationalInit`
  setattr-delattr      `setattr` / `delattr` on every field of every class (and on a non-field name)
  histories            random histories of hash / == / != / in / dict insert / dict lookup / copies
                       (`dataclasses.replace`, re-construction from `__getinitargs__`, a rebuilding
                       mapper, `copy.copy`; `copy.deepcopy` = the model's rebuild) / IdentityMapper /
                       rebuild / pickle round trip / setattr / delattr on
                       a pool of objects: every answer and the `_hash_value` slot pattern after every
                       step vs the Lean history model
  interpreter-modes    two worker processes (default mode, `python -O`; harness/c01_worker.py):
                       setattr / delattr on every field of every class in both modes vs `frozenFor`
                       on `ClassTable.inMode` (the decorator's `frozen=` keyword is read from source);
                       histories under -O (a rebinding that goes through and the stale cached hash
                       it leaves; random ones without rebinding) vs `run1D … false`; `==` / `!=` /
                       hash equality and the hash VALUES of untouched objects agree between the modes
  cross-process-hash   (oracle only) the second-process leg of the histories: a history runs here
                       (objects hashed whole, through `==` / dict use, at ONE sub-node only, or never;
                       copies, in-process pickle round trips), then pool objects are pickled with every
                       protocol and read by a persistent reader process under a DIFFERENT
                       PYTHONHASHSEED (harness/c01_xworker.py; thorough: a second one under a third
                       seed and -O), which rebuilds the tree from the source S-expression and reports
                       `==` / `!=` / hash equality / dict and set membership both ways and which
                       `_hash_value` slots arrived; the reader's own hashed tree comes back as a pickle
                       and is judged here the same way.  Every class of the table (stock, user
                       decorated / legacy / mixed; Polynomial / Rational pickles cannot be loaded at all)
  copies-after-hash    (oracle only) `copy.copy` / `copy.deepcopy` / `dataclasses.replace` (also with
                       one field changed) / init-args re-construction / in-process pickle round trips
                       of objects hashed before: the copy is its source's equal (or, with a changed
                       field, the equal of a fresh build with that field), never carries a hash that
                       is not the hash of its fields, and leaves the original alone

  class-hierarchies    (oracle only) node classes declared AT RUN TIME, a fresh hierarchy per case
                       (harness/c01_hier.py): below a stock decorated node / the library's own
                       undecorated subclass (MultiVectorVariable) / a user class of any kind /
                       Expression itself, up to four levels, each level plain, re-declaring the
                       parent's init args, adding init args, pinning one, or decorated; sometimes two
                       classes of one name.  A history first uses the classes in some order (every
                       chain of kinds top-down, bottom-up and shuffled; random trees), then the whole
                       pool is judged pairwise: `==` exactly for same class and pairwise-equal init
                       arguments (read off the input), `!=`, equal => equal hash / interchangeable
                       key, unequal => kept apart, whatever class was hashed or compared first
                       (per-class state of the library outlives the instances)

Oracles (independent of the code under test): `harness/c01_classes.struct_eq` is the property's own
sentence ("same node class and pairwise-equal fields") written with `type(a) is type(b)` and
`dataclasses.fields` / the init args; reflexivity, symmetry, transitivity; equal ⇒ equal hash;
equal ⇒ interchangeable as dict / set key; hash stable over the object's lifetime; fields never
change; rebinding attempts raise.
"""
from __future__ import annotations

import base64
import copy
import dataclasses
import json
import pickle
import warnings
from collections.abc import Mapping

import pymbolic.primitives as p

from .. import c01_classes as C
from .. import c01_xworker as XW
from ..core import Failure, Prop, Stream
from ..gen import ExprGen
from ..sexp import A, Atom, dumps, expr_to_sx, loads, sx_to_expr

warnings.filterwarnings("ignore", category=DeprecationWarning)

X, Y, Z, F, G = (p.Variable(v) for v in ("x", "y", "z", "f", "g"))

# {{{ the reduced alphabet: candidate values per field, instances per class

EXPR_FULL = [X, Y, 1, 1.0, True, 0, 0.0, False, -0.0, 2, p.Sum((X, 1)), p.Sum((X, True))]
EXPR_FEW = [X, Y, 1, 1.0, 0]
TUPLES = [(X, 1), (X, 1.0), (X, True), (X,), (), (Y, 1), (1, X), (X, 1, 0), (X, (1, Y))]
MAPPINGS = [{"k": X, "j": 1}, {"j": 1, "k": X}, {"k": X}, {"k": Y, "j": 1}, {"k": X, "j": 1.0},
            {"k": X, "i": 1}, {}]


def candidates(cls, name, pos):
    n = cls.__name__
    if name in ("children", "parameters", "values", "w"):
        if n == "Slice":
            return [(X, None, 2), (X, None, 2.0), (X, None), (None, None, 2), (X, 1, 2), ()]
        if n == "Substitution":
            return [(1,), (1.0,), (X,), ()]
        return TUPLES
    if name == "variables":
        return [("x",), ("y",), ("x", "y"), ()]
    if name in ("name", "label"):
        return ["a", "b", "ab"]
    if name == "operator":
        return ["==", "!=", "<", "<=", ">", ">="]
    if name == "prefix":
        return [None, "cs", "u"]
    if name == "scope":
        return [p.cse_scope.EVALUATION, p.cse_scope.EXPRESSION, p.cse_scope.GLOBAL]
    if name in ("kw_parameters", "opts", "options"):
        return MAPPINGS
    if name == "data_type":
        return [None, float, int]
    if name == "function":
        return [F, G, X]
    if name == "order":
        return [2, 2.0, 3, True]
    return EXPR_FULL if pos == 0 else EXPR_FEW


def build(cls, args):
    try:
        with warnings.catch_warnings():
            warnings.simplefilter("ignore")
            return cls(*args)
    except Exception:
        return None


def special_instances(cls):
    from pymbolic.polynomial import Polynomial
    from pymbolic.rational import Rational
    if cls is Polynomial or cls is C.SubPoly:
        return [cls(X, ((1, 1),)), cls(X, ((1, 1.0),)), cls(X, ((1, 1),), 2), cls(Y, ((1, 1),)),
                cls(X, ((1, 2),)), cls(X, ((0, 1), (2, Y)))]
    if cls is Rational:
        return [Rational(X, 2), Rational(X, 3), Rational(Y, 2), Rational(X, 1), Rational(3, 4),
                Rational(p.Sum((X, 1)), 5)]
    if cls is C.SubRat:
        return [C.SubRat(X, 2), C.SubRat(X, 3), C.SubRat(Y, 2), C.SubRat(X, 1), C.SubRat(3, 4)]
    return None


def instances(cls):
    """base instance first, then every instance differing from it in exactly one field"""
    sp = special_instances(cls)
    if sp is not None:
        return sp
    names = C.field_names_of(cls)
    vals = [candidates(cls, n, i) for i, n in enumerate(names)]
    base = [v[0] for v in vals]
    res = [build(cls, base)]
    for i, vs in enumerate(vals):
        for w in vs[1:]:
            args = list(base)
            args[i] = w
            res.append(build(cls, args))
    return [o for o in res if o is not None]


def obj_s(o):
    return dumps(C.obj_to_sx(o))


def expr_s(o):
    """tree-form wire string, or None when the tree form cannot carry the object faithfully"""
    from ..sexp import Unencodable
    try:
        s = dumps(expr_to_sx(o))
        if obj_s(sx_to_expr(loads(s))) != obj_s(o):
            return None
        return s
    except (Unencodable, Exception):
        return None


def eq_variant(rng, s, prob=0.5):
    """an object S-expression `==` to `s`, structurally different where possible (keyword mappings
    re-inserted in another order, ints replaced by equal floats / bools)"""
    if isinstance(s, Atom) or not isinstance(s, list):
        return s
    h = s[0]
    if h == "atom":
        c = s[1]
        if isinstance(c, list) and c[0] == "Int" and rng.random() < prob:
            n = int(c[1])
            if n in (0, 1) and rng.random() < 0.5:
                return [A("atom"), [A("Bool"), bool(n)]]
            return [A("atom"), expr_to_sx(float(n))]
        return s
    if h == "dict":
        idx = list(range(len(s[1])))
        rng.shuffle(idx)
        return [h, [s[1][i] for i in idx], [eq_variant(rng, s[2][i], prob) for i in idx]]
    if h == "inst":
        if s[1] in ("Variable", "MVar", "LegacyVar", "DotWildcard", "StarWildcard", "Lookup",
                    "Derivative", "Substitution", "CommonSubexpression", "Comparison", "Labelled",
                    "Polynomial", "SubPoly", "Rational", "SubRat", "NaN"):
            # classes with string / exponent fields: only the expression-valued first field varies
            if s[1] in ("Lookup", "Derivative", "Substitution", "CommonSubexpression"):
                return [h, s[1], s[2], [eq_variant(rng, s[3][0], prob)] + s[3][1:]]
            if s[1] == "Comparison":
                return [h, s[1], s[2], [eq_variant(rng, s[3][0], prob), s[3][1],
                                        eq_variant(rng, s[3][2], prob)]]
            return s
        return [h, s[1], s[2], [eq_variant(rng, c, prob) for c in s[3]]]
    return [h] + [eq_variant(rng, c, prob) for c in s[1:]]


_CMP_NAMES = {"==": "eq", "!=": "ne", "<=": "le", "<": "lt", ">=": "ge", ">": "gt"}


def source_variant(rng, s, prob=0.5):
    """another SOURCE form of the same object: comparison operators given by name, CSE scope given
    as None (`__post_init__` normalises both)"""
    if isinstance(s, Atom) or not isinstance(s, list) or not s:
        return s
    if s[0] == "inst":
        fs = [source_variant(rng, c, prob) for c in s[3]]
        if s[1] == "Comparison" and len(fs) == 3 and rng.random() < prob:
            o = fs[1][1][1] if isinstance(fs[1], list) and fs[1][0] == "atom" else None
            if o in _CMP_NAMES:
                fs[1] = [A("atom"), [A("Str"), _CMP_NAMES[o]]]
        if s[1] == "CommonSubexpression" and len(fs) == 3 and rng.random() < prob:
            if fs[2] == [A("atom"), [A("Str"), p.cse_scope.EVALUATION]]:
                fs[2] = [A("atom"), A("nil")]
        return [s[0], s[1], s[2], fs]
    if s[0] in ("tuple", "list"):
        return [s[0]] + [source_variant(rng, c, prob) for c in s[1:]]
    if s[0] == "dict":
        return [s[0], s[1], [source_variant(rng, c, prob) for c in s[2]]]
    return s


def wrappers():
    """parents to put around an instance `e` (nesting)"""
    return [
        lambda e: p.Sum((e, 1)), lambda e: p.Call(F, (e,)), lambda e: p.If(e, 1, e),
        lambda e: p.CallWithKwargs(F, (), {"k": e, "j": 1}), lambda e: p.Subscript(X, (e, 0)),
        lambda e: C.DMid(e, (e,)), lambda e: C.LMid(1, e), lambda e: C.MExtra(e, e),
        lambda e: C.MAlias(1, e), lambda e: C.DOpts(e, {"o": e}), lambda e: C.K.LegacyPair(e, 2),
        lambda e: p.CommonSubexpression(e, "cs"), lambda e: C.MSum((e, e)),
    ]


def gen_triples(rng, tier):
    """[(a, b, c)] of Expression objects"""
    classes = C.all_expression_classes()
    per_class = {c: instances(c) for c in classes}
    out = []
    # within a class: all pairs, third element another instance of the class
    for c, inst in per_class.items():
        n = len(inst)
        for i in range(n):
            for j in range(i, n):
                out.append((inst[i], inst[j], inst[(i + j + 1) % n]))
    # across classes: same arguments, different class
    bases = [(c, inst[0]) for c, inst in per_class.items() if inst]
    for i, (c1, o1) in enumerate(bases):
        for c2, o2 in bases[i + 1:]:
            f1, f2 = C.fields_of(o1), C.fields_of(o2)
            if len(f1) != len(f2):
                continue
            o2b = build(c2, f1) if special_instances(c2) is None else None
            if o2b is not None:
                out.append((o1, o2b, build(c1, f1) or o1))
            else:
                out.append((o1, o2, o1))
    # nesting: instances inside parents
    ws = wrappers()
    flat = [o for inst in per_class.values() for o in inst]
    n_nest = 1500 if tier == "quick" else 20000
    for _ in range(n_nest):
        w = rng.choice(ws)
        a = rng.choice(flat)
        k = rng.random()
        if k < 0.4:
            b = C.sx_to_obj(loads(dumps(eq_variant(rng, C.obj_to_sx(a)))))
        elif k < 0.8:
            b = rng.choice(per_class[type(a)]) if type(a) in per_class else rng.choice(flat)
        else:
            b = rng.choice(flat)
        c = rng.choice([a, b, rng.choice(flat)])
        w2 = rng.choice(ws) if rng.random() < 0.2 else w
        try:
            out.append((w(a), w2(b), w(c)))
        except Exception:
            pass
    # random stock trees and their ==-variants / mutations
    n_rand = 600 if tier == "quick" else 10000
    g = ExprGen(rng, lists=False, foreign=False, cse=0.1, floats=0.05, malformed=0.0)
    for _ in range(n_rand):
        e = g.gen(rng.choice(["num", "any", "bool", "int"]), rng.randint(1, 4))
        if not isinstance(e, p.Expression):
            e = p.Call(F, (e,))
        v = C.sx_to_obj(loads(dumps(eq_variant(rng, C.obj_to_sx(e)))))
        m = g.gen(rng.choice(["num", "bool", "int"]), rng.randint(1, 3))
        if not isinstance(m, p.Expression):
            m = p.Sum((e, m))
        out.append((e, v, m))
    # directed: stock legacy classes against plain nodes and against their subclasses
    from pymbolic.polynomial import Polynomial
    from pymbolic.rational import Rational
    out += [(Rational(X, 1), X, Rational(X, 1)), (X, Rational(X, 1), X),
            (Polynomial(X, ((1, 1),)), C.SubPoly(X, ((1, 1),)), Polynomial(X, ((1, 1),))),
            (Polynomial(X), X, Polynomial(X)), (p.NaN(), p.NaN(float), p.NaN()),
            (p.NaN(float), p.NaN(float), p.NaN(int)),
            (p.Comparison(X, "<", Y), p.Comparison(X, "lt", Y), p.Comparison(X, "<=", Y)),
            (p.CommonSubexpression(X), p.CommonSubexpression(X, None, p.cse_scope.EVALUATION),
             p.CommonSubexpression(X, None, None))]
    return [t for t in out if not any(C.has_nan_const(o) or C.has_list(o) for o in t)]

# }}}


# {{{ the property on pairs and triples (oracle)

def culprit(o):
    """which `__eq__` answers for `o`: the class name for a generated method, else its qualname"""
    fn = type(o).__eq__
    qn = getattr(fn, "__qualname__", "?")
    if qn.endswith("_eq"):
        return type(o).__name__
    return qn


def deep_pair(a, b):
    """the innermost pair of corresponding parts of `a` and `b` on which `==` and structural
    equality disagree (the pair itself when no part does)"""
    def parts(x, y):
        if isinstance(x, p.Expression) and isinstance(y, p.Expression) and type(x) is type(y):
            fx, fy = C.fields_of(x), C.fields_of(y)
            return list(zip(fx, fy)) if len(fx) == len(fy) else []
        if isinstance(x, (tuple, list)) and isinstance(y, (tuple, list)) and len(x) == len(y):
            return list(zip(x, y))
        if isinstance(x, Mapping) and isinstance(y, Mapping):
            return [(v, y[k]) for k, v in x.items() if k in y]
        return []
    for x, y in parts(a, b):
        try:
            bad = bool(x == y) != C.struct_eq(x, y)
        except Exception:       # noqa: BLE001
            bad = False
        if bad:
            return deep_pair(x, y)
    return a, b


# what the hand-written `__eq__` of the stock legacy classes is KNOWN to ignore (known findings
# `eq-not-structural:<method>`): a pair that is `==` although it differs in anything else gets a
# key of its own
OWN_INIT_ARGS = {"Polynomial": ("Base", "Data", "Unit", "VarLess"), "Rational": ("Numerator", "Denominator")}
KNOWN_IGNORED = {"Polynomial.__eq__": {"class", "Unit", "VarLess"}, "Rational.__eq__": {"class"}}


def _eq_either_way(u, v):
    try:
        return bool(u == v) or bool(v == u)
    except Exception:       # noqa: BLE001
        return False


def ignored_aspects(x, y):
    """in what two values that compare `==` differ: 'class', and the init args that are neither
    structurally equal nor `==` to each other (an init arg that is `==` through a deviation further
    down was compared, not ignored)"""
    asp = set()
    if type(x) is not type(y):
        asp.add("class")
    if isinstance(x, p.Expression) and isinstance(y, p.Expression):
        for base, names in OWN_INIT_ARGS.items():
            if all(any(c.__name__ == base for c in type(o).__mro__) for o in (x, y)):
                fx, fy = C.fields_of(x), C.fields_of(y)
                if len(fx) == len(fy) == len(names):
                    asp |= {n for n, u, v in zip(names, fx, fy)
                            if not C.struct_eq(u, v) and not _eq_either_way(u, v)}
    return asp


def deep_culprit(a, b):
    """the `__eq__` to blame when `a == b` differs from structural equality (the one answering for
    the innermost disagreeing pair), refined by what it ignored when that is not a known deviation"""
    x, y = deep_pair(a, b)
    if isinstance(x, p.Expression):
        name = culprit(x)
    elif isinstance(y, p.Expression):
        name = culprit(y)       # a builtin left operand hands over to the reflected method
    else:
        return type(x).__name__
    if name in KNOWN_IGNORED:
        try:
            equal = bool(x == y)
        except Exception:       # noqa: BLE001
            return name
        if not equal:
            return name + ":unequal-though-structurally-equal"
        extra = ignored_aspects(x, y) - KNOWN_IGNORED[name]
        if extra:
            return name + ":ignores-" + "+".join(sorted(extra))
    return name


def own_family(o):
    """'Polynomial' / 'Rational' when `o` is an instance of that stock legacy class (or a subclass)"""
    if isinstance(o, p.Expression):
        for c in type(o).__mro__:
            if c.__name__ in OWN_INIT_ARGS and c.__module__.startswith("pymbolic."):
                return c.__name__
    return None


def hash_law(a, b):
    """`a == b` with different hashes, blamed on the innermost pair of corresponding parts that is
    `==` with different hashes.  Not reported here: two instances of DIFFERENT classes of one stock
    legacy family (a subclass instance equals a base-class instance and hashes differently: known
    findings `eq-not-structural:Polynomial.__eq__`, `equal-but-hash-differs:Rational.__eq__:subclass`,
    and these pairs are reported by the structural check below)."""
    def differs(x, y):
        try:
            return bool(x == y) and hash(x) != hash(y)
        except Exception:       # noqa: BLE001
            return False

    def parts(x, y):
        if isinstance(x, p.Expression) and isinstance(y, p.Expression):
            fx, fy = C.fields_of(x), C.fields_of(y)
            return list(zip(fx, fy)) if len(fx) == len(fy) else []
        if isinstance(x, tuple) and isinstance(y, tuple) and len(x) == len(y):
            return list(zip(x, y))
        if isinstance(x, Mapping) and isinstance(y, Mapping):
            return [(v, y[k]) for k, v in x.items() if k in y]
        return []

    if not differs(a, b):
        return None
    x, y = a, b
    while True:
        nxt = next(((u, v) for u, v in parts(x, y) if differs(u, v)), None)
        if nxt is None:
            break
        x, y = nxt
    if type(x) is not type(y) and own_family(x) is not None and own_family(x) == own_family(y):
        return None
    who = culprit(x) if isinstance(x, p.Expression) else (
        culprit(y) if isinstance(y, p.Expression) else type(x).__name__)
    return Failure(f"equal-but-hash-differs:{who}", f"{x!r} == {y!r} with different hashes (inside {a!r} == {b!r})")


def triple_oracle(objs, fresh):
    """objs: Expression objects; fresh(i): a separately built object with the same source"""
    n = len(objs)
    first_hash = [hash(o) for o in objs]
    for a in objs:
        for b in objs:
            f = hash_law(a, b)
            if f is not None:
                return f
    eq = {}
    for i, a in enumerate(objs):
        for j, b in enumerate(objs):
            e = a == b
            if not isinstance(e, bool):
                return Failure(f"eq-not-bool:{culprit(a)}", f"{a!r} == {b!r} -> {e!r}")
            eq[i, j] = e
            want = C.struct_eq(a, b)
            if e != want:
                return Failure(f"eq-not-structural:{deep_culprit(a, b)}",
                               f"{a!r} == {b!r} is {e}; same class and pairwise-equal fields: {want}")
            if (a != b) != (not e):
                return Failure(f"ne-inconsistent:{culprit(a)}", f"{a!r} != {b!r} is {a != b}, == is {e}")
    for i, a in enumerate(objs):
        b = fresh(i)
        if not (a == a) or not (a == b) or not (b == a):
            return Failure(f"not-reflexive:{culprit(a)}", f"{a!r} vs a separately built copy")
        if hash(a) != hash(b):
            return Failure(f"equal-but-hash-differs:{culprit(a)}", f"{a!r} vs a separately built copy")
    for i in range(n):
        for j in range(n):
            a, b = objs[i], objs[j]
            if eq[i, j] != eq[j, i]:
                t = a if eq[i, j] else b
                return Failure(f"not-symmetric:{culprit(t)}", f"{a!r} == {b!r}: {eq[i, j]}, reverse {eq[j, i]}")
            if eq[i, j]:
                if hash(a) != hash(b):
                    return Failure(f"equal-but-hash-differs:{culprit(a)}", f"{a!r} / {b!r}")
                d = {a: "A"}
                s = {a}
                if b not in d or d[b] != "A" or b not in s or len({a, b}) != 1 or len({a: 1, b: 2}) != 1:
                    return Failure(f"equal-but-not-interchangeable-as-key:{culprit(a)}", f"{a!r} / {b!r}")
            for k in range(n):
                if eq[i, j] and eq[j, k] and not eq[i, k]:
                    return Failure(f"not-transitive:{culprit(a)}", f"{a!r} / {b!r} / {objs[k]!r}")
    for o, h in zip(objs, first_hash):
        if hash(o) != h:
            return Failure(f"hash-changed:{culprit(o)}", f"{o!r}")
    return None


def corresponding_insts(a, b):
    """pairs of instance S-expressions at the same position below two object S-expressions"""
    if not (isinstance(a, list) and isinstance(b, list) and a and b and a[0] == b[0]):
        return
    if a[0] == "inst":
        ka, kb = a[3], b[3]
    elif a[0] in ("tuple", "list"):
        ka, kb = a[1:], b[1:]
    elif a[0] == "dict":
        ka, kb = a[2], [b[2][b[1].index(k)] for k in a[1] if k in b[1]]
        if len(ka) != len(kb):
            return
    else:
        return
    if len(ka) != len(kb):
        return
    for x, y in zip(ka, kb):
        if isinstance(x, list) and isinstance(y, list) and x and y:
            if x[0] == "inst" and y[0] == "inst":
                yield x, y
            else:
                yield from corresponding_insts(x, y)


def matrices(objs):
    eq, ne, hs = [], [], []
    for a in objs:
        for b in objs:
            e = a == b
            eq.append("1" if e else "0")
            ne.append("0" if a != b else "1")
            hs.append(("1" if hash(a) == hash(b) else "0") if e else "-")
    return f'(r "{"".join(eq)}" "{"".join(ne)}" "{"".join(hs)}" "{"".join(hs)}" true)'


class TripleStream(Stream):
    wire = "obj"

    def encode(self, o):
        return obj_s(o) if self.wire == "obj" else expr_s(o)

    def decode(self, s):
        return C.sx_to_obj(loads(s)) if self.wire == "obj" else sx_to_expr(loads(s))

    def cases(self, rng, tier):
        seen = set()
        for t in gen_triples(rng, tier):
            ss = [self.encode(o) for o in t]
            if any(s is None for s in ss):
                continue
            if self.wire == "obj":
                ss = [dumps(source_variant(rng, loads(s), 0.3)) for s in ss]
            key = " ".join(ss)
            if key in seen:
                continue
            seen.add(key)
            yield {"objs": ss}

    def request(self, pl):
        op = "c01-objs" if self.wire == "obj" else "c01-exprs"
        return f"({op} {' '.join(pl['objs'])})"

    def run_impl(self, pl):
        return matrices([self.decode(s) for s in pl["objs"]])

    def oracle(self, pl):
        objs = [self.decode(s) for s in pl["objs"]]
        if not all(isinstance(o, p.Expression) for o in objs):
            return None
        return triple_oracle(objs, lambda i: self.decode(pl["objs"][i]))

    def shrink(self, pl):
        ss = pl["objs"]
        if len(ss) > 2:
            for i in range(len(ss)):
                for j in range(len(ss)):
                    if i != j:
                        yield {"objs": [ss[i], ss[j]]}
        if len(ss) == 2 and self.wire == "obj":
            # descend into corresponding instance-valued parts of the two objects
            a, b = loads(ss[0]), loads(ss[1])
            for x, y in corresponding_insts(a, b):
                yield {"objs": [dumps(x), dumps(y)]}

    def nontrivial_key(self, pl, model, impl):
        return " ".join(pl["objs"])

    def stats(self, pl, mo, io, acc):
        cl = acc.setdefault("classes", {})
        for s in pl["objs"]:
            name = loads(s)
            name = name[1] if (isinstance(name, list) and name and name[0] == "inst") else (
                str(name[0]) if isinstance(name, list) and name else "const")
            cl[name] = cl.get(name, 0) + 1
        m = io.split('"')[1] if '"' in io else ""
        n = int(len(m) ** 0.5) if m else 0
        off = [m[i * n + j] for i in range(n) for j in range(n) if i != j]
        acc["equal_pairs"] = acc.get("equal_pairs", 0) + off.count("1")
        acc["unequal_pairs"] = acc.get("unequal_pairs", 0) + off.count("0")
        if mo is not None and "noclaim" in mo:
            acc["model_abstains_own_eq"] = acc.get("model_abstains_own_eq", 0) + 1


class StockTriples(TripleStream):
    """trees: `Expr.pyEq`, `eqGen` on `ofExpr`, `Expr.hash` / `hashGen` vs the real `==`, `!=`, hash"""
    name = "stock-triples"
    wire = "expr"


class TableTriples(TripleStream):
    """generic objects over every class of the regenerated table"""
    name = "class-table-triples"
    wire = "obj"

# }}}


# {{{ hand-written __eq__ / __hash__ (Polynomial, Rational, their subclasses) among numbers and nodes

def _rat(cls, n, d):
    """an instance with the two init args set directly (unnormalised fractions included)"""
    o = cls.__new__(cls)
    o.Numerator, o.Denominator = n, d
    return o


def own_alphabet():
    """(numbers, ordinary nodes, rationals, polynomials)"""
    from pymbolic.polynomial import Polynomial
    from pymbolic.rational import Rational
    R = lambda n, d: _rat(Rational, n, d)        # noqa: E731
    S = lambda n, d: _rat(C.SubRat, n, d)        # noqa: E731
    sx1 = p.Sum((X, 1))
    nums = [0, 1, 2, -1, 1.0, 2.0, 0.5, True, False]
    plain = [X, Y, sx1, p.Sum((X, 1.0)), p.Sum((X, True)), p.Product((2, X)), p.Call(F, (X,)),
             p.Quotient(X, 1), C.LBase(X), C.MVar("x", 1), C.DMid(X, 1)]
    rats = [R(X, 1), R(X, 1.0), R(X, True), R(X, 2), R(X, 2.0), R(Y, 2), R(2, 1), R(2.0, 1.0),
            R(1, 2), R(2, 4), R(1, 1), R(True, 1), R(0, 1), R(0, 2), R(sx1, 1), R(sx1, 3),
            R(R(X, 1), 1), R(R(X, 2), 1), R(R(2, 1), 1), R(C.LBase(X), 1),
            S(X, 1), S(X, 2), S(2, 1), S(R(X, 1), 1)]
    polys = [Polynomial(X, ((0, 1),)), Polynomial(X, ((0, 1.0),)), Polynomial(X),
             Polynomial(X, ((1, 1),), 2), Polynomial(Y), Polynomial(X, ((1, 2),)),
             Polynomial(X, ((0, 1), (2, Y))), Polynomial(X, ()), Polynomial(R(X, 1)),
             Polynomial(X, ((1, R(1, 1)),)), Polynomial(sx1, ((1, 1),)),
             C.SubPoly(X), C.SubPoly(X, ((0, 1),)), C.SubPoly(R(X, 1)), C.SubPoly(X, ((1, 1),), 2)]
    return nums, plain, rats, polys


def gen_own_cases(rng, tier):
    """lists of 2-3 values: numbers, ordinary nodes, Rational / SubRat / Polynomial / SubPoly
    instances (unnormalised fractions, nested ones), the same below ordinary parents"""
    from pymbolic.polynomial import Polynomial
    from pymbolic.rational import Rational
    nums, plain, rats, polys = own_alphabet()
    alpha = nums + plain + rats + polys
    out = []
    # exhaustive unordered pairs (each case answers both orders and both diagonals)
    for i, a in enumerate(alpha):
        for b in alpha[i:]:
            if a in nums and b in nums:
                continue
            out.append([a, b])
    # every class of the table on the right of a Rational / Polynomial
    for cls in C.all_expression_classes():
        inst = instances(cls)
        if inst:
            out.append([_rat(Rational, inst[0], 1), inst[0], _rat(Rational, inst[0], 2)])
            out.append([Polynomial(inst[0]), inst[0]])
    # what `Rational(other)` cannot divide: the comparison raises
    for r in (rats[0], rats[3], rats[6], p.Sum((rats[3], 1))):
        for v in ("abc", None, (1, 2), (X,), {"k": 1}):
            out.append([r, v])
    # outside the model: a denominator that is not a number, an int no float holds
    out += [[_rat(Rational, X, Y), X], [_rat(Rational, 2 ** 53 + 1, 1), 2 ** 53 + 1],
            [_rat(Rational, 2 ** 53, 1), 2 ** 53], [_rat(Rational, Polynomial(X), 1), Polynomial(X)]]
    # triples (transitivity), also across a subclass
    out += [[rats[16], rats[0], rats[20]], [polys[0], polys[12], polys[1]],
            [polys[2], polys[13], polys[8]], [rats[6], 2, 2.0], [rats[10], 1, True]]
    n_tri = 500 if tier == "quick" else 8000
    for _ in range(n_tri):
        out.append([rng.choice(alpha), rng.choice(rats + polys), rng.choice(alpha)])
    # below ordinary parents
    ws = wrappers()
    n_nest = 700 if tier == "quick" else 10000
    for _ in range(n_nest):
        w = rng.choice(ws)
        a = rng.choice(rats + polys)
        b = rng.choice(alpha) if rng.random() < 0.7 else rng.choice(rats + polys)
        w2 = rng.choice(ws) if rng.random() < 0.15 else w
        try:
            t = [w(a), w2(b)]
            if rng.random() < 0.3:
                t.append(w(rng.choice(alpha)))
            out.append(t)
        except Exception:       # noqa: BLE001
            pass
    return out


def _cmp_char(fn):
    try:
        r = fn()
    except TypeError:
        return "R"
    except Exception:       # noqa: BLE001
        return "E"
    if r is True:
        return "1"
    if r is False:
        return "0"
    return "N"


def own_matrices(ss):
    """`==`, `!=`, hash equality of equal values, dict lookup for all ordered pairs; the two sides
    of every pair are separately built objects"""
    A_ = [C.sx_to_obj(loads(s)) for s in ss]
    B_ = [C.sx_to_obj(loads(s)) for s in ss]
    eq, ne, hs, fd = [], [], [], []
    for a in A_:
        for b in B_:
            e = _cmp_char(lambda: a == b)       # noqa: B023
            eq.append(e)
            ne.append(_cmp_char(lambda: a != b))        # noqa: B023
            if e == "1":
                hs.append(_cmp_char(lambda: hash(a) == hash(b)))        # noqa: B023
            else:
                hs.append("-")
            fd.append(_cmp_char(lambda: b in {a: 1}))       # noqa: B023
    return f'(r "{"".join(eq)}" "{"".join(ne)}" "{"".join(hs)}" "{"".join(fd)}")'


def own_kind(s):
    h = loads(s)
    if isinstance(h, list) and h and h[0] == "inst":
        return h[1] if h[1] in ("Rational", "SubRat", "Polynomial", "SubPoly") else "node"
    return "builtin"


class OwnEqStream(TripleStream):
    """values over Rational / SubRat / Polynomial / SubPoly, numbers and ordinary nodes (also
    nested): `==`, `!=`, hash equality, dict lookup of the real objects vs `ownEq` / `ownNe` /
    `hashX` / `ownFinds` (lean/PV/Model/EqHashOwn.lean) run on the records that extract/classes.py
    reads from the source of the hand-written methods"""
    name = "own-eq-triples"
    wire = "obj"

    def cases(self, rng, tier):
        seen = set()
        for t in gen_own_cases(rng, tier):
            try:
                if any(C.has_nan_const(o) or C.has_list(o) for o in t):
                    continue
                ss = [obj_s(o) for o in t]
            except Exception:       # noqa: BLE001
                continue
            key = " ".join(ss)
            if key in seen:
                continue
            seen.add(key)
            yield {"objs": ss}

    def request(self, pl):
        return f"(c01-own {' '.join(pl['objs'])})"

    def run_impl(self, pl):
        return own_matrices(pl["objs"])

    def agree(self, model, impl, pl):
        if "(noclaim)" in model:
            return "trivial"
        try:
            m = [str(x) for x in loads(model)[1:]]
            i = [str(x) for x in loads(impl)[1:]]
        except Exception:       # noqa: BLE001
            return "diff"
        if len(m) != 4 or len(i) != 4 or any(len(a) != len(b) for a, b in zip(m, i)):
            return "diff"
        for k in range(len(m[0])):
            if m[0][k] == "?":
                continue            # this pair is outside the model (see Res.unmodelled)
            if any(m[r][k] != i[r][k] for r in range(4)):
                return "diff"
        return "ok"

    def oracle(self, pl):
        objs = [C.sx_to_obj(loads(s)) for s in pl["objs"]]
        idx = [k for k, o in enumerate(objs) if isinstance(o, p.Expression)]
        if not idx:
            return None
        return triple_oracle([objs[k] for k in idx],
                             lambda k: C.sx_to_obj(loads(pl["objs"][idx[k]])))

    def stats(self, pl, mo, io, acc):
        kinds = sorted({own_kind(s) for s in pl["objs"]})
        d = acc.setdefault("kinds", {})
        d["+".join(kinds)] = d.get("+".join(kinds), 0) + 1
        try:
            m = str(loads(io)[1])
        except Exception:       # noqa: BLE001
            m = ""
        for ch, name in (("1", "equal"), ("0", "unequal"), ("R", "raises")):
            acc[name] = acc.get(name, 0) + m.count(ch)
        if mo is not None:
            if "noclaim" in mo:
                acc["model_abstains"] = acc.get("model_abstains", 0) + 1
            else:
                acc["pairs_outside_model"] = acc.get("pairs_outside_model", 0) + mo.split('"')[1].count("?")


RAT_NUMS = [X, Y, 3, -3, 0, True, False, 2.5, p.Sum((X, 1)), "abc", None, (1, 2)]
RAT_DENS = [1, 2, -2, -1, 0, True, False, 2.0, 4, -4, 10 ** 6, X, "abc", None]


class RationalInitStream(Stream):
    """`Rational(numerator, denominator)`: what the constructor stores (it divides both by the unit
    of the denominator and reduces nothing) or which exception it raises, vs `rationalInit`"""
    name = "rational-init"

    def cases(self, rng, tier):
        from pymbolic.rational import Rational
        nums = RAT_NUMS + [_rat(Rational, X, 2)]
        for n in nums:
            for d in RAT_DENS:
                yield {"num": obj_s(n), "den": obj_s(d)}

    def request(self, pl):
        return f"(c01-rat-init {pl['num']} {pl['den']})"

    def run_impl(self, pl):
        from pymbolic.rational import Rational
        n, d = C.sx_to_obj(loads(pl["num"])), C.sx_to_obj(loads(pl["den"]))
        try:
            r = Rational(n, d)
        except Exception as ex:     # noqa: BLE001
            return f"(err {type(ex).__name__})"
        a = r.__getinitargs__()
        return f"(stored {obj_s(a[0])} {obj_s(a[1])})"

    def oracle(self, pl):
        from pymbolic.rational import Rational
        n, d = C.sx_to_obj(loads(pl["num"])), C.sx_to_obj(loads(pl["den"]))
        try:
            a, b = Rational(n, d), Rational(C.sx_to_obj(loads(pl["num"])), C.sx_to_obj(loads(pl["den"])))
        except Exception:       # noqa: BLE001
            return None
        if not (a == b) or not (b == a) or (a != b) or hash(a) != hash(b) or b not in {a}:
            return Failure("not-reflexive:Rational.__eq__", f"Rational({n!r}, {d!r}) built twice")
        return None

    def nontrivial_key(self, pl, model, impl):
        return pl["num"] + " / " + pl["den"]

    def stats(self, pl, mo, io, acc):
        k = io.split(" ")[0].strip("()") if not io.startswith("(err") else io
        acc[k] = acc.get(k, 0) + 1

# }}}


# {{{ setattr / delattr on every field of every class

NONFIELD = "zz_not_a_field"


def attr_names(o):
    """every field / init arg of the object plus the instance attributes it really has"""
    names = list(C.field_names_of(type(o)))
    for k in o.__dict__:
        if k != "_hash_value" and k not in names:
            names.append(k)
    return names


def try_rebind(o, attr, op, value=7):
    """-> ('frozen' | 'ok' | 'err:<Type>', old value or None)"""
    old = o.__dict__.get(attr, None)
    try:
        if op == "set":
            setattr(o, attr, value)
        else:
            delattr(o, attr)
    except dataclasses.FrozenInstanceError:
        return "frozen", old
    except Exception as ex:      # noqa: BLE001
        return "err:" + type(ex).__name__, old
    return "ok", old


def rebind_key(cls):
    k = C.kind_of(cls)
    if "_is_expr_dataclass" in cls.__dict__:
        return "dataclass-fields-rebindable"
    if k == "legacy":
        return "legacy-fields-rebindable"
    if k == "legacysub":
        return "legacysub-extra-fields-rebindable"
    return "alias-fields-rebindable"


class FrozenStream(Stream):
    """setattr / delattr on every field of every class of the table (and on a non-field name);
    model: `ClassTable.frozenFor` on the regenerated table"""
    name = "setattr-delattr"

    def cases(self, rng, tier):
        for cls in C.all_expression_classes():
            inst = instances(cls)
            if not inst:
                continue
            o = inst[0]
            for attr in attr_names(o) + [NONFIELD]:
                for op in ("set", "del"):
                    if op == "del" and attr == NONFIELD:
                        continue
                    yield {"obj": obj_s(o), "attr": attr, "op": op}

    def request(self, pl):
        cls = loads(pl["obj"])[1]
        return f'(c01-frozen "{cls}" "{pl["attr"]}")'

    def run_impl(self, pl):
        o = C.sx_to_obj(loads(pl["obj"]))
        res, _old = try_rebind(o, pl["attr"], pl["op"])
        isfield = pl["attr"] in C.field_names_of(type(o))
        b = lambda v: "true" if v else "false"      # noqa: E731
        if res.startswith("err:"):
            return f"({res})"
        return f"(frozen {b(res == 'frozen')} {b(isfield)})"

    def oracle(self, pl):
        o = C.sx_to_obj(loads(pl["obj"]))
        before = obj_s(o)
        twin = C.sx_to_obj(loads(pl["obj"]))
        h = hash(o)
        res, _old = try_rebind(o, pl["attr"], pl["op"], value=Z)
        if res != "ok":
            # the attempt raised: fields, equality class and hash are what they were
            if obj_s(o) != before or hash(o) != h or not (o == twin):
                return Failure("raised-but-changed", f"{pl}")
            return None
        try:
            after = obj_s(o)
        except Exception:
            after = "<unreadable>"
        if after != before:
            # a field was rebound (or deleted) without an exception
            stale = ""
            if pl["op"] == "set":
                try:
                    fresh = C.sx_to_obj(loads(after))
                    stale = (f"; afterwards == a freshly built equal object: {o == fresh}, "
                             f"hash equal: {hash(o) == hash(fresh)}")
                except Exception:
                    pass
            return Failure(rebind_key(type(o)),
                           f"{pl['op']}attr({before}, {pl['attr']!r}) went through{stale}")
        return None

    def nontrivial_key(self, pl, model, impl):
        return json.dumps(pl, sort_keys=True)

    def stats(self, pl, mo, io, acc):
        acc[io] = acc.get(io, 0) + 1

# }}}


# {{{ histories

class VarCopyMapper:
    """IdentityMapper whose leaves are rebuilt: a copy of every node above a variable"""
    _inst = None

    @classmethod
    def get(cls):
        if cls._inst is None:
            from pymbolic.mapper import IdentityMapper

            class M(IdentityMapper):
                def map_variable(self, expr, *a, **k):
                    return p.Variable(expr.name)
            cls._inst = M()
        return cls._inst


def try_map(mapper, o):
    """generation-time probe: what the mapper returns for a separately built copy of `o` (None when
    it raises; the identity mapper returns its argument: reported as `o`)"""
    from pymbolic.mapper import IdentityMapper
    probe = C.rebuild(o)
    try:
        r = (mapper or IdentityMapper())(probe)
    except Exception:       # noqa: BLE001
        return None
    return o if r is probe else r


def stock_only(o) -> bool:
    if isinstance(o, p.Expression):
        if type(o).__module__ != "pymbolic.primitives":
            return False
        return all(stock_only(c) for c in C.fields_of(o))
    if isinstance(o, (tuple, list)):
        return all(stock_only(c) for c in o)
    if isinstance(o, Mapping):
        return all(stock_only(c) for c in o.values())
    return True


def b(v):
    return "true" if v else "false"


class Hist:
    """executes a history on real objects; `replies` in the model's output format"""

    def __init__(self, pool_sx):
        self.pool = [C.sx_to_obj(loads(s)) for s in pool_sx]
        self.blobs = []
        self.d = {}

    def bits(self, i):
        return C.bits(self.pool[i])

    def step(self, op):
        k = op[0]
        P = self.pool
        if k == "hash":
            o = P[op[1]]
            h = hash(o)
            fresh = C.rebuild(o)
            return f"(hash {b(h == hash(fresh))} {self.bits(op[1])})"
        if k in ("eq", "ne"):
            r = (P[op[1]] == P[op[2]]) if k == "eq" else (P[op[1]] != P[op[2]])
            return f"({k} {b(r)} {self.bits(op[1])} {self.bits(op[2])})"
        if k == "member":
            r1 = P[op[1]] in {P[op[2]]}
            r2 = P[op[1]] in {P[op[2]]: 1}
            if r1 != r2:
                return "(member set-and-dict-disagree)"
            return f"(member {b(r1)} {self.bits(op[1])} {self.bits(op[2])})"
        if k == "pickle":
            self.blobs.append(pickle.dumps(P[op[1]], op[2]))
            return "(pickled)"
        if k == "unpickle":
            P.append(pickle.loads(self.blobs[op[1]]))
            return f"(unpickled {self.bits(len(P) - 1)})"
        if k == "copy":
            o = P[op[1]]
            if op[2] == "replace":
                n = dataclasses.replace(o)
            elif op[2] == "initargs":
                n = type(o)(*o.__getinitargs__())
            elif op[2] == "shallow":
                n = copy.copy(o)
            elif op[2] == "deep":
                # every node is new: the model's `rebuild`
                P.append(copy.deepcopy(o))
                return f"(rebuilt {self.bits(len(P) - 1)})"
            else:
                n = VarCopyMapper.get()(o)
            if n is o:
                return "(same)"
            P.append(n)
            return f"(copied {self.bits(len(P) - 1)})"
        if k == "rebuild":
            P.append(C.rebuild(P[op[1]]))
            return f"(rebuilt {self.bits(len(P) - 1)})"
        if k == "map":
            from pymbolic.mapper import IdentityMapper
            n = IdentityMapper()(P[op[1]])
            if n is P[op[1]]:
                return "(same)"
            P.append(n)
            return f"(copied {self.bits(len(P) - 1)})"
        if k == "dset":
            o = P[op[1]]
            replaced = o in self.d
            self.d[o] = op[2]
            return f"(dset {b(replaced)} {self.bits(op[1])})"
        if k == "dget":
            v = self.d.get(P[op[1]])
            return f"(dget {'none' if v is None else v} {self.bits(op[1])})"
        if k in ("setattr", "delattr"):
            o = P[op[1]]
            isfield = op[2] in C.field_names_of(type(o))
            val = C.sx_to_obj(loads(op[3])) if k == "setattr" else None
            res, old = try_rebind(o, op[2], "set" if k == "setattr" else "del", val)
            if res == "frozen":
                return "(frozen)"
            if res != "ok":
                return f"({res})"
            if k == "setattr":
                return f"(attrset {b(isfield)} {self.bits(op[1])})"
            object.__setattr__(o, op[2], old)        # put the attribute back
            return f"(attrdel {b(isfield)})"
        raise ValueError(k)


def op_req(op):
    if op[0] == "copy":
        return f"(rebuild {op[1]})" if op[2] == "deep" else f"(copy {op[1]})"
    if op[0] == "setattr":
        return f'(setattr {op[1]} "{op[2]}" {op[3]})'
    if op[0] == "delattr":
        return f'(delattr {op[1]} "{op[2]}")'
    return "(" + " ".join(str(x) for x in op) + ")"


def touched(op, npool):
    """pool indices whose slot strings the reply to `op` carries, in order; new pool size"""
    k = op[0]
    if k in ("hash", "dset", "dget", "setattr"):
        return [op[1]], npool
    if k in ("eq", "ne", "member"):
        return [op[1], op[2]], npool
    if k in ("unpickle", "copy", "rebuild"):
        return [npool], npool + 1
    return [], npool


def normalise(reply: str, pl) -> str:
    """Slot strings of objects that share children with another pool object (source and result of
    a shallow copy) are compared at the top-level slot only: the Lean model is a forest of trees
    and does not represent sharing below the top node.  After a `setattr` went through on a field
    of an object (only possible on legacy classes: a finding) its slot pattern is no longer
    compared: the model's nested comparisons are pure, which is exact only while no field was
    rebound.  The ANSWERS are compared in every case."""
    if not reply.startswith("(("):
        return reply
    items = loads(reply)
    npool = len(pl["pool"])
    tainted = set()
    rebound = set()
    out = []
    for op, it in zip(pl["ops"], items):
        idx, npool2 = touched(op, npool)
        head = str(it[0])
        if op[0] == "copy" and head == "copied":
            tainted.add(op[1])
            tainted.add(npool)
        if head in ("same", "bad", "frozen", "attrdel", "pickled") or head.startswith("err:"):
            idx, npool2 = [], npool
        bit_atoms = [x for x in it[1:] if isinstance(x, Atom) and str(x).startswith("b")
                     and set(str(x)[1:]) <= {"0", "1"}]
        if len(bit_atoms) == len(idx):
            new = []
            bi = 0
            for x in it[1:]:
                if bi < len(idx) and x is bit_atoms[bi]:
                    s = str(x)
                    if idx[bi] in rebound:
                        s = "b?"
                    elif idx[bi] in tainted:
                        s = s[:2] + "*"
                    new.append(A(s))
                    bi += 1
                else:
                    new.append(x)
            it = [it[0]] + new
        if head == "attrset" and len(it) > 1 and str(it[1]) == "true":
            rebound.add(op[1])
        if head in ("copied", "unpickled", "rebuilt"):
            npool = npool2
        out.append(it)
    return dumps(out)


def user_and_stock_objects(rng, g):
    classes = [c for c in C.all_expression_classes() if special_instances(c) is None]
    c = rng.choice(classes)
    inst = instances(c)
    return rng.choice(inst) if inst else X


def gen_pool_obj(rng, g):
    k = rng.random()
    if k < 0.45:
        e = g.gen(rng.choice(["num", "any", "bool", "int"]), rng.randint(1, 4))
        if not isinstance(e, p.Expression):
            e = p.Call(F, (e,))
    else:
        e = user_and_stock_objects(rng, g)
    if rng.random() < 0.3:
        try:
            e = rng.choice(wrappers())(e)
        except Exception:
            pass
    if C.has_nan_const(e) or C.has_list(e):
        return X
    return e


SET_VALUES = [dumps(C.obj_to_sx(7)), dumps(C.obj_to_sx(Z)), dumps(C.obj_to_sx((X, 2)))]


def mutate_one_field(rng, o):
    """an object differing from `o` in exactly one (top-level) field, or None"""
    if special_instances(type(o)) is not None:
        return None
    names = C.field_names_of(type(o))
    if not names:
        return None
    i = rng.randrange(len(names))
    args = list(C.fields_of(o))
    cands = [w for w in candidates(type(o), names[i], i) if not C.struct_eq(w, args[i])]
    if not cands:
        return None
    args[i] = rng.choice(cands)
    return build(type(o), args)


def gen_history(rng, g, maxlen):
    base = [gen_pool_obj(rng, g) for _ in range(rng.randint(1, 3))]
    pool = [obj_s(o) for o in base]
    for o in base:
        k = rng.random()
        if k < 0.35:
            pool.append(obj_s(o))                                       # equal, separately built
        elif k < 0.6:
            pool.append(dumps(eq_variant(rng, C.obj_to_sx(o))))         # == but not identical
        elif k < 0.8:
            m = mutate_one_field(rng, o)
            if m is not None and not C.has_list(m):
                pool.append(obj_s(m))                                   # differs in one field
    pool = [dumps(source_variant(rng, loads(s), 0.3)) for s in pool]
    h = Hist(pool)
    ops = []
    nblobs = 0
    for _ in range(rng.randint(3, maxlen)):
        n = len(h.pool)
        i = rng.randrange(n)
        j = rng.randrange(n)
        o = h.pool[i]
        k = rng.random()
        if k < 0.16:
            op = ["hash", i]
        elif k < 0.30:
            op = ["eq", i, j]
        elif k < 0.38:
            op = ["ne", i, j]
        elif k < 0.46:
            op = ["member", i, j]
        elif k < 0.55:
            op = ["dset", i, rng.randint(0, 9)]
        elif k < 0.64:
            op = ["dget", i]
        elif k < 0.72:
            if n >= 10:
                continue
            kinds = ["initargs", "shallow", "deep"]
            if C.kind_of(type(o)) == "dataclass":
                kinds.append("replace")
            if stock_only(o) and C.struct_eq(try_map(VarCopyMapper.get(), o), o):
                kinds.append("varmapper")
            op = ["copy", i, rng.choice(kinds)]
        elif k < 0.76:
            if n >= 10:
                continue
            op = ["rebuild", i]
        elif k < 0.80:
            if not stock_only(o) or try_map(None, o) is not o:
                continue
            op = ["map", i]
        elif k < 0.85:
            op = ["pickle", i, rng.randint(0, pickle.HIGHEST_PROTOCOL)]
        elif k < 0.90:
            if nblobs == 0 or n >= 10:
                continue
            op = ["unpickle", rng.randrange(nblobs)]
        elif k < 0.96:
            names = attr_names(o) + [NONFIELD]
            op = ["setattr", i, rng.choice(names), rng.choice(SET_VALUES)]
        else:
            names = attr_names(o)
            if not names:
                continue
            op = ["delattr", i, rng.choice(names)]
        try:
            r = h.step(op)
        except Exception:
            break           # the real objects cannot go on (e.g. a mapper that does not know a class)
        if op[0] == "copy" and r == "(same)":
            op = ["map", i] if stock_only(o) else None
            if op is None:
                continue
        if r.startswith("(err:"):
            break
        if op[0] == "pickle":
            nblobs += 1
        ops.append(op)
    return {"pool": pool, "ops": ops}


def hist_oracle(pl):
    """the property on a history, with fresh structural answers as the reference"""
    h = Hist(pl["pool"])
    snap = [obj_s(o) for o in h.pool]
    first_hash = {}
    ref_dict = []          # (key index, value): reference dict by structural equality
    rebound = {}           # index -> failure key

    def blame(idx, key, detail):
        for i in idx:
            if i in rebound:
                return Failure(rebound[i], f"after a field was rebound: {detail}", pl)
        return Failure(key, detail, pl)

    for step, op in enumerate(pl["ops"]):
        k = op[0]
        P = h.pool
        n0 = len(P)
        try:
            r = h.step(op)
        except Exception as ex:     # noqa: BLE001
            return blame([x for x in op[1:3] if isinstance(x, int)], f"history-raises:{type(ex).__name__}",
                         f"step {step} {op}: {ex}")
        it = loads(r)
        if k == "hash":
            i = op[1]
            hv = hash(P[i])
            if str(it[1]) != "true":
                return blame([i], f"hash-differs-from-fresh:{culprit(P[i])}", f"step {step} {op}")
            if i in first_hash and first_hash[i] != hv:
                return blame([i], f"hash-changed:{culprit(P[i])}", f"step {step} {op}")
            first_hash.setdefault(i, hv)
        elif k in ("eq", "ne", "member"):
            i, j = op[1], op[2]
            want = C.struct_eq(P[i], P[j])
            got = str(it[1]) == "true"
            if k == "ne":
                got = not got
            if got != want:
                return blame([i, j], f"{k}-not-structural:{deep_culprit(P[i], P[j])}",
                             f"step {step} {op}: answer {it[1]}, structural equality {want}")
        elif k in ("copy", "rebuild", "unpickle", "map"):
            if len(P) > n0:
                src = None if k == "unpickle" else op[1]
                new = P[-1]
                snap.append(obj_s(new))
                if src is not None:
                    a = P[src]
                    if not C.struct_eq(a, new) or not (a == new) or not (new == a) or hash(a) != hash(new):
                        return blame([src], f"copy-not-equal:{culprit(a)}", f"step {step} {op}")
                    first_hash.setdefault(src, hash(a))
                    first_hash.setdefault(len(P) - 1, hash(new))
        elif k == "dset":
            i = op[1]
            hit = next((e for e in ref_dict if C.struct_eq(P[e[0]], P[i])), None)
            if (hit is not None) != (str(it[1]) == "true"):
                return blame([i] + [e[0] for e in ref_dict], f"dict-key-not-structural:{culprit(P[i])}",
                             f"step {step} {op}: replaced {it[1]}, structurally equal key present: {hit is not None}")
            if hit is not None:
                hit[1] = op[2]
            else:
                ref_dict.append([i, op[2]])
        elif k == "dget":
            i = op[1]
            hit = next((e for e in ref_dict if C.struct_eq(P[e[0]], P[i])), None)
            want = "none" if hit is None else str(hit[1])
            if str(it[1]) != want:
                return blame([i] + [e[0] for e in ref_dict], f"dict-key-not-structural:{culprit(P[i])}",
                             f"step {step} {op}: got {it[1]}, by structural equality {want}")
        elif k in ("setattr", "delattr"):
            i = op[1]
            if str(it[0]) in ("attrset", "attrdel"):
                now = obj_s(P[i])
                if now != snap[i] or (k == "delattr" and op[2] in C.field_names_of(type(P[i]))):
                    key = rebind_key(type(P[i]))
                    rebound[i] = key
                    return Failure(key, f"step {step}: {k}({snap[i]}, {op[2]!r}) went through", pl)
        # fields never change
        for i, o in enumerate(P):
            if i < len(snap) and i not in rebound and obj_s(o) != snap[i]:
                return Failure(f"fields-changed:{type(o).__name__}", f"step {step} {op}: {snap[i]} -> {obj_s(o)}", pl)
    return None


class HistoryStream(Stream):
    """random histories; model: `run1` on the regenerated class table"""
    name = "histories"

    def cases(self, rng, tier):
        n = 450 if tier == "quick" else 6000
        maxlen = 40 if tier == "quick" else 400
        g = ExprGen(rng, lists=False, foreign=False, cse=0.1, floats=0.05, malformed=0.0)
        for i in range(n):
            yield gen_history(rng, g, maxlen if i % 3 else 12)
        # directed: every class, hashed, copied, compared, used as key, rebinding attempted
        for cls in C.all_expression_classes():
            if special_instances(cls) is not None:
                continue
            inst = instances(cls)
            if not inst:
                continue
            s = obj_s(inst[0])
            other = obj_s(inst[1]) if len(inst) > 1 else s
            names = attr_names(inst[0])
            ops = [["hash", 0], ["copy", 0, "initargs"], ["eq", 3, 1], ["ne", 3, 2], ["dset", 0, 1],
                   ["dget", 1], ["dget", 2], ["member", 3, 0], ["pickle", 3, 2], ["unpickle", 0],
                   ["eq", 4, 0], ["rebuild", 4], ["hash", 5]]
            for a in names:
                ops += [["setattr", 1, a, SET_VALUES[1]], ["eq", 1, 0], ["delattr", 1, a], ["hash", 1]]
            yield {"pool": [s, s, other], "ops": ops}

    def request(self, pl):
        return f"(c01-hist 3 ({' '.join(pl['pool'])}) ({' '.join(op_req(op) for op in pl['ops'])}))"

    def run_impl(self, pl):
        h = Hist(pl["pool"])
        out = []
        for op in pl["ops"]:
            out.append(h.step(op))
        return "(" + " ".join(out) + ")"

    def agree(self, model, impl, pl):
        if "(noclaim)" in model:
            return "trivial"
        try:
            return "ok" if normalise(model, pl) == normalise(impl, pl) else "diff"
        except Exception:
            return "diff"

    def oracle(self, pl):
        return hist_oracle(pl)

    def shrink(self, pl):
        ops = pl["ops"]
        for cut in range(len(ops)):
            cand = ops[:cut] + ops[cut + 1:]
            if valid_history(pl["pool"], cand):
                yield {"pool": pl["pool"], "ops": cand}

    def nontrivial_key(self, pl, model, impl):
        return json.dumps(pl, sort_keys=True) if len(pl["ops"]) >= 2 else None

    def stats(self, pl, mo, io, acc):
        acc["ops"] = acc.get("ops", 0) + len(pl["ops"])
        acc["max_len"] = max(acc.get("max_len", 0), len(pl["ops"]))
        d = acc.setdefault("op_kinds", {})
        for op in pl["ops"]:
            k = op[0] + (":" + op[2] if op[0] == "copy" else "")
            d[k] = d.get(k, 0) + 1
        out = acc.setdefault("outcomes", {})
        for key in ("(frozen)", "(attrset true", "(attrset false", "(attrdel", "(same)", "(dget none",
                    "(dset true", "(eq true", "(eq false", "(member true"):
            out[key] = out.get(key, 0) + io.count(key)


def valid_history(pool, ops):
    """indices stay in range when an operation is removed"""
    n, nb = len(pool), 0
    for op in ops:
        k = op[0]
        idx = [x for x in op[1:3] if isinstance(x, int)] if k in ("eq", "ne", "member") else (
            [op[1]] if k != "unpickle" else [])
        if any(i >= n for i in idx):
            return False
        if k == "unpickle":
            if op[1] >= nb:
                return False
            n += 1
        elif k == "pickle":
            nb += 1
        elif k in ("copy", "rebuild"):
            n += 1
    return True

# }}}


# {{{ interpreter modes: default (`__debug__` true) and `python -O`

def launch_mode_worker(optimized, job):
    """run harness/c01_worker.py on `job` in a fresh interpreter (`-O` when `optimized`); both modes
    get the same fixed PYTHONHASHSEED (hash values are compared between them); -> its result dict"""
    import os
    import subprocess
    import sys
    import tempfile

    from ..leanio import VERIF
    pp = os.pathsep.join([VERIF] + [x for x in os.environ.get("PYTHONPATH", "").split(os.pathsep)
                                    if x and x != VERIF])
    seed = os.environ.get("PYTHONHASHSEED", "0")
    env = {"PYTHONHASHSEED": seed if seed.isdigit() else "0", "PYTHONPATH": pp,
           "PATH": os.environ.get("PATH", "/usr/bin:/bin"), "HOME": os.environ.get("HOME", "/tmp")}
    with tempfile.TemporaryDirectory(prefix="c01-") as td:
        jobfile, outfile = os.path.join(td, "job.json"), os.path.join(td, "out.json")
        with open(jobfile, "w") as f:
            json.dump(job, f)
        cmd = [sys.executable] + (["-O"] if optimized else []) + ["-m", "harness.c01_worker", jobfile, outfile]
        pr = subprocess.run(cmd, env=env, cwd=VERIF, capture_output=True, text=True, timeout=1500)
        if pr.returncode != 0:
            raise RuntimeError(f"c01 worker (optimized={optimized}) failed: {pr.stderr[-1500:]}")
        with open(outfile) as f:
            res = json.load(f)
    if res["debug"] == optimized:
        raise RuntimeError("c01 worker did not run in the requested interpreter mode")
    return res


def rebindable_expr_attrs(o):
    """fields of `o` holding an expression or a number (rebinding them to another expression
    leaves an object that can be rebuilt from source)"""
    names = C.field_names_of(type(o))
    vals = C.fields_of(o)
    return [n for n, v in zip(names, vals)
            if isinstance(v, (p.Expression, int, float)) and not isinstance(v, bool)]


class ModeBatch:
    """all payloads of one run of the mode stream, executed once in two worker processes"""

    def __init__(self):
        self.payloads = []
        self.results = None
        self.launches = 0

    def job(self, payloads):
        job = {"attr": [], "hist": [], "objs": []}
        index = []
        for pl in payloads:
            k = pl["k"]
            index.append((k, len(job[k])))
            if k == "attr":
                job[k].append({"obj": pl["obj"], "attr": pl["attr"], "op": pl["op"]})
            elif k == "hist":
                job[k].append({"pool": pl["pool"], "ops": pl["ops"], "oracle": pl["oracle"]})
            else:
                job[k].append({"objs": pl["objs"]})
        return job, index

    def run(self, payloads):
        job, index = self.job(payloads)
        res = {}
        need = {pl["debug"] for pl in payloads if pl["k"] != "objs"}
        if any(pl["k"] == "objs" for pl in payloads):
            need |= {True, False}
        for debug in sorted(need):
            res[debug] = launch_mode_worker(not debug, job)
            self.launches += 1
        return res, index

    def lookup(self, pl):
        """-> (result of the default-mode worker or None, of the -O worker or None, kind, position)"""
        key = json.dumps(pl, sort_keys=True)
        if self.results is None and self.payloads:
            self.results = self.run(self.payloads)
            self.keys = {json.dumps(q, sort_keys=True): i for i, q in enumerate(self.payloads)}
        if self.results is not None and key in self.keys:
            res, index = self.results
            k, pos = index[self.keys[key]]
        else:       # replay / shrinking: a batch of one
            res, index = self.run([pl])
            k, pos = index[0]
        return res.get(True), res.get(False), k, pos


MODES = ModeBatch()


class ModeStream(Stream):
    """the same attempts, histories and comparisons in a default-mode interpreter and under
    `python -O` (worker processes, harness/c01_worker.py):
      attr   setattr / delattr on every field of every class, in both modes, vs
             `frozenFor` on `ClassTable.inMode` (the decorator's `frozen=__debug__` read from source)
      hist   histories under `-O`: with a rebinding that goes through (hash, rebind, rebuild, compare:
             the stale cached hash) and random ones without rebinding attempts, vs `run1D … false`
      objs   `==`, `!=`, hash equality AND the hash values of untouched objects: the two modes must
             agree with each other and with the model (hash values: unless a type object is hashed)"""
    name = "interpreter-modes"

    def cases(self, rng, tier):
        out = []
        fs = FrozenStream()
        for pl in fs.cases(rng, tier):
            for debug in (True, False):
                out.append({"k": "attr", "debug": debug, **pl})
        # -O: a field of a hashed object is rebound, then the object is compared with a fresh one
        for cls in C.all_expression_classes():
            if special_instances(cls) is not None:
                continue
            inst = instances(cls)
            if not inst:
                continue
            s = obj_s(inst[0])
            for a in rebindable_expr_attrs(inst[0]):
                ops = [["hash", 1], ["setattr", 1, a, SET_VALUES[1]], ["rebuild", 1], ["eq", 1, 2],
                       ["member", 2, 1], ["ne", 2, 1], ["hash", 2], ["dset", 2, 5], ["dget", 1], ["eq", 0, 1]]
                for debug in (True, False):
                    out.append({"k": "hist", "debug": debug, "oracle": False, "pool": [s, s], "ops": ops})
        # -O: random histories without rebinding attempts
        n = 60 if tier == "quick" else 1500
        g = ExprGen(rng, lists=False, foreign=False, cse=0.1, floats=0.05, malformed=0.0)
        for _ in range(n):
            h = gen_history(rng, g, 25 if tier == "quick" else 120)
            ops = h["ops"]
            while True:
                cut = next((i for i, op in enumerate(ops) if op[0] in ("setattr", "delattr")), None)
                if cut is None:
                    break
                ops = ops[:cut] + ops[cut + 1:]
            if ops and valid_history(h["pool"], ops):
                out.append({"k": "hist", "debug": False, "oracle": True, "pool": h["pool"], "ops": ops})
        # untouched objects in both modes
        seen = set()
        n_obj = 250 if tier == "quick" else 4000
        trip = gen_triples(rng, "quick")
        rng.shuffle(trip)
        for t in trip:
            ss = [obj_s(o) for o in t]
            key = " ".join(ss)
            if key in seen:
                continue
            seen.add(key)
            out.append({"k": "objs", "debug": None, "objs": ss})
            if len(seen) >= n_obj:
                break
        MODES.payloads = out
        MODES.results = None
        return out

    def request(self, pl):
        if pl["k"] == "attr":
            cls = loads(pl["obj"])[1]
            return f'(c01-frozen-mode {b(pl["debug"])} "{cls}" "{pl["attr"]}")'
        if pl["k"] == "hist":
            return (f"(c01-hist-mode {b(pl['debug'])} 3 ({' '.join(pl['pool'])}) "
                    f"({' '.join(op_req(op) for op in pl['ops'])}))")
        return f"(c01-objs {' '.join(pl['objs'])})"

    def run_impl(self, pl):
        dflt, opt, k, pos = MODES.lookup(pl)
        if k == "attr":
            return (dflt if pl["debug"] else opt)["attr"][pos]
        if k == "hist":
            return (dflt if pl["debug"] else opt)["hist"][pos]["reply"]
        a, o = dflt["objs"][pos], opt["objs"][pos]
        if a["m"] != o["m"]:
            return f"(modes-differ {a['m']} {o['m']})"
        # hash VALUES are comparable between the two processes (same PYTHONHASHSEED) unless a type
        # object is hashed (`NaN(data_type)`: `hash(int)` is address-based)
        if a["hashes"] != o["hashes"] and not any("<type:" in s for s in pl["objs"]):
            return "(modes-differ hash-values)"
        return a["m"]

    def agree(self, model, impl, pl):
        if "(noclaim)" in model:
            return "trivial"
        if pl["k"] == "hist":
            try:
                return "ok" if normalise(model, pl) == normalise(impl, pl) else "diff"
            except Exception:       # noqa: BLE001
                return "diff"
        return "ok" if model == impl else "diff"

    def oracle(self, pl):
        dflt, opt, k, pos = MODES.lookup(pl)
        if k == "attr":
            if not pl["debug"]:
                return None          # the property speaks about the default mode only
            res = dflt["attr"][pos]
            o = C.sx_to_obj(loads(pl["obj"]))
            isfield = pl["attr"] in C.field_names_of(type(o))
            if res.startswith("(frozen false") and (isfield or pl["op"] == "del"):
                return Failure(rebind_key(type(o)),
                               f"default mode (worker process): {pl['op']}attr({pl['obj']}, {pl['attr']!r}) went through")
            return None
        if k == "hist":
            f = (dflt if pl["debug"] else opt)["hist"][pos]["fail"]
            return None if f is None else Failure(f[0], f"under python -O: {f[1]}", pl)
        for mode, r in (("default mode", dflt), ("python -O", opt)):
            f = r["objs"][pos]["fail"]
            if f is not None:
                return Failure(f[0], f"{mode} (worker process): {f[1]}", pl)
        if dflt["objs"][pos]["m"] != opt["objs"][pos]["m"]:
            return Failure("modes-disagree-on-equality", f"{pl['objs']}: default {dflt['objs'][pos]['m']}, "
                           f"-O {opt['objs'][pos]['m']}")
        return None

    def shrink(self, pl):
        if pl["k"] == "hist":
            ops = pl["ops"]
            for cut in range(len(ops)):
                cand = ops[:cut] + ops[cut + 1:]
                if valid_history(pl["pool"], cand):
                    yield {**pl, "ops": cand}
        elif pl["k"] == "objs" and len(pl["objs"]) > 2:
            ss = pl["objs"]
            for i in range(len(ss)):
                for j in range(len(ss)):
                    if i != j:
                        yield {**pl, "objs": [ss[i], ss[j]]}

    def nontrivial_key(self, pl, model, impl):
        return json.dumps(pl, sort_keys=True)

    def stats(self, pl, mo, io, acc):
        k = pl["k"] + ("" if pl["debug"] is None else (":default" if pl["debug"] else ":-O"))
        acc[k] = acc.get(k, 0) + 1
        if pl["k"] == "attr":
            d = acc.setdefault("attr_outcomes", {})
            key = ("default " if pl["debug"] else "-O ") + io
            d[key] = d.get(key, 0) + 1
        if pl["k"] == "hist" and not pl["debug"]:
            acc["rebinds_under_O"] = acc.get("rebinds_under_O", 0) + io.count("(attrset true")
            acc["stale_eq_false_under_O"] = acc.get("stale_eq_false_under_O", 0) + (
                1 if "(attrset true" in io and "(eq false" in io else 0)
        acc["worker_launches"] = MODES.launches

# }}}


# {{{ second-process leg: pickles written here, read under another string-hash seed (and back)

def worker_env(hashseed):
    """environment of a C01 worker process: this copy of the framework first on PYTHONPATH, the
    given PYTHONHASHSEED"""
    import os

    from ..leanio import VERIF
    pp = os.pathsep.join([VERIF] + [x for x in os.environ.get("PYTHONPATH", "").split(os.pathsep)
                                    if x and x != VERIF])
    return {"PYTHONHASHSEED": str(hashseed), "PYTHONPATH": pp,
            "PATH": os.environ.get("PATH", "/usr/bin:/bin"), "HOME": os.environ.get("HOME", "/tmp")}


def other_hash_seeds():
    """two PYTHONHASHSEED values that differ from this process's (fixed: the run is deterministic)"""
    import os
    mine = os.environ.get("PYTHONHASHSEED", "random")
    return [s for s in ("1", "2", "3") if s != mine][:2]


class Reader:
    """one persistent reader process (harness/c01_xworker.py): a request line in, a reply line out"""

    def __init__(self, hashseed, optimized):
        import subprocess
        import sys

        from ..leanio import VERIF
        self.cfg = f"PYTHONHASHSEED={hashseed}{' -O' if optimized else ''}"
        cmd = [sys.executable] + (["-O"] if optimized else []) + ["-m", "harness.c01_xworker"]
        import tempfile
        self.errfile = tempfile.TemporaryFile(mode="w+")       # no pipe that could fill up
        self.proc = subprocess.Popen(cmd, env=worker_env(hashseed), cwd=VERIF, stdin=subprocess.PIPE,
                                     stdout=subprocess.PIPE, stderr=self.errfile, text=True)
        hello = self._readline()
        if hello["hash_probe"] == hash(XW.HASH_PROBE):
            raise RuntimeError(f"c01 reader {self.cfg} has the string-hash seed of this process")
        if hello["debug"] == optimized:
            raise RuntimeError(f"c01 reader {self.cfg} did not start in the requested mode")

    def _readline(self):
        line = self.proc.stdout.readline()
        if not line:
            err = ""
            try:
                self.proc.wait(timeout=5)
                self.errfile.seek(0)
                err = self.errfile.read()[-1500:]
            except Exception:       # noqa: BLE001
                pass
            raise RuntimeError(f"c01 reader {self.cfg} ended: {err}")
        return json.loads(line)

    def ask(self, rq):
        self.proc.stdin.write(json.dumps(rq) + "\n")
        self.proc.stdin.flush()
        res = self._readline()
        if "worker_error" in res:
            raise RuntimeError(f"c01 reader {self.cfg}: {res['worker_error']}")
        return res

    def close(self):
        try:
            self.proc.stdin.close()
            self.proc.wait(timeout=10)
        except Exception:       # noqa: BLE001
            self.proc.kill()
        for f in (self.proc.stdout, self.errfile):
            try:
                f.close()
            except Exception:       # noqa: BLE001
                pass


class Readers:
    """the reader processes of a run: one under another PYTHONHASHSEED (quick), a second one under
    a third seed and `python -O` in the thorough tier; started on first use, closed at exit"""

    def __init__(self):
        self.tier = "quick"
        self.live = None
        self.cache = {}
        self.launches = 0

    def reset(self, tier):
        if tier != self.tier:
            self.close()
        self.tier = tier
        self.cache = {}

    def get(self):
        if self.live is None:
            import atexit
            seeds = other_hash_seeds()
            cfgs = [(seeds[0], False)] + ([(seeds[1], True)] if self.tier == "thorough" else [])
            self.live = [Reader(s, o) for s, o in cfgs]
            self.launches += len(self.live)
            atexit.register(self.close)
        return self.live

    def close(self):
        for r in self.live or []:
            r.close()
        self.live = None


READERS = Readers()


def sub_expressions(o):
    """the Expression instances strictly below `o`, preorder"""
    out = []

    def rec(v, top):
        if isinstance(v, p.Expression):
            if not top:
                out.append(v)
            for c in C.fields_of(v):
                rec(c, False)
        elif isinstance(v, (tuple, list)):
            for c in v:
                rec(c, False)
        elif isinstance(v, Mapping):
            for c in v.values():
                rec(c, False)

    rec(o, True)
    return out


class XHist(Hist):
    """`Hist` plus `["subhash", i, k]`: hash only the k-th node strictly below pool object i"""

    def step(self, op):
        if op[0] == "subhash":
            subs = sub_expressions(self.pool[op[1]])
            if subs:
                hash(subs[op[2] % len(subs)])
            return "(subhash)"
        return super().step(op)


def strip_rebinding(pool, ops):
    """the history without its setattr / delattr attempts (a rebinding that goes through leaves a
    stale hash in THIS process: the known findings `…-fields-rebindable`, reported elsewhere)"""
    ops = [op for op in ops if op[0] not in ("setattr", "delattr")]
    return ops if valid_history(pool, ops) else None


def pool_size_after(pool, ops):
    n = len(pool)
    for op in ops:
        if op[0] in ("unpickle", "copy", "rebuild"):
            n += 1
    return n


class CrossProcessStream(Stream):
    """A history runs HERE (hash / == / dict / copies / pickle round trips / hashing of a sub-node
    only, or nothing at all); then chosen pool objects are pickled (every protocol) and handed,
    with their source S-expression, to a reader process running under a DIFFERENT string-hash
    seed, which loads them, builds the same tree from source, and reports `==` / `!=` / hash
    equality / dict and set membership in both directions and which `_hash_value` slots arrived
    (harness/c01_xworker.py: `facts`).  The reader hashes its own tree and sends a pickle back:
    the same facts are taken in this process for the opposite direction.

    Oracle: the property's words only -- a loaded node has the class and fields of its source, so it
    is equal to the structurally identical local tree (both ways, `!=` false), hashes equal, and
    either finds the other as dict / set key.  Keys: `pickled-hash-stale:<class>` (the innermost
    node that arrived with a cached hash differing from its local counterpart's hash),
    `pickled-hash-differs:<class>`, `pickled-not-interchangeable:<class>`,
    `pickled-fields-differ:<class>`.  That a cached hash travels is recorded (stats), not demanded
    against: only its being observable is a violation."""
    name = "cross-process-hash"
    has_model = False

    MODES = ("none", "hash", "sub", "eq", "key", "shallow", "deep", "roundtrip")

    def directed(self, s, mode, rng, protos):
        k = rng.randrange(64)
        if mode == "none":
            return {"pool": [s], "ops": [], "dump": [[0, q] for q in protos]}
        if mode == "hash":
            return {"pool": [s], "ops": [["hash", 0]], "dump": [[0, q] for q in protos]}
        if mode == "sub":
            return {"pool": [s], "ops": [["subhash", 0, k]], "dump": [[0, q] for q in protos]}
        if mode == "eq":
            return {"pool": [s, s], "ops": [["eq", 0, 1]], "dump": [[k % 2, q] for q in protos]}
        if mode == "key":
            return {"pool": [s, s], "ops": [["dset", 0, 1], ["dget", 1]], "dump": [[k % 2, q] for q in protos]}
        if mode in ("shallow", "deep"):
            return {"pool": [s], "ops": [["hash", 0], ["copy", 0, mode]], "dump": [[1, q] for q in protos]}
        return {"pool": [s], "ops": [["hash", 0], ["pickle", 0, protos[0]], ["unpickle", 0], ["subhash", 1, k]],
                "dump": [[1, q] for q in protos]}

    def cases(self, rng, tier):
        READERS.reset(tier)
        allp = list(range(pickle.HIGHEST_PROTOCOL + 1))
        ws = wrappers()
        out = []
        for cls in C.all_expression_classes():
            inst = instances(cls)
            if not inst:
                continue
            if special_instances(cls) is not None:
                # Polynomial / Rational and their subclasses: `pickle.loads` of their pickles raises
                # (Expression.__setstate__ needs init_arg_names): one case each, for the record
                out.append(self.directed(obj_s(inst[0]), "hash", rng, [rng.choice(allp)]))
                continue
            base = obj_s(inst[0])
            out.append(self.directed(base, "hash", rng, allp))
            out.append(self.directed(base, "none", rng, allp))
            n_more = 8 if tier == "quick" else 40
            for _ in range(n_more):
                o = rng.choice(inst)
                if rng.random() < 0.4:
                    try:
                        o = rng.choice(ws)(o)
                    except Exception:       # noqa: BLE001
                        pass
                if C.has_nan_const(o) or C.has_list(o):
                    continue
                s = dumps(source_variant(rng, C.obj_to_sx(o), 0.3))
                out.append(self.directed(s, rng.choice(self.MODES), rng, [rng.choice(allp)]))
        # the random histories of the history stream, then some of their pool objects are pickled
        n = 120 if tier == "quick" else 2500
        g = ExprGen(rng, lists=False, foreign=False, cse=0.1, floats=0.05, malformed=0.0)
        for _ in range(n):
            h = gen_history(rng, g, 25 if tier == "quick" else 80)
            ops = strip_rebinding(h["pool"], h["ops"])
            if ops is None:
                continue
            size = len(h["pool"])
            for _ in range(rng.randint(0, 2)):
                ops.insert(rng.randint(0, len(ops)), ["subhash", rng.randrange(size), rng.randrange(64)])
            if not valid_history(h["pool"], ops):
                continue
            npool = pool_size_after(h["pool"], ops)
            dump = [[rng.randrange(npool), rng.choice(allp)] for _ in range(rng.randint(1, 4))]
            out.append({"pool": h["pool"], "ops": ops, "dump": dump})
        seen = set()
        for pl in out:
            key = json.dumps(pl, sort_keys=True)
            if key not in seen:
                seen.add(key)
                yield pl

    def execute(self, pl):
        """-> [{"i", "proto", "src", "pre", "there": [facts per reader], "back": [facts | None]}] or
        {"raises": …} when the history cannot be run here"""
        h = XHist(pl["pool"])
        try:
            for op in pl["ops"]:
                h.step(op)
        except Exception as ex:     # noqa: BLE001
            return {"raises": f"{type(ex).__name__} at {op}"}
        res = []
        for i, proto in pl["dump"]:
            if i >= len(h.pool):
                continue
            o = h.pool[i]
            src, pre = obj_s(o), C.bits(o)
            try:
                blob = pickle.dumps(o, proto)
            except Exception as ex:     # noqa: BLE001
                res.append({"i": i, "proto": proto, "src": src, "pre": pre, "dump_raises": type(ex).__name__})
                continue
            there, back = [], []
            for rd in READERS.get():
                r = rd.ask({"src": src, "blob": base64.b64encode(blob).decode(), "proto": proto})
                b64 = r.pop("back", None)
                there.append({"cfg": rd.cfg, **r})
                back.append(None if b64 is None else
                            {"cfg": rd.cfg, **XW.facts(base64.b64decode(b64), src)})
            res.append({"i": i, "proto": proto, "src": src, "pre": pre, "there": there, "back": back})
        return res

    def lookup(self, pl):
        key = json.dumps({k: v for k, v in pl.items() if k != "dir"}, sort_keys=True)
        if key not in READERS.cache:
            READERS.cache[key] = self.execute(pl)
        return READERS.cache[key]

    def request(self, pl):
        return "(noop)"

    def run_impl(self, pl):
        res = self.lookup(pl)
        if isinstance(res, dict):
            return f"(history-raises {res['raises']!r})"
        parts = []
        for d in res:
            if "dump_raises" in d:
                parts.append(f"(dump-raises {d['dump_raises']})")
                continue
            for r in d["there"]:
                if "unpickle" in r:
                    parts.append(f"(unpickle-{r['unpickle']})")
                else:
                    ok = all(v == XW.WANTED[k] for k, v in r["obs"].items())
                    parts.append(f"(read pre={d['pre']} arrived={r['slots']} {b(ok)})")
        return "(" + " ".join(parts) + ")"

    def oracle(self, pl):
        res = self.lookup(pl)
        if isinstance(res, dict):
            return Failure("history-raises:" + res["raises"].split(" ")[0], f"in the writing process: {res['raises']}", pl)
        for d in res:
            if "dump_raises" in d:
                continue
            for side, label in (("there", "written here (slots {pre}), protocol {proto}, read under {cfg}"),
                                ("back", "written under {cfg} after hashing, protocol {proto}, read here")):
                if pl.get("dir", side) != side:
                    continue
                for r in d[side]:
                    if r is None:
                        continue
                    v = XW.judge(r, label.format(pre=d["pre"], proto=d["proto"], cfg=r["cfg"]))
                    if v is not None:
                        return Failure(v[0], f"{d['src']}: {v[1]}", pl)
        return None

    def shrink(self, pl):
        if "dir" not in pl:
            # one direction only (payload key "dir"): first the pickles written here
            yield {**pl, "dir": "there"}
            yield {**pl, "dir": "back"}
            return
        if len(pl["dump"]) > 1:
            for d in pl["dump"]:
                yield {**pl, "dump": [d]}
            return
        i = pl["dump"][0][0]
        ops = pl["ops"]
        for cut in range(len(ops)):
            cand = ops[:cut] + ops[cut + 1:]
            if valid_history(pl["pool"], cand) and pool_size_after(pl["pool"], cand) > i:
                yield {**pl, "ops": cand}
        if len(pl["pool"]) > 1 and i < len(pl["pool"]):
            # only the dumped object and the operations that touch nothing else
            keep = [op for op in ops if op[0] in ("hash", "subhash", "dset", "dget") and op[1] == i]
            yield {"pool": [pl["pool"][i]], "ops": [[op[0], 0, *op[2:]] for op in keep],
                   "dump": [[0, pl["dump"][0][1]]], "dir": pl["dir"]}
        if len(pl["pool"]) == 1 and i == 0:
            # a part of the object, with the whole of it hashed / one node below it hashed
            for x in instance_parts(loads(pl["pool"][0]))[:12]:
                for ops2 in ([["hash", 0]], [["subhash", 0, 0]]):
                    yield {"pool": [dumps(x)], "ops": ops2, "dump": pl["dump"], "dir": pl["dir"]}

    def nontrivial_key(self, pl, model, impl):
        return json.dumps(pl, sort_keys=True) if "(read " in impl else None

    def stats(self, pl, mo, io, acc):
        res = self.lookup(pl)
        acc["reader_launches"] = READERS.launches
        if isinstance(res, dict):
            acc["history_raises"] = acc.get("history_raises", 0) + 1
            return
        cl = acc.setdefault("classes", {})
        pr = acc.setdefault("protocols", {})
        un = acc.setdefault("cannot_be_loaded", {})
        for d in res:
            if "dump_raises" in d:
                acc["dump_raises"] = acc.get("dump_raises", 0) + 1
                continue
            acc["pickles"] = acc.get("pickles", 0) + 1
            pr[str(d["proto"])] = pr.get(str(d["proto"]), 0) + 1
            pre = d["pre"][1:]
            kind = ("never-hashed" if "1" not in pre else "hashed" if pre[0] == "1" else "sub-nodes-only")
            acc[kind] = acc.get(kind, 0) + 1
            name = loads(d["src"])[1]
            for r in d["there"]:
                if "unpickle" in r:
                    un[name] = r["unpickle"]
                    continue
                cl[name] = cl.get(name, 0) + 1
                if "1" in r["slots"]:
                    acc["cached_hash_travelled"] = acc.get("cached_hash_travelled", 0) + 1
            acc["read_back_here"] = acc.get("read_back_here", 0) + sum(1 for r in d["back"] if r is not None)


def instance_parts(sx):
    """the instance S-expressions strictly below an object S-expression, preorder"""
    out = []

    def rec(s, top):
        if not (isinstance(s, list) and s) or isinstance(s, Atom):
            return
        if s[0] == "inst":
            if not top:
                out.append(s)
            for c in s[3]:
                rec(c, False)
        elif s[0] in ("tuple", "list"):
            for c in s[1:]:
                rec(c, False)
        elif s[0] == "dict":
            for c in s[2]:
                rec(c, False)

    rec(sx, True)
    return out

# }}}


# {{{ copies in this process, taken after hashing

def field_change(rng, o):
    """(field name, new value) differing from the current value of one top-level field of `o`
    (mappings excluded), or None"""
    names = C.field_names_of(type(o))
    if not names or special_instances(type(o)) is not None:
        return None
    vals = C.fields_of(o)
    order = list(range(len(names)))
    rng.shuffle(order)
    for i in order:
        cands = [w for w in candidates(type(o), names[i], i)
                 if not isinstance(w, Mapping) and not C.struct_eq(w, vals[i]) and not C.has_list(w)]
        if cands:
            return names[i], rng.choice(cands)
    return None


class CopyStream(Stream):
    """`copy.copy`, `copy.deepcopy`, `dataclasses.replace` (unchanged and with ONE field changed),
    in-process pickle round trips (every protocol) of an object that was hashed before (whole, one
    sub-node only, through `==`, or not at all).  Oracle: the copy has the class and fields it was
    asked to have (the source's; with the changed field for `replace(o, f=v)`), is `==` to a fresh
    build of those (both ways, `!=` false), hashes like it, finds it and is found by it as dict / set
    key; a copy of an unchanged object is interchangeable with the original in the same ways, a
    copy with a changed field is not equal to it; the original keeps its fields and hash.  Keys
    `copy-stale-hash:<how>:<class>` (the copy started with a cached hash that is not the hash of
    its fields), `copy-not-equal:…`, `copy-hash-differs:…`, `copy-not-interchangeable:…`,
    `copy-fields-wrong:…`, `copy-changed-original:…`."""
    name = "copies-after-hash"
    has_model = False

    PRE = ("none", "hash", "sub", "eq", "key")

    def cases(self, rng, tier):
        allp = list(range(pickle.HIGHEST_PROTOCOL + 1))
        hows = ["shallow", "deep", "replace", "replace-field", "initargs"] + [f"pickle{q}" for q in allp]
        ws = wrappers()
        seen = set()
        n_more = 6 if tier == "quick" else 60
        for cls in C.all_expression_classes():
            inst = instances(cls)
            if not inst:
                continue
            todo = [(inst[0], how, "hash") for how in hows]
            for _ in range(n_more):
                o = rng.choice(inst)
                if rng.random() < 0.4:
                    try:
                        o = rng.choice(ws)(o)
                    except Exception:       # noqa: BLE001
                        pass
                todo.append((o, rng.choice(hows), rng.choice(self.PRE)))
            for o, how, pre in todo:
                if C.has_nan_const(o) or C.has_list(o):
                    continue
                if how.startswith("replace") and "_is_expr_dataclass" not in type(o).__dict__:
                    how = "shallow"
                pl = {"obj": dumps(source_variant(rng, C.obj_to_sx(o), 0.3)), "pre": pre,
                      "k": rng.randrange(64), "how": how}
                if how == "replace-field":
                    ch = field_change(rng, o)
                    if ch is None:
                        pl["how"] = "replace"
                    else:
                        pl["field"], pl["value"] = ch[0], obj_s(ch[1])
                key = json.dumps(pl, sort_keys=True)
                if key not in seen:
                    seen.add(key)
                    yield pl

    @staticmethod
    def prepare(pl):
        o = C.sx_to_obj(loads(pl["obj"]))
        pre = pl["pre"]
        if pre == "hash":
            hash(o)
        elif pre == "sub":
            subs = sub_expressions(o)
            if subs:
                hash(subs[pl["k"] % len(subs)])
        elif pre == "eq":
            o == C.sx_to_obj(loads(pl["obj"]))      # noqa: B015
        elif pre == "key":
            {o: 1}.get(C.sx_to_obj(loads(pl["obj"])))
        return o

    @staticmethod
    def take(pl, o):
        how = pl["how"]
        if how == "shallow":
            return copy.copy(o)
        if how == "deep":
            return copy.deepcopy(o)
        if how == "replace":
            return dataclasses.replace(o)
        if how == "replace-field":
            return dataclasses.replace(o, **{pl["field"]: C.sx_to_obj(loads(pl["value"]))})
        if how == "initargs":
            return type(o)(*o.__getinitargs__())
        return pickle.loads(pickle.dumps(o, int(how[len("pickle"):])))

    @staticmethod
    def expected_source(pl):
        """the source of what the copy must be: the object's, with the changed field put in"""
        sx = loads(pl["obj"])
        if pl["how"] != "replace-field":
            return sx
        o = C.sx_to_obj(sx)
        names = list(C.field_names_of(type(o)))
        fs = list(sx[3])
        fs[names.index(pl["field"])] = loads(pl["value"])
        return [sx[0], sx[1], sx[2], fs]

    def run_impl(self, pl):
        try:
            o = self.prepare(pl)
            c = self.take(pl, o)
        except Exception as ex:     # noqa: BLE001
            return f"(raises {type(ex).__name__})"
        return f"(copy {C.bits(o)} {C.bits(c)} {b(c is o)})"

    def request(self, pl):
        return "(noop)"

    def oracle(self, pl):
        o = self.prepare(pl)
        cname = type(o).__name__
        how = pl["how"].rstrip("0123456789")
        tag = f"{how}:{cname}"
        before = obj_s(o)
        try:
            c = self.take(pl, o)
        except Exception:       # noqa: BLE001
            return None         # this kind of copy does not exist for the class: not C01's statement
        arrived = C.bits(c)     # before any hash call on the copy
        want_sx = self.expected_source(pl)

        def fresh():
            return C.sx_to_obj(want_sx)

        f0 = fresh()
        if type(c) is not type(f0) or not C.struct_eq(c, f0) or obj_s(c) != obj_s(f0):
            return Failure(f"copy-fields-wrong:{tag}", f"{pl}: the copy is {obj_s(c)}, wanted {obj_s(f0)}")
        changed = pl["how"] == "replace-field"
        # the copy against a fresh build of its own fields
        if hash(c) != hash(f0):
            cul = None
            pairs = []
            XW.node_pairs(c, f0, pairs)
            arrived_bits = arrived[1:]
            # preorder slot string -> postorder pairs: recompute which nodes carried a slot
            carried_nodes = carried_set(c, arrived_bits)
            for un, ln, _ in pairs:
                if hash(un) != hash(ln):
                    cul = un
                    break
            who = type(cul).__name__ if cul is not None else cname
            if cul is not None and id(cul) in carried_nodes:
                return Failure(f"copy-stale-hash:{how}:{who}",
                               f"{pl}: the copy started with cached hashes ({arrived}); its {who} node hashes "
                               f"unlike a fresh build of the same fields")
            return Failure(f"copy-hash-differs:{how}:{who}", f"{pl}: slots of the copy at creation {arrived}")
        if not (c == fresh()) or not (fresh() == c) or (c != fresh()) or (fresh() != c):
            return Failure(f"copy-not-equal:{tag}", f"{pl}: against a fresh build of the copy's fields")
        if (c not in {fresh(): 1} or fresh() not in {c: 1} or c not in {fresh()} or fresh() not in {c}
                or len({c, fresh()}) != 1):
            return Failure(f"copy-not-interchangeable:{tag}", f"{pl}: against a fresh build of the copy's fields")
        # the copy against the original
        if changed:
            # (not demanded with a Polynomial / Rational inside: their hand-written `__eq__` equates
            # structurally different values -- known findings `eq-not-structural:…`, reported elsewhere)
            if not (has_own(c) or has_own(o)) and (
                    (c == o) or (o == c) or not (c != o) or c in {o: 1} or o in {c}):
                return Failure(f"copy-not-equal:{tag}", f"{pl}: the field differs, yet the copy equals / finds the original")
        else:
            if not (c == o) or not (o == c) or (c != o) or (o != c):
                return Failure(f"copy-not-equal:{tag}", f"{pl}: the copy against the original")
            if hash(c) != hash(o):
                return Failure(f"copy-hash-differs:{tag}", f"{pl}: the copy against the original")
            if c not in {o: 1} or o not in {c: 1} or c not in {o} or o not in {c} or len({c, o}) != 1:
                return Failure(f"copy-not-interchangeable:{tag}", f"{pl}: the copy against the original")
        # the original is what it was
        if obj_s(o) != before or hash(o) != hash(C.sx_to_obj(loads(pl["obj"]))):
            return Failure(f"copy-changed-original:{tag}", f"{pl}: {before} -> {obj_s(o)}")
        return None

    def shrink(self, pl):
        if pl["how"] == "replace-field":
            return
        for x in instance_parts(loads(pl["obj"]))[:12]:
            yield {**pl, "obj": dumps(x), "pre": "hash"}

    def nontrivial_key(self, pl, model, impl):
        return json.dumps(pl, sort_keys=True) if impl.startswith("(copy") else None

    def stats(self, pl, mo, io, acc):
        h = acc.setdefault("how", {})
        k = pl["how"].rstrip("0123456789")
        h[k] = h.get(k, 0) + 1
        pr = acc.setdefault("prehashed", {})
        pr[pl["pre"]] = pr.get(pl["pre"], 0) + 1
        if io.startswith("(raises"):
            d = acc.setdefault("no_such_copy", {})
            name = loads(pl["obj"])[1]
            d[name] = io
        elif io.startswith("(copy"):
            it = io.strip("()").split(" ")
            if "1" in it[2][1:2]:
                acc["copy_starts_with_cached_hash"] = acc.get("copy_starts_with_cached_hash", 0) + 1
            if it[3] == "true":
                acc["copy_is_original"] = acc.get("copy_is_original", 0) + 1


def has_own(o) -> bool:
    """a Polynomial / Rational (or subclass) instance at or below `o`"""
    if isinstance(o, p.Expression):
        return own_family(o) is not None or any(has_own(c) for c in C.fields_of(o))
    if isinstance(o, (tuple, list)):
        return any(has_own(c) for c in o)
    if isinstance(o, Mapping):
        return any(has_own(c) for c in o.values())
    return False


def carried_set(o, bits_pre):
    """ids of the Expression nodes of `o` whose preorder slot digit in `bits_pre` is '1'"""
    out = set()
    pos = [0]

    def rec(v):
        if isinstance(v, (tuple, list)):
            for c in v:
                rec(c)
        elif isinstance(v, Mapping):
            for c in v.values():
                rec(c)
        elif isinstance(v, p.Expression):
            i = pos[0]
            pos[0] += 1
            if i < len(bits_pre) and bits_pre[i] == "1":
                out.add(id(v))
            for c in C.fields_of(v):
                rec(c)

    rec(o)
    return out

# }}}


# {{{ probes: known findings and repaired defects, replayed on the real code

def probe_known():
    from pymbolic.polynomial import Polynomial
    from pymbolic.rational import Rational
    res = []
    # repaired: Polynomial / Rational were unhashable (defined __eq__ without __hash__)
    try:
        hash(Polynomial(X, ((1, 1),)))
        hash(Rational(X, 2))
        ok = (len({Polynomial(X, ((1, 1),)), Polynomial(X, ((1, 1),))}) == 1
              and len({Rational(X, 2), Rational(X, 2)}) == 1
              and hash(Rational(2, 1)) == hash(2))
        res.append(("polynomial-rational-unhashable", not ok, "hashable; equal instances collapse in a set"))
    except TypeError as ex:
        res.append(("polynomial-rational-unhashable", True, str(ex)))
    # legacy classes are not frozen
    a = C.LBase(X)
    hash(a)
    r, _ = try_rebind(a, "p", "set", Y)
    stale = r == "ok" and not (a == C.LBase(Y))
    res.append(("legacy-fields-rebindable", r == "ok",
                f"LBase(x).p = y went through: {r == 'ok'}; then a == LBase(y): {not stale}"))
    m = C.MVar("v", 1)
    r, _ = try_rebind(m, "tag", "set", 2)
    res.append(("legacysub-extra-fields-rebindable", r == "ok", f"MVar('v', 1).tag = 2: {r}"))
    # Rational.__eq__ coerces the other operand
    e1 = Rational(X, 1) == X
    try:
        e2 = X == Rational(X, 1)
    except Exception as ex:     # noqa: BLE001
        e2 = f"raises {type(ex).__name__}"
    res.append(("eq-not-structural:Rational.__eq__", bool(e1),
                f"Rational(x, 1) == x: {e1}; x == Rational(x, 1): {e2}"))
    # Polynomial.__eq__ ignores unit, accepts subclasses
    e3 = Polynomial(X, ((1, 1),), 1) == Polynomial(X, ((1, 1),), 2)
    e4 = C.SubPoly(X, ((1, 1),)) == Polynomial(X, ((1, 1),))
    h4 = hash(C.SubPoly(X, ((1, 1),))) == hash(Polynomial(X, ((1, 1),)))
    res.append(("eq-not-structural:Polynomial.__eq__", bool(e3 or e4),
                f"unit 1 vs 2 equal: {e3}; subclass instance equal: {e4}, hashes equal: {h4}"))
    # Rational.__eq__ accepts subclass instances, Rational.__hash__ hashes the class name
    ra, sa = Rational(X, 2), _rat(C.SubRat, X, 2.0)
    e5 = (ra == sa) and (sa == ra)
    h5 = hash(ra) == hash(sa)
    k5 = sa in {ra: 1}
    t1, t2, t3 = _rat(Rational, _rat(Rational, X, 1), 1), _rat(Rational, X, 1), _rat(C.SubRat, X, 1)
    nontrans = (t1 == t2) and (t2 == t3) and not (t1 == t3)
    res.append(("equal-but-hash-differs:Rational.__eq__:subclass", bool(e5 and not h5),
                f"Rational(x, 2) == SubRat(x, 2): {e5}, hashes equal: {h5}, found as dict key: {k5}; "
                f"non-transitive triple across the subclass: {nontrans}"))
    return res

# }}}


# ---- field normalisation at construction (__post_init__) ---------------------------------------------

from collections.abc import Mapping as _abc_Mapping  # noqa: E402

class _DeclaredHashableMapping(_abc_Mapping):
    """a Mapping that DECLARES __hash__ (so isinstance(m, Hashable) holds) while hashing raises —
    like types.MappingProxyType on CPython 3.12: only an actual hash() call tells"""
    def __init__(self, d):
        self._d = d

    def __getitem__(self, k):
        return self._d[k]

    def __iter__(self):
        return iter(self._d)

    def __len__(self):
        return len(self._d)

    def __hash__(self):
        return hash(self._d)             # raises TypeError: self._d is a dict


def _mapping_kinds():
    import collections
    import types

    from immutabledict import immutabledict
    return {
        "dict": lambda d: d,
        "ordered": lambda d: collections.OrderedDict(d),
        "proxy": lambda d: types.MappingProxyType(d),
        "chainmap": lambda d: collections.ChainMap(d),
        "userdict": lambda d: collections.UserDict(d),
        "immutabledict": lambda d: immutabledict(d),
        "declared-hashable": lambda d: _DeclaredHashableMapping(d),
    }


class PostInitStream(Stream):
    """Nodes whose constructor NORMALISES a field (keyword mappings of calls, comparison operators
    given by name, a CSE scope of None): whatever spelling the caller used, the node must be the
    structural twin of the one built from the normal form — equal both ways, equal hash (so hashing
    must not raise), one element in a set, found as a dict key — must stay so after the caller's
    own mapping object is mutated, and copies / identity-mapped trees stay in its class."""
    name = "post-init-normalisation"
    has_model = False

    def cases(self, rng, tier):
        n = 40 if tier == "quick" else 600
        kinds = sorted(_mapping_kinds())
        for i in range(n):
            names = rng.sample(["k", "j", "a", "zz", "w"], rng.randint(0, 3))
            vals = [rng.choice([1, 2.5, True, "x", "y+1", "f(x)"]) for _ in names]
            for kind in kinds:
                yield {"what": "kw", "kind": kind, "names": names, "vals": vals,
                       "nargs": rng.randint(0, 2), "mutate": rng.random() < 0.6}
        for opn in ("eq", "ne", "le", "ge", "lt", "gt", "==", "!=", "<=", ">=", "<", ">", "=", "is", ""):
            yield {"what": "cmp", "op": opn}
        for scope in (None, "pymbolic_eval", "pymbolic_expr", "pymbolic_global"):
            for prefix in (None, "c"):
                yield {"what": "cse", "scope": scope, "prefix": prefix}

    def run_impl(self, pl):
        return "(oracle-only)"

    @staticmethod
    def _val(v):
        from pymbolic import parse
        return parse(v) if isinstance(v, str) else v

    def oracle(self, pl):
        import copy
        import warnings

        import pymbolic.primitives as p
        from immutabledict import immutabledict
        from pymbolic.mapper import IdentityMapper
        with warnings.catch_warnings():
            warnings.simplefilter("ignore")
            if pl["what"] == "kw":
                src = {k: self._val(v) for k, v in zip(pl["names"], pl["vals"])}
                args = tuple(p.Variable(f"p{i}") for i in range(pl["nargs"]))
                ref = p.CallWithKwargs(p.Variable("f"), args, immutabledict(dict(src)))
                try:
                    node = p.CallWithKwargs(p.Variable("f"), args, _mapping_kinds()[pl["kind"]](src))
                except Exception as ex:
                    return Failure(f"post-init-raises:CallWithKwargs:{pl['kind']}", repr(ex), pl)
                if pl["mutate"]:
                    src["__later__"] = 0          # the caller's mapping changes afterwards
                    src.pop(next(iter(src)))
                why = self._twin(node, ref)
                if why is None:
                    for how, mk in (("copy", copy.copy), ("deepcopy", copy.deepcopy),
                                    ("identity-mapper", lambda e: IdentityMapper()(e))):
                        try:
                            c = mk(p.Sum((node, 1))).children[0]
                        except Exception as ex:
                            why = f"{how} raises {ex!r}"
                            break
                        why = self._twin(c, ref)
                        if why is not None:
                            why = f"after {how}: {why}"
                            break
                if why is not None:
                    return Failure(f"post-init-not-normalised:CallWithKwargs:{pl['kind']}",
                                   f"kw_parameters given as {pl['kind']} {pl['names']}: {why}", pl)
                return None
            x, y = p.Variable("x"), p.Variable("y")
            if pl["what"] == "cmp":
                table = {"eq": "==", "ne": "!=", "le": "<=", "ge": ">=", "lt": "<", "gt": ">"}
                op = pl["op"]
                sym = table.get(op, op)
                valid = sym in table.values()
                try:
                    node = p.Comparison(x, op, y)
                except Exception as ex:
                    if valid:
                        return Failure("post-init-raises:Comparison", f"operator {op!r}: {ex!r}", pl)
                    return None
                if not valid:
                    return Failure("post-init-accepts-invalid:Comparison",
                                   f"Comparison(x, {op!r}, y) was accepted", pl)
                why = self._twin(node, p.Comparison(x, sym, y))
                if why is None and node.operator != sym:
                    why = f"operator field is {node.operator!r}, expected {sym!r}"
                if why is not None:
                    return Failure("post-init-not-normalised:Comparison", f"operator {op!r}: {why}", pl)
                return None
            scope = pl["scope"]
            try:
                node = p.CommonSubexpression(x + y, pl["prefix"], scope)
            except Exception as ex:
                return Failure("post-init-raises:CommonSubexpression", repr(ex), pl)
            ref = p.CommonSubexpression(x + y, pl["prefix"],
                                        p.cse_scope.EVALUATION if scope is None else scope)
            why = self._twin(node, ref)
            if why is not None:
                return Failure("post-init-not-normalised:CommonSubexpression", f"scope {scope!r}: {why}", pl)
            return None

    @staticmethod
    def _twin(a, b):
        """None when `a` behaves as the structural twin of `b`"""
        try:
            if not (a == b and b == a):
                return "not == to the node built from the normal form"
            if a != b or b != a:
                return "!= answers True for equal nodes"
            if hash(a) != hash(b):
                return "hash differs from the node built from the normal form"
            if len({a, b}) != 1 or {a: 1}.get(b) != 1 or {b: 1}.get(a) != 1:
                return "not interchangeable as set element / dict key"
        except Exception as ex:
            return f"comparing / hashing raises {ex!r}"
        return None

    def nontrivial_key(self, pl, model, impl):
        import json
        return json.dumps(pl, sort_keys=True)

    def stats(self, pl, mo, io, acc):
        k = pl["what"] + (":" + pl["kind"] if pl["what"] == "kw" else "")
        acc[k] = acc.get(k, 0) + 1



# ---- class hierarchies declared at run time, histories of FIRST USES per class ---------------------------

from .. import c01_hier as H  # noqa: E402

NEW_FIELD_VALUES = [1, 2, 1.0, True, 0, "s", "t", None, X, Y, (X, 1), p.Sum((X, 1))]
HIER_CLASS_NAMES = ["Tagged", "Scoped", "Sym", "Node", "Typed", "Marked"]
HIER_OPS = ["hash", "hash", "eq", "eq", "ne", "in", "get", "set"]


def hier_roots():
    """{group: [root classes]}: stock decorated nodes, the library's own UNDECORATED subclasses of
    decorated nodes (MultiVectorVariable), the harness's user classes of every kind, and Expression
    itself (a purely legacy hierarchy)"""
    import pymbolic.geometric_algebra.primitives  # noqa: F401
    groups = {"stock": [], "stock-undecorated": [], "user": [], "Expression": [p.Expression]}
    for c in C.all_expression_classes():
        if special_instances(c) is not None or any(
                k.__name__ in OWN_INIT_ARGS and k.__module__.startswith("pymbolic.") for k in c.__mro__):
            continue
        if C.decorated_base(c) is None and c.__module__.startswith("pymbolic."):
            continue        # abstract undecorated bases without init args
        if not instances(c):
            continue
        if not c.__module__.startswith("pymbolic."):
            groups["user"].append(c)
        elif "_is_expr_dataclass" in c.__dict__:
            groups["stock"].append(c)
        else:
            groups["stock-undecorated"].append(c)
    return groups


def hier_kinds_below(root, parent_kinds):
    """the declaration kinds possible below a class reached from `root` through `parent_kinds`"""
    names = len(H.root_names(root))
    dc = H.dataclass_path(root)
    for k in parent_kinds:
        if k in ("extra", "fixed"):
            dc = False
        names += {"extra": 1, "fixed": -1}.get(k, 0)
    if root is p.Expression and not parent_kinds:
        return ["extra"]
    out = ["plain", "redeclared", "extra"]
    if names > 0:
        out.append("fixed")
    if dc:
        out.append("decorated")
    return out


def hier_chains(root, depth):
    """every chain of declaration kinds of length 1..depth below `root`"""
    res, frontier = [], [[]]
    for _ in range(depth):
        nxt = []
        for ch in frontier:
            for k in hier_kinds_below(root, ch):
                nxt.append(ch + [k])
        res += nxt
        frontier = nxt
    return res


def hier_classes(rng, root, parents, kinds):
    """class records for the given parent indices / kinds: names (now and then one name used twice,
    or the root's own name), new field names, how the new attributes are stored and read"""
    out = []
    for i, (par, kind) in enumerate(zip(parents, kinds)):
        r = rng.random()
        if r < 0.12 and out:
            name = rng.choice(out)["name"]
        elif r < 0.2 and root is not p.Expression:
            name = root.__name__
        else:
            name = f"{rng.choice(HIER_CLASS_NAMES)}{i}"
        c = {"name": name, "parent": par, "kind": kind, "new": []}
        if kind == "extra":
            c["new"] = [f"t{i}"] + ([f"s{i}"] if rng.random() < 0.25 else [])
        elif kind == "decorated":
            c["new"] = [] if rng.random() < 0.2 else [f"d{i}"] + ([f"e{i}"] if rng.random() < 0.2 else [])
        if kind in ("extra", "fixed", "redeclared"):
            c["store"] = rng.choice(["plain", "object"])
            c["read"] = "delegate" if not root.__module__.startswith("pymbolic.") else rng.choice(
                ["attrs", "delegate"])
        out.append(c)
    return out


def hier_case(rng, root, classes, order=None):
    """payload for the hierarchy: a pool with, per class, a base instance built from ONE shared
    assignment of values to field names (so instances of different classes with the same fields
    exist), a separately built twin, and instances differing from the base in exactly one field
    (always including the class's own last init arg); a history of first uses in `order` (class
    indices, -1 = the root; default: a random prefix of a random permutation) and a few more
    operations anywhere"""
    rnames = list(H.root_names(root))
    env, root_base = {}, None
    if root is not p.Expression:
        root_base = rng.choice(instances(root))
        vals = C.fields_of(root_base)
        if len(vals) != len(rnames):
            return None
        env.update(zip(rnames, vals))
    pl = {"root": H.root_spec(root), "classes": classes, "insts": [], "ops": []}
    # constants of `fixed` classes come from the candidates of the field they pin down
    try:
        for i, c in enumerate(classes):
            if c["kind"] == "fixed" and "fixed" not in c:
                c["fixed"] = obj_s(1)       # placeholder so that layout can run
        _, _, names = H.layout(pl)
    except ValueError:
        return None
    for i, c in enumerate(classes):
        if c["kind"] == "fixed":
            pn = rnames if c["parent"] < 0 else names[c["parent"]]
            c["fixed"] = obj_s(rng.choice(hier_values(root, rnames, pn[-1])))
        for n in c["new"]:
            env[n] = rng.choice(NEW_FIELD_VALUES)
    insts = []
    for ci in range(-1, len(classes)):
        if ci < 0 and (root is p.Expression or rng.random() < 0.25):
            continue
        ns = rnames if ci < 0 else names[ci]
        base = [env[n] for n in ns]
        insts.append({"cls": ci, "args": [obj_s(v) for v in base]})
        if rng.random() < 0.85:
            tw = [dumps(eq_variant(rng, C.obj_to_sx(v), 0.3)) if rng.random() < 0.3 else obj_s(v)
                  for v in base]
            insts.append({"cls": ci, "args": tw})
        pos = set()
        if ns:
            pos.add(len(ns) - 1)
            if rng.random() < 0.6:
                pos.add(rng.randrange(len(ns)))
        for k in sorted(pos):
            cands = [w for w in hier_values(root, rnames, ns[k])
                     if not C.struct_eq(w, base[k]) and not C.has_list(w) and not C.has_nan_const(w)]
            if not cands:
                continue
            args = list(base)
            args[k] = rng.choice(cands)
            if ns[k] in rnames and root is not p.Expression and build(
                    root, [args[ns.index(n)] if n in ns else env[n] for n in rnames]) is None:
                continue
            insts.append({"cls": ci, "args": [obj_s(v) for v in args]})
    if not insts:
        return None
    if rng.random() < 0.5:
        rng.shuffle(insts)      # the final pairwise pass goes through the pool in pool order
    pl["insts"] = insts
    present = sorted({it["cls"] for it in insts})
    if order is None:
        order = list(present)
        rng.shuffle(order)
        order = order[:rng.randint(0, len(order))]
        extra_ops = rng.randint(0, 4)
    else:
        extra_ops = 0
    ops = []
    for ci in order:
        mine = [k for k, it in enumerate(insts) if it["cls"] == ci]
        if not mine:
            continue
        for _ in range(1 if extra_ops == 0 else rng.randint(1, 2)):
            kind = rng.choice(HIER_OPS)
            i = rng.choice(mine)
            j = rng.choice(mine) if rng.random() < 0.8 else rng.randrange(len(insts))
            ops.append([kind, i] if kind == "hash" else [kind, i, j])
    for _ in range(extra_ops):
        kind = rng.choice(HIER_OPS)
        i, j = rng.randrange(len(insts)), rng.randrange(len(insts))
        ops.append([kind, i] if kind == "hash" else [kind, i, j])
    pl["ops"] = ops
    return pl


def hier_values(root, rnames, name):
    """candidate values of the field `name`: the root's own candidates for its fields, the shared
    list for fields introduced below it"""
    if name in rnames and root is not p.Expression:
        return [w for w in candidates(root, name, rnames.index(name)) if not isinstance(w, list)]
    return NEW_FIELD_VALUES


class HierarchyStream(Stream):
    """Node classes declared at run time below every kind of root (stock decorated node, the
    library's own undecorated subclass, user classes decorated / legacy / mixed, Expression), each
    level plain / re-declaring the parent's init args / adding init args / pinning one / decorated;
    chains and small trees up to four levels, now and then two classes of one name.  A history first
    uses the classes in some order (hash, ==, !=, dict / set membership of instances of ONE class,
    sometimes across classes); then the whole pool is judged pairwise.  Oracle (harness/c01_hier.py):
    every answer is the property's — `==` exactly for the same class and pairwise-equal init
    arguments (read off the input), `!=` its negation, equal ⇒ equal hash and interchangeable as
    key, unequal ⇒ kept apart by dict / set, hashes stable — WHATEVER class of the hierarchy was
    used first.  Keys `hier-<what>:<dataclass|legacysub|legacy>` (the backend the declarations of the
    left instance's class call for; the detail gives the declaration kinds up to the nearest
    decorated class or the root, and says whether the same instances alone are judged fine on a
    fresh declaration of the classes, i.e. whether the answer depends on the history)."""
    name = "class-hierarchies"
    has_model = False

    def cases(self, rng, tier):
        groups = hier_roots()
        self.dropped = 0
        seen = set()

        def emit(pl):
            if pl is None:
                self.dropped += 1
                return None
            key = json.dumps(pl, sort_keys=True)
            if key in seen:
                return None
            seen.add(key)
            return pl

        # directed: every chain of declaration kinds below representative roots, the classes first
        # used top-down, bottom-up and in a random order
        by_name = {c.__name__: c for g in groups.values() for c in g}
        reps = [by_name[n] for n in ("Variable", "Sum", "Call", "MultiVectorVariable", "Expression",
                                     "DMid", "MAlias", "MExtra", "LBase") if n in by_name]
        depth_all, n_deep = (2, 260) if tier == "quick" else (3, 2400)
        for root in reps:
            chains = hier_chains(root, depth_all)
            deeper = [ch for ch in hier_chains(root, depth_all + 1) if len(ch) == depth_all + 1]
            rng.shuffle(deeper)
            chains += deeper[:n_deep // len(reps)]
            for ch in chains:
                n = len(ch)
                idx = list(range(-1, n)) if root is not p.Expression else list(range(n))
                perm = list(idx)
                rng.shuffle(perm)
                for order in (idx, idx[::-1], perm):
                    classes = hier_classes(rng, root, list(range(-1, n - 1)), ch)
                    pl = emit(hier_case(rng, root, classes, order))
                    if pl is not None:
                        yield pl
        # random: any root, chains and small trees
        n_rand = 500 if tier == "quick" else 6000
        weights = [("stock", 0.4), ("stock-undecorated", 0.15), ("user", 0.25), ("Expression", 0.2)]
        for _ in range(n_rand):
            r, acc_w, grp = rng.random(), 0.0, "stock"
            for g, wgt in weights:
                acc_w += wgt
                if r < acc_w:
                    grp = g
                    break
            if not groups[grp]:
                grp = "stock"
            root = rng.choice(groups[grp])
            n = rng.randint(1, 4)
            parents, kinds = [], []
            for i in range(n):
                par = i - 1 if rng.random() < 0.6 else rng.randint(-1, i - 1)
                chain, q = [], par
                while q >= 0:
                    chain.append(kinds[q])
                    q = parents[q]
                allowed = hier_kinds_below(root, chain[::-1])
                wts = [{"plain": 3, "redeclared": 1, "extra": 4, "fixed": 1, "decorated": 2}[k] for k in allowed]
                parents.append(par)
                kinds.append(rng.choices(allowed, wts)[0])
            pl = emit(hier_case(rng, root, hier_classes(rng, root, parents, kinds)))
            if pl is not None:
                yield pl

    def request(self, pl):
        return "(noop)"

    def run_impl(self, pl):
        return H.summary(pl)

    def oracle(self, pl):
        return H.oracle(pl)

    def shrink(self, pl):
        return H.shrink(pl)

    def nontrivial_key(self, pl, model, impl):
        return json.dumps(pl, sort_keys=True) if impl.startswith("(built") else None

    def stats(self, pl, mo, io, acc):
        if not io.startswith("(built"):
            d = acc.setdefault("cannot_be_built", {})
            d[io] = d.get(io, 0) + 1
            return
        acc["specs_dropped_at_generation"] = getattr(self, "dropped", 0)
        sh = acc.setdefault("shapes", {})       # a class's kind < its parent's kind (or the root's)
        for ci in sorted({it["cls"] for it in pl["insts"] if it["cls"] >= 0}):
            s = "<".join(H.shape(pl, ci).split("<")[:2])
            sh[s] = sh.get(s, 0) + 1
        dp = acc.setdefault("depth", {})
        d = str(max(len(H.shape(pl, ci).split("<")) for ci in range(len(pl["classes"]))))
        dp[d] = dp.get(d, 0) + 1
        r = acc.setdefault("roots", {})
        tag = H.root_tag(H.resolve_root(pl["root"]))
        r[tag] = r.get(tag, 0) + 1
        first = next((o for o in pl["ops"]), None)
        fu = acc.setdefault("first_used", {})
        if first is None:
            k = "no-history"
        else:
            ci = pl["insts"][first[1]]["cls"]
            k = "root" if ci < 0 else pl["classes"][ci]["kind"]
        fu[k] = fu.get(k, 0) + 1


def extract_postinit(ctx=None):
    from extract.postinit import extract_postinit as ex
    return ex(ctx)


def extract(ctx=None):
    from extract.classes import extract_classes
    return extract_classes(ctx)


PROP = Prop(
    id="C01",
    title="Expression nodes: structural equality, consistent hashing, immutability",
    lean_targets=["PV.Properties.C01", "PV.Properties.C01Hier"],
    extractors=[extract, extract_postinit],
    streams=[StockTriples(), TableTriples(), OwnEqStream(), RationalInitStream(), FrozenStream(),
             HistoryStream(), ModeStream(), CrossProcessStream(), CopyStream(), PostInitStream(),
             HierarchyStream()],
    probes=[probe_known],
    trusted_base=[
        "Lean 4.33 kernel; axioms propext, Classical.choice, Quot.sound only",
        "extract/classes.py: reads the generated method source of every decorated class with ast "
        "(an unrecognised shape is an extraction error, never a default)",
        "extract/classes.py: reads the SOURCE of the hand-written __eq__/__ne__/__hash__/"
        "__getinitargs__/__init__ of Polynomial and Rational (two recognised shapes; anything else "
        "is an extraction error) and the frozen= keyword of the dataclass(...) call in expr_dataclass",
        "CPython's hash of builtins, tuple hashing, dict / set lookup, pickle, the frozen "
        "dataclass __setattr__/__delattr__ and the dispatch of == (proper subclass on the right "
        "first, NotImplemented of builtins, tuple comparison, short-circuit and) are runtime: "
        "modelled (HashParams with CPython's contract, memberC / dictFind, frozenFor, eqF) and "
        "validated by the correspondence only",
        "harness/c01_classes.py (generic field reader, slot reader, struct_eq reference)",
    ],
    level_text="Lean theorems, generic over every class table satisfying the decidable condition Ok "
               "and every hash function meeting CPython's contract: the generated __eq__ (class "
               "test, hash fast path, legacy branch, field-wise comparison of the listed fields, "
               "nested through the same method) answers exactly 'same class and pairwise == "
               "fields'; it is an equivalence on nan-free objects; equal objects hash equal; "
               "setattr/delattr on protected attributes raise and change nothing; in every history "
               "of hash / == / != / in / dict / copy / mapper / pickle operations in which no field "
               "is rebound every cached hash stays coherent and every answer equals the answer on "
               "fresh objects. Ok of the table regenerated from the working tree is re-proved by "
               "`decide` on every run (ok_current). Hand-written __eq__/__hash__ of Polynomial and "
               "Rational (records read from their source, OwnOk re-proved by decide: own_current): "
               "without such instances inside, == with CPython's full dispatch IS the generated "
               "method (own_conservative); over ordinary attribute values the answer is the pairwise "
               "== of the compared attributes whatever the classes and other init args "
               "(own_eq_inst_iff: an equivalence; equal => equal hash within one class); Rational "
               "against nodes and numbers (rational_eq_node / _number, hashes agree when equal), "
               "raises on non-numbers; witnesses for the asymmetry, the subclass hash mismatch and "
               "non-transitivity. Interpreter mode is a parameter of the setattr model: "
               "frozen_rejects_default, optimized_never_rejects, optimized_rebind_stale_cex, "
               "optimized_untouched_same.",
    level_note="Partial: CPython's hashing, dict/set and pickling are parameters validated by "
               "correspondence; the histories' object model is a forest (sharing of children "
               "between a copy and its source is not represented: below a shared node only the "
               "top-level slot is compared); float nan constants are excluded (nan != nan); the "
               "hand-written methods are proved about at ONE level over ordinary attribute values "
               "(nested Rationals / polynomials over Rationals: witnesses and correspondence); "
               "the model abstains on Rational == Polynomial (Polynomial.__truediv__ inside the "
               "coercion), on ints beyond 2^53 inside the coercion and on Rationals whose "
               "denominator is not a number; histories do not contain Polynomial / Rational.",
    technique="Lean 4: decidable table condition re-checked on regenerated tables + generic theorems "
              "over tables and hash parameters + invariant proof over histories; differential "
              "correspondence; independent structural oracle",
    design_ref="DESIGN.md §4 C01",
    assumptions=[
        "no float nan constants inside expressions (NaN nodes are inside)",
        "interpreter mode: default and -O are both exercised (worker processes); the harness itself "
        "runs in default mode",
        "__getinitargs__ of a legacy class is a function of the instance's state",
    ],
)
