"""C02 — evaluation gives every node type its standard meaning."""
from __future__ import annotations

import operator as op
import random

from ..core import Failure, Prop, Stream
from ..gen import ExprGen, box_values, node_types, rand_env, size
from ..oracles.pyeval import is_safe, outcome, pyeval, same_outcome
from ..c02_streams import FreeNameStream, ProcHistStream
from ..sexp import (A, dumps, env_to_sx, exc_to_sx, expr_to_sx, loads, sx_shrinks, sx_to_env,
                    sx_to_expr, value_to_sx)

PYNUM_OPS = {
    "add": op.add, "sub": op.sub, "mul": op.mul, "truediv": op.truediv,
    "floordiv": op.floordiv, "mod": op.mod, "pow": op.pow, "lshift": op.lshift,
    "rshift": op.rshift, "and": op.and_, "or": op.or_, "xor": op.xor,
    "eq": op.eq, "ne": op.ne, "lt": op.lt, "le": op.le, "gt": op.gt, "ge": op.ge,
    "invert": lambda a, b: ~a, "neg": lambda a, b: -a, "truth": lambda a, b: bool(a),
    "min": lambda a, b: min(x for x in (a, b)), "max": lambda a, b: max(x for x in (a, b)),
}


def result_sx(fn):
    try:
        return dumps(value_to_sx(fn()))
    except RecursionError:
        raise
    except Exception as ex:
        return dumps(exc_to_sx(ex))


class PyNumStream(Stream):
    """Validates the model's numeric semantics against CPython: every operator on every ordered
    pair of the value box (exhaustive)."""
    name = "pynum-box"

    def cases(self, rng, tier):
        vals = box_values()
        big = {v for v in vals if isinstance(v, int) and abs(v) > 100}
        for name in PYNUM_OPS:
            unary = name in ("invert", "neg", "truth")
            for a in vals:
                for b in ([0] if unary else vals):
                    if name in ("pow", "lshift", "rshift") and (b in big):
                        continue        # astronomically large results: model abstains
                    yield {"op": name, "a": dumps(value_to_sx(a)), "b": dumps(value_to_sx(b))}
        # indexing
        from fractions import Fraction
        tup = (5, Fraction(1, 2), True)
        for i in [-4, -3, -1, 0, 1, 2, 3, True, False, Fraction(1, 1)]:
            yield {"op": "getitem", "a": dumps(value_to_sx(tup)), "b": dumps(value_to_sx(i))}

    def request(self, pl):
        return f"(pynum {pl['op']} {pl['a']} {pl['b']})"

    def run_impl(self, pl):
        from ..sexp import sx_to_value
        a = sx_to_value(loads(pl["a"]))
        b = sx_to_value(loads(pl["b"]))
        f = PYNUM_OPS.get(pl["op"], op.getitem)
        return result_sx(lambda: f(a, b))

    def nontrivial_key(self, pl, model, impl):
        return f"{pl['op']} {pl['a']} {pl['b']}"

    def stats(self, pl, mo, io, acc):
        acc.setdefault("results", {})
        k = io.split(" ")[0].strip("()") if not io.startswith("(err") else io
        acc["results"][k] = acc["results"].get(k, 0) + 1


VARIANTS = ["plain", "cached", "evaluate", "evaluate_kw"]


def run_variant(variant, e, env):
    from pymbolic.mapper.evaluator import (CachedEvaluationMapper, EvaluationMapper, evaluate,
                                           evaluate_kw)
    if variant == "plain":
        return EvaluationMapper(env)(e)
    if variant == "cached":
        return CachedEvaluationMapper(env)(e)
    if variant == "evaluate":
        return evaluate(e, env)
    return evaluate_kw(e, **env)


class DenStream(Stream):
    """(expression, environment, entry point): value / error of the real evaluator vs `den`."""
    name = "den"

    def cases(self, rng, tier):
        n = 4000 if tier == "quick" else 60000
        g = ExprGen(rng)
        for i in range(n):
            ctx = rng.choice(["num", "num", "int", "bool", "any"])
            e = g.gen(ctx, rng.randint(1, 5))
            env = rand_env(rng, big=(i % 7 == 0))
            if not is_safe(e, env):
                continue
            yield {"expr": dumps(expr_to_sx(e)), "env": dumps(env_to_sx(env)),
                   "variant": VARIANTS[i % 4]}
        # exhaustive small: every binary/nary node type over a box of environments
        yield from exhaustive_small(tier)

    def request(self, pl):
        c = "false" if pl["variant"] == "plain" else "true"
        return f"(evalhist {c} {pl['env']} ({pl['expr']}))"

    def agree(self, model, impl, pl):
        return super().agree(model, "(" + impl + ")", pl)

    def run_impl(self, pl):
        e = sx_to_expr(loads(pl["expr"]))
        env = sx_to_env(loads(pl["env"]))
        return result_sx(lambda: run_variant(pl["variant"], e, env))

    def oracle(self, pl):
        e = sx_to_expr(loads(pl["expr"]))
        env = sx_to_env(loads(pl["env"]))
        ref = outcome(lambda: pyeval(e, env))
        got = outcome(lambda: run_variant(pl["variant"], e, dict(env)))
        if not same_outcome(ref, got):
            top = type(e).__name__
            if "(List" in pl["expr"] and got[:2] == ("err", "TypeError"):
                return Failure("unhashable-list", f"evaluator gives {got!r}, plain Python gives {ref!r}", pl)
            return Failure(f"eval-differs:{top}", f"evaluator gives {got!r}, plain Python gives {ref!r}", pl)
        return None

    def shrink(self, pl):
        for s in sx_shrinks(loads(pl["expr"])):
            yield {**pl, "expr": dumps(s)}

    def nontrivial_key(self, pl, model, impl):
        if size(sx_to_expr(loads(pl["expr"]))) < 3:
            return None
        return pl["expr"] + pl["env"]

    def stats(self, pl, mo, io, acc):
        e = sx_to_expr(loads(pl["expr"]))
        nt = acc.setdefault("node_types", {})
        for k, v in node_types(e).items():
            nt[k] = nt.get(k, 0) + v
        sz = acc.setdefault("size_hist", {})
        b = str(min(size(e) // 5 * 5, 40))
        sz[b] = sz.get(b, 0) + 1
        res = acc.setdefault("result_kinds", {})
        k = io.split(" ")[0].strip("()") if not io.startswith("(err") else io.split('"')[0].strip()
        res[k] = res.get(k, 0) + 1


def exhaustive_small(tier):
    """All two-level trees `op(leaf, leaf)` over a leaf alphabet × a box of environments."""
    import itertools
    from fractions import Fraction
    import pymbolic.primitives as p
    x, y = p.Variable("x"), p.Variable("y")
    leaves = [x, y, 0, 1, -2, True]
    vals = [-2, -1, 0, 1, 2, Fraction(1, 2), Fraction(-3, 2), True, False]
    if tier == "quick":
        vals = [-2, 0, 1, Fraction(1, 2), True]
    mk = []
    for cls in (p.Quotient, p.FloorDiv, p.Remainder, p.Power, p.LeftShift, p.RightShift):
        mk.append(lambda a, b, cls=cls: cls(a, b))
    for cls in (p.Sum, p.Product, p.BitwiseOr, p.BitwiseXor, p.BitwiseAnd, p.LogicalOr,
                p.LogicalAnd, p.Min, p.Max):
        mk.append(lambda a, b, cls=cls: cls((a, b)))
    for o in ("==", "!=", "<", "<=", ">", ">="):
        mk.append(lambda a, b, o=o: p.Comparison(a, o, b))
    mk.append(lambda a, b: p.If(a, b, p.Variable("w")))
    mk.append(lambda a, b: p.If(a, p.Variable("w"), b))
    mk.append(lambda a, b: p.BitwiseNot(a))
    mk.append(lambda a, b: p.LogicalNot(a))
    i = 0
    for f in mk:
        for a, b in itertools.product(leaves, leaves):
            e = f(a, b)
            for vx, vy in itertools.product(vals, vals):
                i += 1
                yield {"expr": dumps(expr_to_sx(e)),
                       "env": dumps(env_to_sx({"x": vx, "y": vy})), "variant": VARIANTS[i % 4]}
    # variables may carry ANY name — also names the entry points use for their own locals / for
    # parameters of functions they call (everything except the two parameters the keyword entry
    # point declares itself: `expression`, `mapper_cls`); bound, unbound and through every variant
    names = ["context", "self", "expr", "env", "kw", "kwargs", "args", "cls", "mapper", "result",
             "kw_context", "cache", "_cache", "rec", "enclosing_prec"]
    for n in names:
        for variant in VARIANTS:
            e = p.Sum((p.Product((p.Variable(n), 3)), x))
            yield {"expr": dumps(expr_to_sx(e)), "env": dumps(env_to_sx({n: 5, "x": -2})),
                   "variant": variant}
            yield {"expr": dumps(expr_to_sx(e)), "env": dumps(env_to_sx({"x": -2})),
                   "variant": variant}


class HistStream(Stream):
    """Histories of evaluations on ONE mapper instance (plain and cached), with shared and
    equal-but-not-identical common subexpressions; the CSE cache and the memo table persist."""
    name = "history"

    def cases(self, rng, tier):
        n = 300 if tier == "quick" else 5000
        g = ExprGen(rng, cse=0.25, malformed=0.02)
        for i in range(n):
            pool = [g.gen(rng.choice(["num", "int", "bool", "any"]), rng.randint(1, 4))
                    for _ in range(rng.randint(2, 5))]
            hist = []
            for _ in range(rng.randint(2, 8)):
                k = rng.random()
                if k < 0.5:
                    hist.append(rng.choice(pool))
                elif k < 0.8:
                    # rebuild an equal-but-not-identical copy
                    hist.append(sx_to_expr(expr_to_sx_roundtrip(rng.choice(pool))))
                else:
                    import pymbolic.primitives as p
                    hist.append(p.Sum((rng.choice(pool), rng.choice(pool))))
            env = rand_env(rng)
            if not all(is_safe(e, env) for e in hist):
                continue
            yield {"cached": bool(i % 2), "env": dumps(env_to_sx(env)),
                   "exprs": [dumps(expr_to_sx(e)) for e in hist]}

    def request(self, pl):
        c = "true" if pl["cached"] else "false"
        return f"(evalhist {c} {pl['env']} ({' '.join(pl['exprs'])}))"

    def _run(self, pl):
        from pymbolic.mapper.evaluator import CachedEvaluationMapper, EvaluationMapper
        env = sx_to_env(loads(pl["env"]))
        m = (CachedEvaluationMapper if pl["cached"] else EvaluationMapper)(env)
        exprs = [sx_to_expr(loads(s)) for s in pl["exprs"]]
        return env, m, exprs

    def run_impl(self, pl):
        env, m, exprs = self._run(pl)
        return "(" + " ".join(result_sx(lambda e=e: m(e)) for e in exprs) + ")"

    def oracle(self, pl):
        env, m, exprs = self._run(pl)
        for k, e in enumerate(exprs):
            got = outcome(lambda: m(e))
            ref = outcome(lambda: pyeval(e, env))
            if not same_outcome_eq(ref, got):
                if "(List" in pl["exprs"][k] and got[:2] == ("err", "TypeError"):
                    return Failure("unhashable-list", f"call #{k}: {got!r} vs {ref!r}", pl)
                return Failure("history-differs", f"call #{k}: evaluator instance gives {got!r}, "
                               f"fresh plain evaluation gives {ref!r}", pl)
        return None

    def shrink(self, pl):
        ex = pl["exprs"]
        for i in range(len(ex)):
            if len(ex) > 1:
                yield {**pl, "exprs": ex[:i] + ex[i + 1:]}
        for i in range(len(ex)):
            for s in sx_shrinks(loads(ex[i])):
                yield {**pl, "exprs": ex[:i] + [dumps(s)] + ex[i + 1:]}

    def nontrivial_key(self, pl, model, impl):
        return " ".join(pl["exprs"]) + pl["env"] + str(pl["cached"])

    def stats(self, pl, mo, io, acc):
        acc["calls"] = acc.get("calls", 0) + len(pl["exprs"])
        acc["with_cse"] = acc.get("with_cse", 0) + (1 if any("CSE" in s for s in pl["exprs"]) else 0)


def expr_to_sx_roundtrip(e):
    return loads(dumps(expr_to_sx(e)))


def same_outcome_eq(ref, got):
    """Across a history, results may be shared between `==` keys (1 / True): compare with ==
    (and exact type for non-numbers)."""
    if ref[0] != got[0]:
        return False
    if ref[0] == "err":
        return ref[1:] == got[1:]
    from ..oracles.pyeval import loosely_equal
    return loosely_equal(ref[1], got[1])




# ---- numpy object arrays (foreign objects routed to map_numpy_array) ----------------------------------

class ArrayStream(Stream):
    """numpy object arrays of expressions (scalars, tuples, lists, nested arrays as entries): the
    evaluator must return an object array of the SAME shape whose entries are the values of the
    entries, evaluated in row-major order (first error wins).  Model side: the array read as the
    Python list of its entries in row-major order (`map_numpy_array` = `map_list` on `expr.flat`,
    re-shaped), i.e. `den` of a `.list` node; the shape and container types are judged by the oracle."""
    name = "arrays"

    SHAPES = [[0], [1], [2], [3], [4], [1, 1], [1, 2], [2, 1], [2, 2], [2, 3], [3, 2], [1, 1, 2],
              [2, 1, 2], [2, 2, 2], []]

    def cases(self, rng, tier):
        n = 500 if tier == "quick" else 6000
        g = ExprGen(rng)
        done = 0
        while done < n:
            shape = rng.choice(self.SHAPES)
            cnt = 1
            for d in shape:
                cnt *= d
            mode = rng.choice(["scalar", "scalar", "seq", "seq", "mixed"])
            seqlen = rng.randint(1, 3)
            seqkind = rng.choice(["tuple", "list"])
            entries = []
            for _ in range(cnt):
                k = mode if mode != "mixed" else rng.choice(["scalar", "seq"])
                if k == "scalar":
                    e = g.gen(rng.choice(["num", "int", "num", "any"]), rng.randint(1, 2))
                else:
                    items = [g.gen("num", rng.randint(1, 2))
                             for _ in range(seqlen if mode == "seq" else rng.randint(0, 3))]
                    kind = seqkind if mode == "seq" else rng.choice(["tuple", "list"])
                    e = tuple(items) if kind == "tuple" else list(items)
                entries.append(e)
            env = rand_env(rng)
            if not all(is_safe(e, env) for e in entries):
                continue
            done += 1
            yield {"shape": shape, "entries": [dumps(expr_to_sx(e)) for e in entries],
                   "env": dumps(env_to_sx(env)),
                   "entry": rng.choice(["call", "evaluate", "call", "evaluate", "cached"])}

    @staticmethod
    def _build(pl):
        import numpy as np
        arr = np.empty(tuple(pl["shape"]), dtype=object)
        flat = [sx_to_expr(loads(s)) for s in pl["entries"]]
        for i, idx in enumerate(np.ndindex(*pl["shape"])):
            arr[idx] = flat[i]
        return arr, flat

    @staticmethod
    def _run(pl, arr, env):
        from pymbolic.mapper.evaluator import EvaluationMapper, evaluate
        if pl["entry"] == "call":
            return EvaluationMapper(env)(arr)
        if pl["entry"] == "cached":
            return evaluate(arr, env)          # the default, memoizing mapper
        return evaluate(arr, env, mapper_cls=EvaluationMapper)

    def request(self, pl):
        # the TABLE INTERPRETER's array handler (`c02ArrayT` on the regenerated table)
        c = "true" if pl["entry"] == "cached" else "false"
        sh = " ".join(map(str, pl["shape"]))
        return f"(c02-evalarray {c} {pl['env']} ({sh}) ({' '.join(pl['entries'])}))"

    def run_impl(self, pl):
        import numpy as np
        arr, _ = self._build(pl)
        env = sx_to_env(loads(pl["env"]))

        def go():
            r = self._run(pl, arr, env)
            if not isinstance(r, np.ndarray) or r.dtype != object:
                return Malformed(r)
            return ArrayResult(list(r.shape), [r[idx] for idx in np.ndindex(*r.shape)])
        try:
            r = go()
        except RecursionError:
            raise
        except Exception as ex:
            return dumps(exc_to_sx(ex))
        if isinstance(r, Malformed):
            return "(malformed-result)"
        return dumps([A("array"), list(r.shape), [value_to_sx(v) for v in r.flat]])

    def oracle(self, pl):
        import numpy as np
        arr, flat = self._build(pl)
        env = sx_to_env(loads(pl["env"]))
        ref = outcome(lambda: [pyeval(e, env) for e in flat])
        got = outcome(lambda: self._run(pl, arr, dict(env)))
        if got[0] == "ok":
            r = got[1]
            if not isinstance(r, np.ndarray) or r.dtype != object or list(r.shape) != pl["shape"]:
                return Failure("eval-differs:ndarray-shape",
                               f"evaluating an object array of shape {pl['shape']} gives "
                               f"{type(r).__name__} dtype={getattr(r, 'dtype', None)} "
                               f"shape={getattr(r, 'shape', None)}", pl)
            got = ("ok", [r[idx] for idx in np.ndindex(*pl["shape"])])
        if (pl["entry"] == "cached" and got[:2] == ("err", "TypeError")
                and not same_outcome(ref, got)):
            return Failure("unhashable-ndarray", f"memoizing evaluator gives {got!r}, entry-wise "
                           f"plain Python gives {ref!r}", pl)
        if (got[:2] == ("err", "TypeError") and not same_outcome(ref, got)
                and any("(CSE" in s and "(List" in s for s in pl["entries"])):
            # the CSE result cache hashes a wrapper whose child contains a Python list
            return Failure("unhashable-list", f"evaluator gives {got!r}, entry-wise plain Python "
                           f"gives {ref!r}", pl)
        if not same_outcome(ref, got):
            return Failure("eval-differs:ndarray",
                           f"evaluator gives {got!r}, entry-wise plain Python gives {ref!r}", pl)
        return None

    def shrink(self, pl):
        for i, s in enumerate(pl["entries"]):
            for t in sx_shrinks(loads(s)):
                yield {**pl, "entries": pl["entries"][:i] + [dumps(t)] + pl["entries"][i + 1:]}

    def nontrivial_key(self, pl, model, impl):
        return None if not pl["entries"] else json_key(pl)

    def stats(self, pl, mo, io, acc):
        k = "shape_" + "x".join(map(str, pl["shape"])) if pl["shape"] else "shape_0d"
        acc[k] = acc.get(k, 0) + 1
        res = acc.setdefault("result_kinds", {})
        r = "err" if "(err" in io[:6] else "ok"
        res[r] = res.get(r, 0) + 1


class Malformed:
    """an evaluator result that is not an object array"""
    def __init__(self, r):
        self.r = r


class ArrayResult:
    def __init__(self, shape, flat):
        self.shape, self.flat = shape, flat


def json_key(pl):
    import json
    return json.dumps(pl, sort_keys=True)


# ---- T-gen tie: the table regenerated from the source of the evaluator ------------------------------

def extract(ctx=None):
    """lean/PV/Generated/Evaluator.lean from the live source (extract/evaluator.py)"""
    from extract.evaluator import extract_evaluator
    return extract_evaluator(ctx)


class _Reached(Exception):
    pass


def real_dispatch(obj, cached):
    """Which handler the REAL dispatch of the (plain / cached) evaluator reaches for `obj`: every
    `map_*` handler is replaced by a stub that reports its name (map_foreign is kept: it is part of
    the dispatch)."""
    from pymbolic.mapper import UnsupportedExpressionError
    from pymbolic.mapper.evaluator import CachedEvaluationMapper, EvaluationMapper
    base = CachedEvaluationMapper if cached else EvaluationMapper

    def stub(name):
        def handler(self, expr, *args, **kwargs):
            raise _Reached(name)
        return handler
    probe = type("Probe", (base,), {n: stub(n) for n in dir(base)
                                    if n.startswith("map_") and n != "map_foreign"})
    try:
        probe({})(obj)
    except _Reached as r:
        return f"(handler {r.args[0]})"
    except UnsupportedExpressionError:
        return "(unsupported)"
    except Exception as ex:
        return f"(foreign-error {type(ex).__name__})"
    return "(returned)"


DISPATCH_SAMPLES = [
    '(Var "x")', '(Sum (Var "x") (Int 1))', '(Product (Var "x") (Int 2))',
    '(BitwiseOr (Var "x") (Int 1))', '(BitwiseXor (Var "x") (Int 1))',
    '(BitwiseAnd (Var "x") (Int 1))', '(LogicalOr (Var "x") (Int 1))',
    '(LogicalAnd (Var "x") (Int 1))', '(Min (Var "x") (Int 1))', '(Max (Var "x") (Int 1))',
    '(Quotient (Var "x") (Int 2))', '(FloorDiv (Var "x") (Int 2))', '(Remainder (Var "x") (Int 2))',
    '(Power (Var "x") (Int 2))', '(LeftShift (Var "x") (Int 2))', '(RightShift (Var "x") (Int 2))',
    '(BitwiseNot (Var "x"))', '(LogicalNot (Var "x"))', '(Comparison (Var "x") "<" (Int 2))',
    '(If (Var "x") (Int 1) (Int 2))', '(Call (Var "f") ((Var "x")))',
    '(CallKw (Var "f") ((Var "x")) ("k") ((Int 1)))', '(Subscript (Var "x") (Int 0))',
    '(Lookup (Var "x") "a")', '(CSE (Var "x") nil "s")',
    '(Substitution (Var "x") ("x") ((Int 1)))', '(Derivative (Var "x") ("x"))',
    '(Slice (Int 1) (Int 2))', '(NaN)', '(Wildcard)', '(DotWildcard "a")', '(StarWildcard "a")',
    '(FunctionSymbol)',
    '(Int 3)', '(Bool true)', '(Flt "0.5" 1 2)', '(Str "s")', 'nil',
    '(Tuple (Int 1) (Var "x"))', '(List (Int 1) (Var "x"))', '(Tuple)', '(List)',
]


class TableDispatchStream(Stream):
    """T-gen tie, dispatch half: the handler the regenerated table (class -> handler reached,
    `map_foreign` rules, constant kinds) assigns to an object of every node class / foreign kind of
    the IR, against the handler the real dispatch of both mapper classes reaches."""
    name = "table-dispatch"

    def cases(self, rng, tier):
        for sx in DISPATCH_SAMPLES:
            for cached in (False, True):
                if cached and sx.startswith("(List"):
                    continue    # the cache key is hashed before the dispatch (known finding)
                yield {"expr": sx, "cached": cached}

    def request(self, pl):
        return f"(c02-dispatch {pl['expr']})"

    def run_impl(self, pl):
        return real_dispatch(sx_to_expr(loads(pl["expr"])), pl["cached"])

    def nontrivial_key(self, pl, model, impl):
        return pl["expr"].split(" ")[0] + str(pl["cached"])


class TableEvalStream(Stream):
    """T-gen tie, meaning half: the TABLE INTERPRETER (`c02EvalT`, compiled) run on the table
    regenerated from the source, against the real evaluator, on histories of calls on one mapper
    instance (plain and cached) and on single evaluations through the four entry points.  The Lean
    theorem `evalNode_eq_table_current` says this interpreter is the hand-written model; this
    stream checks the same thing from the other side, on the compiled artefacts."""
    name = "table-eval"

    def __init__(self):
        self._hist = HistStream()
        self._den = DenStream()

    def cases(self, rng, tier):
        import itertools
        n_h, n_d = (120, 1200) if tier == "quick" else (1500, 15000)
        for pl in itertools.islice(self._hist.cases(random.Random(rng.random()), "quick"
                                                    if tier == "quick" else "thorough"), n_h):
            yield {"kind": "hist", **pl}
        g = ExprGen(rng, cse=0.15)
        for i in range(n_d):
            ctx = rng.choice(["num", "num", "int", "bool", "any"])
            e = g.gen(ctx, rng.randint(1, 5))
            env = rand_env(rng, big=(i % 7 == 0))
            if not is_safe(e, env):
                continue
            yield {"kind": "den", "expr": dumps(expr_to_sx(e)), "env": dumps(env_to_sx(env)),
                   "variant": VARIANTS[i % 4]}

    def request(self, pl):
        if pl["kind"] == "hist":
            c = "true" if pl["cached"] else "false"
            return f"(c02-evalhist {c} {pl['env']} ({' '.join(pl['exprs'])}))"
        c = "false" if pl["variant"] == "plain" else "true"
        return f"(c02-evalhist {c} {pl['env']} ({pl['expr']}))"

    def run_impl(self, pl):
        if pl["kind"] == "hist":
            return self._hist.run_impl(pl)
        return "(" + self._den.run_impl(pl) + ")"

    def nontrivial_key(self, pl, model, impl):
        if pl["kind"] == "hist":
            return self._hist.nontrivial_key(pl, model, impl)
        return self._den.nontrivial_key(pl, model, impl)

    def stats(self, pl, mo, io, acc):
        acc[pl["kind"]] = acc.get(pl["kind"], 0) + 1


PROP = Prop(
    id="C02",
    title="Evaluation gives every node type its standard meaning",
    lean_targets=["PV.Properties.C02", "PV.Properties.C02Table", "PV.Properties.C02Proc"],
    extractors=[extract],
    streams=[PyNumStream(), DenStream(), HistStream(), ArrayStream(), TableDispatchStream(),
             TableEvalStream(), FreeNameStream(), ProcHistStream()],
    trusted_base=[
        "Lean 4.33 kernel; axioms propext, Classical.choice, Quot.sound only",
        "PyNum (lean/PV/Model/PyNum.lean): model of CPython int/bool/Fraction arithmetic, "
        "validated on every run by the exhaustive pynum-box stream against CPython",
        "harness/sexp.py serialisation and harness/props/c02.py correspondence",
        "extract/evaluator.py: the reader of the handler source text (inspect + ast) and the "
        "meaning lean/PV/Model/EvalTable.lean gives to the handler language (both exercised by the "
        "table-eval / table-dispatch streams against the real evaluator)",
        "floats/complex are outside the exact model (model abstains); numpy object arrays are modelled as "
        "(shape, row-major entries) with the handler body recognised by shape (array_handler_current)",
    ],
    level_text="Lean theorems (unbounded in tree depth, arity and history length): the evaluator as "
               "coded, plain or memoizing, with its CSE cache, returns exactly the compositional "
               "denotation `den` (value or error) after any history of calls; conditionals are "
               "branch-lazy; unknown variables are named. The hand-written model is proved equal "
               "(evalNode_eq_table_current, all nodes/environments/states) to a table interpreter "
               "run on the handler table REGENERATED on every run from the source text of "
               "EvaluationMapper / CSECachingMapperMixin / CachedMapper.__call__ (operators, operand "
               "order, fold start values, lazy branches, call order, caches are read from the "
               "source). The model is tied to the code by an "
               "exhaustive CPython operator box and by ~27k random/exhaustive-small evaluations "
               "per quick run through all four entry points. numpy object arrays: the handler is "
               "re-read from the source (array_handler_current), arrays mean their entries in "
               "row-major order with the same shape (array_eq_den_current), the memoizing "
               "evaluator raises on them (array_cached_raises_current, known finding); arrays "
               "stream through the compiled table interpreter. Process histories (C02Proc): many "
               "evaluator objects in one process - fresh entry points in differing environments and "
               "long-lived instances - each return the meaning of their expression in their own "
               "environment (process_history_eq_den, process_history_table_eq_den_current); "
               "variables of any name (missing_var_reported, bound_var_value) and common "
               "subexpressions of any scope (cse_any_scope_means_child); tied by the free-names and "
               "process-history streams.",
    level_note="Trusted: Lean kernel (+ propext, Classical.choice, Quot.sound); PyNum as a model of "
               "CPython int/bool/Fraction arithmetic (validated exhaustively on a value box each "
               "run); the S-expression harness. Floats/complex/numpy scalars are outside the exact model "
               "(model abstains). Theorems assume a coherent universe (no two `==`-but-different "
               "subterms such as 1 vs True in one history) and no Python lists (known finding).",
    technique="Lean 4 simulation proof (stateful evaluator refines denotation) + differential "
              "correspondence of the compiled model against EvaluationMapper/CachedEvaluationMapper",
    design_ref="DESIGN.md §4 C02",
    assumptions=[
        "the environment is not mutated during an evaluator's lifetime",
        "environment functions are pure (uninterpreted constructors in the model)",
    ],
)
