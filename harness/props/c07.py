"""C07 — the parser reads the syntax it shares with Python the way Python does."""
from __future__ import annotations

import ast
import itertools

import pymbolic.primitives as p

from ..core import Failure, Prop, Stream
from ..sexp import A, dumps, exc_to_sx, expr_to_sx, loads, q
from ..syntax import codes, flatten_assoc, lex_tokens, real_lex_raw
from .c06 import extract


class NotShared(Exception):
    pass


def py_tree(node):
    """The tree Python's own parser assigns, written in pymbolic node types (independent of
    pymbolic's importer).  n-ary sums/products are compared after flattening."""
    if isinstance(node, ast.Expression):
        return py_tree(node.body)
    if isinstance(node, ast.Constant):
        if isinstance(node.value, (bool, int, float)):
            return node.value
        raise NotShared("constant")
    if isinstance(node, ast.Name):
        return p.Variable(node.id)
    if isinstance(node, ast.BinOp):
        l, r = py_tree(node.left), py_tree(node.right)
        t = type(node.op)
        if t is ast.Add:
            return p.Sum((l, r))
        if t is ast.Sub:
            return p.Sum((l, neg(r)))
        if t is ast.Mult:
            return p.Product((l, r))
        if t is ast.Div:
            return p.Quotient(l, r)
        if t is ast.FloorDiv:
            return p.FloorDiv(l, r)
        if t is ast.Mod:
            return p.Remainder(l, r)
        if t is ast.Pow:
            return p.Power(l, r)
        if t is ast.LShift:
            return p.LeftShift(l, r)
        if t is ast.RShift:
            return p.RightShift(l, r)
        if t is ast.BitOr:
            return p.BitwiseOr((l, r))
        if t is ast.BitXor:
            return p.BitwiseXor((l, r))
        if t is ast.BitAnd:
            return p.BitwiseAnd((l, r))
        raise NotShared(t.__name__)
    if isinstance(node, ast.UnaryOp):
        x = py_tree(node.operand)
        t = type(node.op)
        if t is ast.USub:
            return neg(x)
        if t is ast.UAdd:
            return x
        if t is ast.Invert:
            return p.BitwiseNot(x)
        if t is ast.Not:
            return p.LogicalNot(x)
    if isinstance(node, ast.BoolOp):
        cls = p.LogicalAnd if isinstance(node.op, ast.And) else p.LogicalOr
        vals = [py_tree(v) for v in node.values]
        acc = vals[0]
        for v in vals[1:]:
            acc = cls((acc, v))
        return acc
    if isinstance(node, ast.Compare):
        ops = {ast.Eq: "==", ast.NotEq: "!=", ast.Lt: "<", ast.LtE: "<=", ast.Gt: ">", ast.GtE: ">="}
        operands = [py_tree(node.left)] + [py_tree(c) for c in node.comparators]
        parts = []
        for o, a, b in zip(node.ops, operands, operands[1:]):
            if type(o) not in ops:
                raise NotShared("cmp")
            parts.append(p.Comparison(a, ops[type(o)], b))
        acc = parts[0]
        for c in parts[1:]:
            acc = p.LogicalAnd((acc, c))
        return acc
    if isinstance(node, ast.IfExp):
        return p.If(py_tree(node.test), py_tree(node.body), py_tree(node.orelse))
    if isinstance(node, ast.Call):
        f = py_tree(node.func)
        args = tuple(py_tree(a) for a in node.args)
        if node.keywords:
            return p.CallWithKwargs(f, args, {k.arg: py_tree(k.value) for k in node.keywords})
        return p.Call(f, args)
    if isinstance(node, ast.Subscript):
        if isinstance(node.slice, ast.Slice):
            raise NotShared("slice")
        return p.Subscript(py_tree(node.value), py_tree(node.slice))
    if isinstance(node, ast.Attribute):
        return p.Lookup(py_tree(node.value), node.attr)
    if isinstance(node, ast.Tuple):
        return tuple(py_tree(e) for e in node.elts)
    raise NotShared(type(node).__name__)


def neg(x):
    if isinstance(x, (int, float)) and not isinstance(x, bool):
        return -x
    if isinstance(x, bool):
        return -x
    return p.Product((-1, x))


def norm_neg(e):
    """equivalence used for the importer: (-1)*c for a numeric constant c is the constant -c"""
    import dataclasses
    if isinstance(e, tuple):
        return tuple(norm_neg(c) for c in e)
    if not isinstance(e, p.Expression) or not dataclasses.is_dataclass(e):
        return e
    if isinstance(e, p.Product) and len(e.children) == 2 and e.children[0] == -1 \
            and isinstance(e.children[1], (int, float)):
        return -e.children[1]
    kw = {}
    for f in dataclasses.fields(e):
        v = getattr(e, f.name)
        if isinstance(v, tuple) and f.name in ("children", "parameters"):
            kw[f.name] = tuple(norm_neg(c) for c in v)
        elif hasattr(v, "items"):
            kw[f.name] = {k: norm_neg(c) for k, c in v.items()}
        elif isinstance(v, (p.Expression, tuple)):
            kw[f.name] = norm_neg(v)
        else:
            kw[f.name] = v
    return type(e)(**kw)


def expected(s):
    return flatten_assoc(py_tree(ast.parse(s, mode="eval")))


def mismatch(s):
    """None if pymbolic.parse(s) has Python's grouping, else a description"""
    from pymbolic import parse
    try:
        want = expected(s)
    except (SyntaxError, NotShared, RecursionError):
        return None
    try:
        got = parse(s)
    except Exception as ex:
        return f"parse({s!r}) raises {type(ex).__name__}, Python groups it as {want!r}"
    if flatten_assoc(got) != want:
        return f"parse({s!r}) = {got!r}, Python groups it as {want!r}"
    return None


BIN = ["+", "-", "*", "/", "//", "%", "**", "<<", ">>", "&", "|", "^", "==", "<", "and", "or"]
PRE = ["-", "~", "not ", "+"]


def skeletons2():
    """every form with at most two operators (prefix / binary / ternary), no parentheses"""
    for o in BIN:
        yield f"a {o} b", ("bin", o)
    for u in PRE:
        yield f"{u}a", ("pre", u)
    yield "a if b else c", ("if",)
    for o1, o2 in itertools.product(BIN, BIN):
        yield f"a {o1} b {o2} c", ("bin-bin", o1, o2)
    for u, o in itertools.product(PRE, BIN):
        yield f"{u}a {o} b", ("pre-bin", u, o)
        yield f"a {o} {u}b", ("bin-pre", o, u)
    for u1, u2 in itertools.product(PRE, PRE):
        yield f"{u1}{u2}a", ("pre-pre", u1, u2)
    for o in BIN:
        yield f"a {o} b if c else d", ("bin-if", o)
        yield f"a if b {o} c else d", ("if-cond-bin", o)
        yield f"a if b else c {o} d", ("if-bin", o)
    for u in PRE:
        yield f"{u}a if b else c", ("pre-if", u)
        yield f"a if b else {u}c", ("if-pre", u)
    yield "a if b else c if d else e", ("if-if",)
    yield "f(a if b else c, d)", ("call-if",)
    yield "f(a, k=b if c else d, l=e)", ("callkw-if",)
    yield "f(k=a if b else c)", ("callkw-if-last",)
    yield "f(a, b if c else d)", ("call-if-last",)
    yield "f(a or b, k=c or d)", ("call-or",)
    yield "(a if b else c, d)", ("tuple-if",)
    yield "a < b < c", ("chain",)
    yield "a[b if c else d]", ("index-if",)
    yield "a[b, c]", ("index-tuple",)
    yield "a.b.c(d)[e]", ("postfix",)
    yield "-a.b", ("pre-attr",)
    yield "-a[b]", ("pre-index",)
    yield "-f(a)", ("pre-call",)
    yield "a ** -b", ("pow-neg",)
    yield "2 ** -1", ("pow-neg-const",)
    yield "-2 ** 2", ("neg-const-pow",)


def skeletons3():
    for o1, o2, o3 in itertools.product(BIN, BIN, BIN):
        yield f"a {o1} b {o2} c {o3} d", ("bin3", o1, o2, o3)
    for u, o1, o2 in itertools.product(PRE, BIN, BIN):
        yield f"{u}a {o1} b {o2} c", ("pre-bin-bin", u, o1, o2)
        yield f"a {o1} {u}b {o2} c", ("bin-pre-bin", o1, u, o2)


def _ast_shrinks(tree):
    """smaller Python expression trees: replace a subtree by a fresh name, or hoist a child"""
    import copy

    def nodes(n, path=()):
        yield path, n
        for field, val in ast.iter_fields(n):
            if isinstance(val, ast.AST) and isinstance(val, ast.expr):
                yield from nodes(val, path + ((field, None),))
            elif isinstance(val, list):
                for i, v in enumerate(val):
                    if isinstance(v, ast.expr):
                        yield from nodes(v, path + ((field, i),))
                    elif isinstance(v, ast.keyword):
                        yield from nodes(v.value, path + ((field, i), ("value", None)))

    def get(n, path):
        for field, i in path:
            n = getattr(n, field)
            if i is not None:
                n = n[i]
        return n

    def put(root, path, new):
        root = copy.deepcopy(root)
        if not path:
            return new
        parent = get(root, path[:-1])
        field, i = path[-1]
        if i is None:
            setattr(parent, field, new)
        else:
            getattr(parent, field)[i] = new
        return root

    all_nodes = list(nodes(tree))
    for path, n in all_nodes:
        if path:      # hoist this subtree to the top
            yield copy.deepcopy(n)
    for path, n in all_nodes:
        if not isinstance(n, ast.Name) and path:
            yield put(tree, path, ast.Name(id="z9", ctx=ast.Load()))
    for path, n in all_nodes:
        if isinstance(n, ast.Constant) or (isinstance(n, ast.Name) and n.id != "z9"):
            continue


def minimal_failing(s):
    """shrink a string with a grouping mismatch to a minimal one (Python-AST based; ast.unparse
    keeps Python's grouping with minimal parentheses), then rename operands canonically"""
    try:
        cur = ast.parse(s, mode="eval").body
    except SyntaxError:
        return s
    improved = True
    steps = 0
    while improved and steps < 200:
        improved = False
        for cand in _ast_shrinks(cur):
            steps += 1
            try:
                text = ast.unparse(cand)
            except Exception:
                continue
            if _size(cand) < _size(cur) and mismatch(text) is not None:
                cur = cand
                improved = True
                break
    # operator skeleton: operands become `_`, comparison operators the class CMP
    for n in ast.walk(cur):
        if isinstance(n, ast.Name):
            n.id = "_"
        elif isinstance(n, ast.Constant):
            n.value = 0
        elif isinstance(n, ast.keyword):
            n.arg = "k"
    if isinstance(cur, ast.Compare) and len(cur.ops) > 1:
        return "chained-comparison"
    text = ast.unparse(cur).replace("0", "_")
    import re
    text = text.replace("<<", "SHL").replace(">>", "SHR")
    text = re.sub(r"==|!=|<=|>=|<|>", "CMP", text)
    return text.replace("SHL", "<<").replace("SHR", ">>")


def _size(n):
    return sum(1 for _ in ast.walk(n))


def classify(s):
    return "py-grouping:" + minimal_failing(s)


class Skeletons(Stream):
    """pymbolic.parse vs the model parser on the real lexer's tokens, and vs Python's own grouping"""
    name = "skeletons"

    def cases(self, rng, tier):
        for s, k in skeletons2():
            yield {"text": s, "kind": k[0]}
        if tier != "quick":
            for s, k in skeletons3():
                yield {"text": s, "kind": k[0]}
        else:
            for s, k in rng.sample(list(skeletons3()), 1500):
                yield {"text": s, "kind": k[0]}
        # random longer strings with random parenthesisation
        n = 1500 if tier == "quick" else 60000
        for _ in range(n):
            yield {"text": rand_string(rng, rng.randint(2, 5)), "kind": "random"}
        for s in ["a b", "a +", "(a", "a)", "a + * b", "f(a,, b)", "f(a b)", "a[", "a if b", "a if b else",
                  "", "(", "a.", "a.1", "1 +", "f(k=1, 2)", "a, b", "(a, b)", "(a,)", "()", "a,", "f()",
                  "f(a,)", "a[b](c).d", "1.5e3 + 2", "1e-3", "0.5", ".5", "5.", "a and not b",
                  "not a and b", "not a == b", "not a in b"]:
            yield {"text": s, "kind": "edge"}
        # tuples, parentheses, trailing commas (nesting depth and arity as Python gives them)
        yield from tuple_payloads(rng, tier)

    def request(self, pl):
        toks = lex_tokens(pl["text"])
        if toks is None:
            return "(parse 0 ((sym \"$lexer-rejects$\")))"
        return f"(parse 0 ({' '.join(toks)}))"

    def run_impl(self, pl):
        from pymbolic import parse
        from pytools.lex import ParseError
        if lex_tokens(pl["text"]) is None:
            return "(err ParseError)"
        try:
            r = parse(pl["text"])
        except ParseError:
            return "(err ParseError)"
        except RecursionError:
            raise
        except Exception as ex:
            return dumps(exc_to_sx(ex))
        try:
            return dumps(expr_to_sx(r))
        except Exception as ex:
            return f"(unencodable {type(ex).__name__})"

    def agree(self, model, impl, pl):
        if lex_tokens(pl["text"]) is None:
            return "trivial"
        return super().agree(model, impl, pl)

    def oracle(self, pl):
        if "node" in pl:
            return tuple_tree_oracle(pl)
        m = mismatch(pl["text"])
        if m is None:
            return None
        return Failure(classify(pl["text"]), m, pl)

    def nontrivial_key(self, pl, model, impl):
        return pl["text"] if not impl.startswith("(err") else None

    def stats(self, pl, mo, io, acc):
        acc[pl["kind"]] = acc.get(pl["kind"], 0) + 1


def rand_string(rng, nops):
    def atom():
        k = rng.random()
        if k < 0.6:
            return rng.choice(["a", "b", "c", "x1"])
        if k < 0.8:
            return str(rng.randint(0, 9))
        if k < 0.9:
            return rng.choice(["f(a)", "g(a, k=b)", "v[a]", "v.u"])
        return rng.choice(["1.5", "True"])

    def gen(n):
        if n == 0:
            return atom()
        k = rng.random()
        if k < 0.15:
            return rng.choice(PRE) + gen(n - 1)
        if k < 0.25 and n >= 2:
            i = rng.randint(0, n - 2)
            j = rng.randint(0, n - 2 - i)
            return f"{gen(i)} if {gen(j)} else {gen(n - 2 - i - j)}"
        i = rng.randint(0, n - 1)
        l, r = gen(i), gen(n - 1 - i)
        if rng.random() < 0.3:
            l = f"({l})"
        if rng.random() < 0.3:
            r = f"({r})"
        return f"{l} {rng.choice(BIN)} {r}"
    return gen(nops)


class Importer(Stream):
    """ASTToPymbolic applied to Python's parse of the string yields a tree equivalent to the
    parser's (oracle only)"""
    name = "ast-importer"
    has_model = False

    def cases(self, rng, tier):
        for s, k in skeletons2():
            yield {"text": s}
        for _ in range(400 if tier == "quick" else 8000):
            yield {"text": rand_string(rng, rng.randint(1, 4))}
        for pl in tuple_payloads(rng, tier):
            yield {"text": pl["text"]}

    def run_impl(self, pl):
        return "(oracle-only)"

    def oracle(self, pl):
        from pymbolic.interop.ast import ASTToPymbolic
        s = pl["text"]
        try:
            want = expected(s)
        except (SyntaxError, NotShared):
            return None
        try:
            got = ASTToPymbolic()(ast.parse(s, mode="eval").body)
        except NotImplementedError as ex:
            what = [n for n in ("BoolOp", "UAdd", "Slice") if n in str(ex)]
            import re
            m = re.search(r"type '(\w+)'", str(ex)) or re.search(r"operator '(\w+)'", str(ex))
            return Failure("importer-unsupported:" + (m.group(1) if m else "node"),
                           f"ASTToPymbolic raises NotImplementedError on {s!r}: {ex}", pl)
        except Exception as ex:
            tree = ast.parse(s, mode="eval")
            if any(isinstance(n, ast.Compare) and len(n.ops) > 1 for n in ast.walk(tree)):
                return Failure("importer-chained-comparison", f"{s!r}: {ex!r}", pl)
            return Failure("importer-raises:" + type(ex).__name__, f"{s!r}: {ex!r}", pl)
        if norm_neg(flatten_assoc(got)) != norm_neg(want):
            return Failure("importer-differs", f"ASTToPymbolic({s!r}) = {got!r}, expected {want!r}", pl)
        return None

    def nontrivial_key(self, pl, model, impl):
        return pl["text"]



class ImporterHistory(Stream):
    """ONE long-lived ASTToPymbolic for a whole family of strings, each Python AST a TEMPORARY
    (parsed inside the call, dropped afterwards, `gc.collect()` every few members): the importer's
    answer for a string must not depend on what the same instance imported earlier.  Judged
    against the same independent reading (`expected`: CPython's own parse) as `ast-importer`, and
    only where a FRESH importer gets that string right (its own deviations are `ast-importer`'s
    business).  Oracle only."""
    name = "ast-importer-history"
    has_model = False

    def cases(self, rng, tier):
        fams = 12 if tier == "quick" else 150
        for _ in range(fams):
            nops = rng.randint(1, 3)
            texts = []
            # same operator count => same number and sizes of AST nodes: the freed blocks of one
            # member are what the next member's nodes are allocated in
            for _ in range(rng.randint(25, 45)):
                texts.append(rand_string(rng, nops))
            yield {"texts": texts, "gc_every": rng.choice([1, 2, 5])}
        # every two-operator skeleton, in order, through one importer
        yield {"texts": [s for s, _k in skeletons2()], "gc_every": 1}

    def run_impl(self, pl):
        return "(oracle-only)"

    @staticmethod
    def _import(importer, s):
        # the AST is referenced by this frame's evaluation stack only
        try:
            return norm_neg(flatten_assoc(importer(ast.parse(s, mode="eval").body)))
        except RecursionError:
            raise
        except Exception as ex:
            return ("raises", type(ex).__name__)

    def oracle(self, pl):
        import gc
        from pymbolic.interop.ast import ASTToPymbolic
        importer = ASTToPymbolic()
        for i, s in enumerate(pl["texts"]):
            try:
                want = norm_neg(expected(s))
            except (SyntaxError, NotShared):
                continue
            got = self._import(importer, s)
            if got != want:
                fresh = self._import(ASTToPymbolic(), s)
                if fresh == want:
                    return Failure("importer-depends-on-history",
                                   f"one ASTToPymbolic instance, string #{i} {s!r} after "
                                   f"{pl['texts'][:i][-3:]!r}: {got!r}, a fresh importer gives "
                                   f"{fresh!r}", pl)
            del got
            if i % pl.get("gc_every", 1) == 0:
                gc.collect()
        return None

    def shrink(self, pl):
        t = pl["texts"]
        if len(t) > 2:
            yield {"texts": t[len(t) // 2:], "gc_every": pl.get("gc_every", 1)}
            yield {"texts": t[:len(t) // 2 + 1], "gc_every": pl.get("gc_every", 1)}
            for i in range(len(t)):
                yield {"texts": t[:i] + t[i + 1:], "gc_every": pl.get("gc_every", 1)}

    def nontrivial_key(self, pl, model, impl):
        return "|".join(pl["texts"][:3])


# {{{ strings through the lexer MODEL (PV/Model/Lexer.lean)

class SkeletonStrings(Skeletons):
    """the same population, but the STRING goes to the model (model lexer on the regenerated
    table, then model parser) and is compared with `pymbolic.parse(string)`; the oracle is
    Python's grouping as in `skeletons`"""
    name = "skeleton-strings"

    def request(self, pl):
        return f"(parsestr 0 {codes(pl['text'])})"

    def run_impl(self, pl):
        import warnings

        import pytools.lex
        from pymbolic import parse
        try:
            with warnings.catch_warnings():
                warnings.simplefilter("ignore")
                r = parse(pl["text"])
        except pytools.lex.ParseError:
            return "(err ParseError)"
        except pytools.lex.InvalidTokenError as ex:
            return f"(err InvalidTokenError {ex.index})"
        except RecursionError:
            raise
        except ValueError as ex:
            return "(err FloatValueError)" if "float" in str(ex) else "(err ValueError)"
        except Exception as ex:
            return dumps(exc_to_sx(ex))
        try:
            return dumps(expr_to_sx(r))
        except Exception as ex:
            return f"(unencodable {type(ex).__name__})"

    def agree(self, model, impl, pl):
        if model in ("(err FloatValueError)", "(err AssertionError)") or model.startswith("(noclaim"):
            return "ok" if model == impl else "trivial"
        return Stream.agree(self, model, impl, pl)


SHARED_NAMES = ["a", "b", "x1", "foo", "_t", "order", "android", "nothing", "iffy", "elsewhere", "e",
                "E5", "j", "d", "i", "Tru", "T", "in_", "x_y", "A", "Trueish", "False_", "Truex"]
SHARED_INTS = ["0", "1", "7", "10", "42", "1000000", "12345678901234567890"]
SHARED_FLOATS = ["1.5", "0.5", "2.", ".5", "1e5", "1E5", "1.5e-3", "1e+5", "0.0", "10.25", "3.e2",
                 "1e-07", "6.02e23", "12.", ".125"]
SHARED_OPS = ["+", "-", "*", "/", "//", "%", "**", "<<", ">>", "&", "|", "~", "^", "<", ">", "<=", ">=",
              "==", "!=", "(", ")", "[", "]", ",", ".", ":", "="]
SHARED_KW = ["and", "or", "not", "if", "else", "True", "False"]
KW_TAGS = {"and": "and", "or": "or", "not": "not", "if": "if", "else": "else", "True": "True",
           "False": "False"}


def python_tokens(s):
    """token strings of Python's own tokenizer (names, numbers, operators); None when it rejects
    the string or when a number is directly followed by a name or number (`0a`, `1.5a`, `1if`: the
    tokenize module splits them, the language does not accept them)"""
    import io
    import tokenize
    import warnings
    out = []
    prev = None
    try:
        with warnings.catch_warnings():
            warnings.simplefilter("ignore")
            for t in tokenize.generate_tokens(io.StringIO(s).readline):
                if t.type in (tokenize.NAME, tokenize.NUMBER, tokenize.OP):
                    if (prev is not None and prev.type == tokenize.NUMBER and prev.end == t.start
                            and t.type in (tokenize.NAME, tokenize.NUMBER)):
                        return None
                    out.append(t.string)
                    prev = t
                elif t.type == tokenize.ERRORTOKEN:
                    return None
    except Exception:
        return None
    return out


def token_class(t):
    if t in SHARED_KW:
        return "keyword:" + t
    if t in SHARED_OPS:
        return "operator"
    if t[0].isalpha() or t[0] == "_":
        return "name"
    return "int" if t.isdigit() else "float"


class LexShared(Stream):
    """token sequences of the syntax shared with Python, joined with random spacing: the model lexer
    vs `pytools.lex.lex` (correspondence), and the real lexer vs PYTHON'S tokenizer (oracle): the
    string must be split into the same token strings, numbers lexed as int / float, names as
    identifiers, keywords under their own tags.  Only strings that Python's tokenizer splits into
    exactly the intended tokens count."""
    name = "lex-shared"

    def cases(self, rng, tier):
        def tok():
            k = rng.random()
            if k < 0.3:
                return rng.choice(SHARED_NAMES)
            if k < 0.4:
                return rng.choice(SHARED_INTS)
            if k < 0.55:
                return rng.choice(SHARED_FLOATS)
            if k < 0.9:
                return rng.choice(SHARED_OPS)
            return rng.choice(SHARED_KW)

        def wordlike(t):
            return t[0].isalnum() or t[0] in "_." and len(t) > 1

        def join(ts):
            out = []
            for i, t in enumerate(ts):
                if i:
                    prev = ts[i - 1]
                    if (wordlike(prev) or prev[-1].isalnum()) and (wordlike(t) or t[0].isalnum()):
                        out.append(rng.choice([" ", " ", "  ", "\t"]))
                    else:
                        out.append(rng.choice(["", "", " ", "  "]))
                out.append(t)
            return "".join(out)
        # every ordered pair of tokens, with and without a space
        allt = SHARED_NAMES[:3] + SHARED_INTS[:3] + SHARED_FLOATS[:6] + SHARED_OPS + SHARED_KW
        for a in allt:
            for b in allt:
                yield {"toks": [a, b], "text": a + " " + b, "kind": "pair"}
                yield {"toks": [a, b], "text": a + b, "kind": "pair-adjacent"}
        for _ in range(1500 if tier == "quick" else 40000):
            ts = [tok() for _ in range(rng.randint(1, 9))]
            yield {"toks": ts, "text": join(ts), "kind": "random"}
        yield {"toks": ["Trueish"], "text": "Trueish", "kind": "directed"}
        yield {"toks": ["a", "+", "Falsehood"], "text": "a + Falsehood", "kind": "directed"}

    def request(self, pl):
        return f"(lexraw {codes(pl['text'])})"

    def run_impl(self, pl):
        return real_lex_raw(pl["text"])

    def oracle(self, pl):
        import pytools.lex
        from pymbolic.parser import Parser
        want = pl["toks"]
        if python_tokens(pl["text"]) != want:
            return None          # not a string of the shared syntax with these tokens
        try:
            lexed = [(t, x) for t, x, _ in pytools.lex.lex(Parser.lex_table, pl["text"])
                     if t != "whitespace"]
        except pytools.lex.InvalidTokenError as ex:
            return Failure("lex-rejects-shared", f"{pl['text']!r}: InvalidTokenError at {ex.index}", pl)
        got = [x for _, x in lexed]
        if got != want:
            i = next((k for k, (g, w) in enumerate(zip(got, want)) if g != w), min(len(got), len(want)))
            w = want[i] if i < len(want) else want[-1]
            cls = "True-prefix" if w.startswith(("True", "False")) and w not in SHARED_KW else token_class(w)
            return Failure("lex-differs-from-python:" + cls,
                           f"{pl['text']!r}: lexer gives {got}, Python's tokenizer {want}", pl)
        for (tag, x) in lexed:
            c = token_class(x)
            ok = {"name": tag == "identifier", "int": tag == "int", "float": tag == "float",
                  "operator": True}.get(c)
            if ok is None:
                ok = tag == KW_TAGS[x]
            if not ok:
                return Failure("lex-tag:" + c, f"{pl['text']!r}: {x!r} lexed as {tag}", pl)
        return None

    def shrink(self, pl):
        ts = pl["toks"]
        for i in range(len(ts)):
            t2 = ts[:i] + ts[i + 1:]
            if t2:
                yield {"toks": t2, "text": " ".join(t2), "kind": pl["kind"]}

    def nontrivial_key(self, pl, model, impl):
        return pl["text"] if python_tokens(pl["text"]) == pl["toks"] else None

    def stats(self, pl, mo, io, acc):
        acc[pl["kind"]] = acc.get(pl["kind"], 0) + 1
        if python_tokens(pl["text"]) == pl["toks"]:
            acc["shared"] = acc.get("shared", 0) + 1


def probe_true_prefix():
    """the repaired `True` / `False` rules without `\\b` (fixed: a VIOLATION if the defect returns)"""
    import pytools.lex
    from pymbolic.parser import Parser
    out = []
    for s in ("Trueish", "a + Falsehood", "f(True, Falsex)"):
        got = [x for t, x, _ in pytools.lex.lex(Parser.lex_table, s) if t != "whitespace"]
        want = python_tokens(s)
        out.append(("lex-differs-from-python:True-prefix", got != want,
                    f"{s!r}: lexer gives {got}, Python's tokenizer {want}"))
    return out

# }}}


# {{{ the tuple family: nesting depth and arity of tuples, parentheses, trailing commas

# A string of the family is the rendering of a small tree (JSON lists, so that payloads, replays and
# the shrinker work on the structure and not on the text):
#   ["n", name]                           a name / integer literal
#   ["t", elems, trailing, parens]        a tuple display `e1, e2[,]` with or without its parentheses;
#                                         no element: `()`; one element without trailing comma: the
#                                         plain parenthesised group `(e)`
#   ["call", fn, args, [[kw, v] …], trailing]     `f(e1, e2, k=v[,])`
#   ["idx", aggregate, index]             `x[e]`; the index may be a tuple display WITHOUT parentheses
#   ["if", then, cond, else]              `t if c else e`
#   ["cmp", op, left, right]              `l == r`
# Where Python's grammar needs them (a display as an element / operand, a conditional as an element
# or operand, a comparison as an operand) the renderer adds plain parentheses, so every rendering is
# a Python expression and the only commas an `else` branch meets are the ones listed in TF_ELSE.

TF_ATOMS = ["a", "b", "c"]
TF_FN = ["n", "f"]
TF_AGG = ["n", "x"]
#: conditionals whose else-branch is followed by a comma (the known `else` findings keep their keys)
TF_ELSE = ["a if b else c, d", "(a if b else c, d)", "f(a if b else c, d)", "x[a if b else c, d]",
           "(a, b) if c else d, a", "((a if b else c, d),)", "(a if b else c, d),"]


def tf_render(n, ctx="top"):
    """ctx: top / index (anything goes), elem (tuple element, call argument), operand"""
    k = n[0]
    if k == "n":
        return n[1]
    if k == "t":
        _, elems, trailing, parens = n
        inner = ", ".join(tf_render(e, "elem") for e in elems)
        if trailing and elems:
            inner += ","
        if parens or not elems or ctx in ("elem", "operand"):
            return "(" + inner + ")"
        return inner
    if k == "call":
        _, fn, args, kws, trailing = n
        parts = [tf_render(a, "elem") for a in args] + [f"{kw}={tf_render(v, 'elem')}" for kw, v in kws]
        return tf_render(fn, "operand") + "(" + ", ".join(parts) + ("," if trailing and parts else "") + ")"
    if k == "idx":
        return tf_render(n[1], "operand") + "[" + tf_render(n[2], "index") + "]"
    if k == "if":
        s = (f"{tf_render(n[1], 'operand')} if {tf_render(n[2], 'operand')} "
             f"else {tf_render(n[3], 'operand')}")
        return "(" + s + ")" if ctx in ("elem", "operand") else s
    if k == "cmp":
        s = f"{tf_render(n[2], 'operand')} {n[1]} {tf_render(n[3], 'operand')}"
        return "(" + s + ")" if ctx == "operand" else s
    raise ValueError(k)


def tf_children(n):
    """(path step, child) of a node"""
    k = n[0]
    if k == "t":
        return [((1, i), e) for i, e in enumerate(n[1])]
    if k == "call":
        return ([((1,), n[1])] + [((2, i), a) for i, a in enumerate(n[2])]
                + [((3, i, 1), kv[1]) for i, kv in enumerate(n[3])])
    if k == "idx":
        return [((1,), n[1]), ((2,), n[2])]
    if k == "if":
        return [((1,), n[1]), ((2,), n[2]), ((3,), n[3])]
    if k == "cmp":
        return [((2,), n[2]), ((3,), n[3])]
    return []


def tf_walk(n):
    yield n
    for _, c in tf_children(n):
        yield from tf_walk(c)


def tf_map(n, fn):
    """rebuild bottom-up: fn(node with mapped children)"""
    import copy
    n = copy.deepcopy(n)
    for step, c in tf_children(n):
        tgt = n
        for i in step[:-1]:
            tgt = tgt[i]
        tgt[step[-1]] = tf_map(c, fn)
    return fn(n)


def tf_label(n, names=None):
    """give the placeholder names `?` the names a, b, c, a, … in reading order"""
    names = names or TF_ATOMS
    count = [0]

    def fn(m):
        if m[0] == "n" and m[1] == "?":
            count[0] += 1
            return ["n", names[(count[0] - 1) % len(names)]]
        return m
    return tf_map(n, fn)


def tf_skeleton(n):
    def fn(m):
        if m[0] == "n":
            return ["n", "_"]
        if m[0] == "call":
            return ["call", m[1], m[2], [["k", v] for _, v in m[3]], m[4]]
        return m
    return tf_render(tf_map(n, fn))


def _compositions(total, parts):
    if parts == 1:
        yield (total,)
        return
    for first in range(1, total - parts + 2):
        for rest in _compositions(total - first, parts - 1):
            yield (first, *rest)


_TF_ELEMS = {}


def tf_elems(w):
    """every atom / parenthesised form of weight exactly w (a name and a pair of parentheses weigh
    1 each): names, `()`, groups `(e)`, 1-tuples `(e,)`, n-tuples with and without trailing comma,
    nested to any depth the weight allows"""
    if w in _TF_ELEMS:
        return _TF_ELEMS[w]
    if w == 1:
        out = [["n", "?"], ["t", [], False, True]]
    else:
        out = []
        for e in tf_elems(w - 1):
            out.append(["t", [e], False, True])
            out.append(["t", [e], True, True])
        for k in range(2, w):
            for comp in _compositions(w - 1, k):
                for es in itertools.product(*(tf_elems(c) for c in comp)):
                    for tr in (False, True):
                        out.append(["t", list(es), tr, True])
    _TF_ELEMS[w] = out
    return out


def tf_elems_upto(w):
    return [e for i in range(1, w + 1) for e in tf_elems(i)]


def tf_top(w):
    """every top-level string of weight exactly w: the parenthesised forms, and the displays
    without parentheses `e,`  `e1, e2`  `e1, e2,` …"""
    yield from tf_elems(w)
    for k in range(1, w + 1):
        for comp in _compositions(w, k):
            for es in itertools.product(*(tf_elems(c) for c in comp)):
                if k > 1:
                    yield ["t", list(es), False, False]
                yield ["t", list(es), True, False]


def tf_contexts(e, small):
    """the element `e` as call argument, keyword argument, subscript index, aggregate, branch or
    condition of a conditional, operand of a comparison (`small`: the other operand)"""
    def bare(es, tr):
        return ["t", list(es), tr, False]
    for tr in (False, True):
        yield ["call", TF_FN, [e], [], tr]
        yield ["call", TF_FN, [e, small], [], tr]
        yield ["call", TF_FN, [small, e], [], tr]
        yield ["call", TF_FN, [], [["k", e]], tr]
        yield ["call", TF_FN, [small], [["k", e]], tr]
        yield ["idx", TF_AGG, bare([e], True) if tr else e]
        yield ["idx", TF_AGG, bare([e, small], tr)]
        yield ["idx", TF_AGG, bare([small, e], tr)]
    yield ["call", TF_FN, [e], [["k", small]], False]
    yield ["idx", ["idx", TF_AGG, e], small]
    if e[0] == "t":
        yield ["idx", e, ["n", "0"]]
    yield ["if", e, small, small]
    yield ["if", small, e, small]
    yield ["if", small, small, e]
    for op in ("==", "<"):
        yield ["cmp", op, e, small]
        yield ["cmp", op, small, e]


def tf_wrap(c, small):
    """a context again as an element of a tuple, with and without parentheses / trailing comma"""
    yield ["t", [c], True, True]
    yield ["t", [c], True, False]
    yield ["t", [c, small], False, True]
    yield ["t", [small, c], True, False]


def tf_random(rng, depth):
    def gen(d, ctx):
        k = rng.random()
        if d <= 0 or k < 0.2:
            return ["n", "?"] if rng.random() < 0.8 else ["t", [], False, True]
        if k < 0.6:
            es = [gen(d - 1, "elem") for _ in range(rng.randint(1, 3))]
            return ["t", es, rng.random() < 0.5, ctx == "elem" or rng.random() < 0.7]
        if k < 0.75:
            args = [gen(d - 1, "elem") for _ in range(rng.randint(0, 2))]
            kws = [[kw, gen(d - 1, "elem")] for kw in rng.sample(["k", "l"], rng.randint(0, 2))]
            return ["call", TF_FN, args, kws, rng.random() < 0.4]
        if k < 0.87:
            return ["idx", TF_AGG, gen(d - 1, "index")]
        if k < 0.94:
            return ["if", gen(d - 1, "elem"), gen(d - 1, "elem"), gen(d - 1, "elem")]
        return ["cmp", rng.choice(["==", "<", "!="]), gen(d - 1, "elem"), gen(d - 1, "elem")]
    return gen(depth, "top")


def tuple_family(rng, tier):
    """nodes of the family: exhaustive up to a small weight, every context around every small
    element, contexts as elements again, and random larger ones"""
    small = ["n", "?"]
    wtop, wctx, wwrap, nrand = (4, 3, 2, 250) if tier == "quick" else (6, 4, 3, 6000)
    for w in range(1, wtop + 1):
        for n in tf_top(w):
            yield tf_label(n), "tuple-exh"
    if tier == "quick":
        for n in rng.sample(list(tf_top(wtop + 1)), 150):
            yield tf_label(n), "tuple-sample"
    for e in tf_elems_upto(wctx):
        for c in tf_contexts(e, small):
            yield tf_label(c), "tuple-context"
    for e in tf_elems_upto(wwrap):
        for c in tf_contexts(e, small):
            for t in tf_wrap(c, small):
                yield tf_label(t), "tuple-context-nested"
    for _ in range(nrand):
        yield tf_label(tf_random(rng, rng.randint(2, 4))), "tuple-random"


def tuple_payloads(rng, tier):
    seen = set()
    for n, kind in tuple_family(rng, tier):
        s = tf_render(n)
        if s not in seen:
            seen.add(s)
            yield {"text": s, "kind": kind, "node": n}
    for s in TF_ELSE:
        yield {"text": s, "kind": "tuple-else"}


def tf_shrinks(n):
    """smaller trees of the family: a child in place of the whole, and — at every position — an
    element dropped, a trailing comma dropped, a pair of parentheses dropped, a group unwrapped,
    an argument dropped, a subtree replaced by a name"""
    for _, c in tf_children(n):
        yield c
    k = n[0]
    if k == "t":
        _, elems, trailing, parens = n
        for i in range(len(elems)):
            rest = elems[:i] + elems[i + 1:]
            yield ["t", rest, trailing and bool(rest), parens or not rest]
        if trailing and len(elems) >= 2:
            yield ["t", elems, False, parens]
        if len(elems) == 1:
            yield elems[0]
    elif k == "call":
        _, fn, args, kws, trailing = n
        for i in range(len(args)):
            yield ["call", fn, args[:i] + args[i + 1:], kws, trailing]
        for i in range(len(kws)):
            yield ["call", fn, args, kws[:i] + kws[i + 1:], trailing]
        if trailing:
            yield ["call", fn, args, kws, False]
    if k != "n":
        yield ["n", "a"]
    for step, c in tf_children(n):
        for c2 in tf_shrinks(c):
            import copy
            m = copy.deepcopy(n)
            tgt = m
            for i in step[:-1]:
                tgt = tgt[i]
            tgt[step[-1]] = c2
            yield m


def tf_minimise(n, fails, budget=600):
    """greedy: the first strictly shorter tree that still `fails`"""
    steps = 0
    improved = True
    while improved and steps < budget:
        improved = False
        size = len(tf_render(n))
        for cand in tf_shrinks(n):
            steps += 1
            if steps > budget:
                break
            if len(tf_render(cand)) < size and fails(cand):
                n = cand
                improved = True
                break
    return n


def mismatch_kind(s):
    """(None, None) if pymbolic.parse(s) is Python's tree, else ("differs" | "rejected", text)"""
    from pymbolic import parse
    try:
        want = expected(s)
    except (SyntaxError, NotShared, RecursionError):
        return None, None
    try:
        got = parse(s)
    except Exception as ex:
        return "rejected", f"parse({s!r}) raises {type(ex).__name__}, Python groups it as {want!r}"
    if flatten_assoc(got) != want:
        return "differs", f"parse({s!r}) = {got!r}, Python groups it as {want!r}"
    return None, None


def tuple_key(n, kind, fails):
    """(minimal failing tree, key): `py-tuple:<skeleton>` / `py-tuple-rejected:<skeleton>` when the
    minimal tree is made of tuples, parentheses, calls, subscripts and comparisons only; the
    operator classification of the other streams when a conditional is needed for the failure"""
    m = tf_minimise(n, fails)
    if any(x[0] == "if" for x in tf_walk(m)):
        return m, classify(tf_render(m))
    return m, kind + ":" + tf_skeleton(m)


def tuple_tree_oracle(pl):
    kind, msg = mismatch_kind(pl["text"])
    if kind is None:
        return None
    m, key = tuple_key(pl["node"], "py-tuple" if kind == "differs" else "py-tuple-rejected",
                       lambda c: mismatch_kind(tf_render(c))[0] == kind)
    text = tf_render(m)
    return Failure(key, mismatch_kind(text)[1] + (f" (shrunk from {pl['text']!r})" if text != pl["text"] else ""),
                   {"text": text, "kind": pl["kind"], "node": m})


class _Indexable:
    def __getitem__(self, k):
        return ("x[]", k)


def _tf_f(*args, **kw):
    return ("f()", args, tuple(sorted(kw.items())))


TF_VALUES = (-1, 0, 2)


def tf_envs(full=True):
    """the box a, b, c ∈ {-1, 0, 2}; for a string without conditional and comparison (the value is
    a nesting of the names' values, whatever they are) two environments with distinct values"""
    box = itertools.product(TF_VALUES, repeat=3) if full else [(-1, 0, 2), (2, -1, 0)]
    for va, vb, vc in box:
        yield {"a": va, "b": vb, "c": vc, "d": 3, "f": _tf_f, "x": _Indexable()}


def same_value(u, v):
    """equality with exact nesting and exact types: (1, 2) is not ((1, 2),), True is not 1"""
    if isinstance(u, tuple) or isinstance(v, tuple):
        return (isinstance(u, tuple) and isinstance(v, tuple) and len(u) == len(v)
                and all(same_value(x, y) for x, y in zip(u, v)))
    return type(u) is type(v) and u == v


def value_mismatch(s, importer=False):
    """None, or a description of an environment where `eval(s)` is not the value of the tree that
    `parse(s)` (or the importer applied to Python's parse) evaluates to.  Environments on which
    Python's own evaluation raises make no claim."""
    from pymbolic import evaluate, parse
    try:
        pytree = ast.parse(s, mode="eval")
        code = compile(pytree, "<tuple-family>", "eval")
        if importer:
            from pymbolic.interop.ast import ASTToPymbolic
            tree = ASTToPymbolic()(pytree.body)
        else:
            tree = parse(s)
    except Exception:
        return None          # rejection / unsupported nodes: the business of the tree oracles
    for env in tf_envs(any(isinstance(n, (ast.IfExp, ast.Compare)) for n in ast.walk(pytree))):
        try:
            want = eval(code, {"__builtins__": {}}, dict(env))
        except Exception:
            continue
        try:
            got = evaluate(tree, dict(env))
        except Exception as ex:
            got = ex
        if isinstance(got, Exception) or not same_value(got, want):
            shown = {k: env[k] for k in "abc"}
            return (f"eval({s!r}) = {want!r} at {shown}, the tree of "
                    f"{'the importer' if importer else 'parse'} {tree!r} evaluates to {got!r}")
    return None


class TupleValues(Stream):
    """the tuple family by VALUE (oracle only): `eval` of the string on a small box of
    environments (a, b, c over {-1, 0, 2}; `f` records its arguments, `x[…]` its index) is, with
    exact nesting and exact types, what the tree returned by `parse` evaluates to, and what the
    tree of the Python-AST importer evaluates to"""
    name = "tuple-values"
    has_model = False

    def cases(self, rng, tier):
        yield from tuple_payloads(rng, tier)

    def run_impl(self, pl):
        return "(oracle-only)"

    def oracle(self, pl):
        s = pl["text"]
        for importer, family in ((False, "py-tuple-value"), (True, "importer-tuple-value")):
            msg = value_mismatch(s, importer)
            if msg is None:
                continue
            if "node" not in pl:
                return Failure(classify(s) if not importer else family + ":" + s, msg, pl)
            if not importer and mismatch_kind(s)[0] == "differs":
                # the tree already differs from Python's: same classification as the tree oracle
                f = tuple_tree_oracle(pl)
                return Failure(f.key, msg + "; " + f.detail, f.payload)
            m, key = tuple_key(pl["node"], family,
                               lambda c: value_mismatch(tf_render(c), importer) is not None)
            text = tf_render(m)
            return Failure(key, value_mismatch(text, importer),
                           {"text": text, "kind": pl["kind"], "node": m})
        return None

    def nontrivial_key(self, pl, model, impl):
        return pl["text"]

    def stats(self, pl, mo, io, acc):
        acc[pl["kind"]] = acc.get(pl["kind"], 0) + 1

# }}}


PROP = Prop(
    id="C07",
    title="The parser reads the syntax it shares with Python the way Python does",
    lean_targets=["PV.Properties.C07"],
    extractors=[extract],
    streams=[Skeletons(), Importer(), ImporterHistory(), SkeletonStrings(), LexShared()],
    probes=[probe_true_prefix],
    trusted_base=["Lean 4.33 kernel; axioms propext, Classical.choice, Quot.sound only",
                  "CPython's ast.parse is the reference for Python's grouping (harness/props/c07.py: py_tree)",
                  "the lexer is modelled (PV/Model/Lexer.lean, regenerated rule table); Python's own "
                  "tokenizer is the reference for the token strings of the shared syntax"],
    level_text="Lean theorems: the parser model consumes the whole token list or raises "
               "(consumes_all_or_error, rest_is_suffix, parse_string_consumes_all); two_operator_grouping "
               "/ prefix_operator_grouping (generic in the table: a o1 b o2 c groups right iff the guard "
               "of o2 exceeds the right level of o1); on the table regenerated from parser.py the "
               "parser differs from Python's grouping on exactly 21 of 256 operator pairs and 16 prefix "
               "cases (grouping_deviations_current, prefix_deviations_current, decide) = the known "
               "findings, and agrees elsewhere (grouping_agrees_current); every branch of the parser "
               "and the lexer rule table are re-read from the source on every run and the hand-written "
               "parser is proved equal to the table interpreter for all token lists, levels and fuel "
               "(parse_eq_table_current, parser_table_current, lexer_partitions_input, "
               "operator_token_current, lexer_order_current). The AST importer is also judged on ONE "
               "long-lived ASTToPymbolic instance over families of strings whose Python ASTs are "
               "temporaries (ast-importer-history: its answer must not depend on earlier imports).",
    level_note="Python's grammar itself is not formalised in Lean: CPython's ast.parse / tokenize are "
               "the readings of record at run time (oracles), for skeleton strings of all 2- and "
               "3-operator shapes, random strings, a tuple/trailing-comma family (exact nesting of "
               "values) and the Python-AST importer. Trusted: Lean kernel; regular-expression "
               "semantics; the reader extract/parser.py and the LexIterator primitives of the table "
               "language (tied by the table-parse stream).",
    technique="Lean 4 proofs about a Pratt parser model driven by the regenerated parser/lexer tables "
              "(decide over the full operator-pair matrix) + differential correspondence against "
              "Parser.__call__ with CPython's parser as the reading of record",
    design_ref="DESIGN.md §4 C07",
)


# {{{ the parser TABLE regenerated from the source (extract/parser.py, PV/Model/ParserTable.lean)

def extract_parser_table(ctx):
    from extract.parser import extract_parser
    extract_parser(ctx)


TP_NAMES = ["a", "b", "c", "x1", "f", "g", "v"]
TP_NOISE = [")", "(", ",", "]", "[", ":", "=", "else", "if", "b", "1", ".", "*", "not", "-"]


def tp_string(rng, depth):
    """expressions of the WHOLE syntax of the parser (calls with keyword arguments, subscripts,
    slices, look-ups, tuples, lists, wildcards, conditionals, every operator)"""
    def atom():
        k = rng.random()
        if k < 0.5:
            return rng.choice(TP_NAMES)
        if k < 0.7:
            return str(rng.randint(0, 12))
        if k < 0.8:
            return rng.choice(["1.5", "2e3", "True", "False", ".5"])
        if k < 0.9:
            return rng.choice(["()", "[]", "(a,)", "[a]", "(a, b)", "[a, b,]", "(a, b,)", "*"])
        return rng.choice(["if", "f()", "f(a,)", "v[:]", "v[::]", "v[a:]", "v[:a]", "v[a:b:c]"])

    def args(n):
        parts = [gen(n) for _ in range(rng.randint(0, 2))]
        for _ in range(rng.randint(0, 2)):
            parts.append(rng.choice(["k", "l", "k"]) + "=" + gen(n))
        if rng.random() < 0.15:
            rng.shuffle(parts)
        t = ", ".join(parts)
        if parts and rng.random() < 0.15:
            t += ","
        return t

    def gen(n):
        if n <= 0:
            return atom()
        k = rng.random()
        if k < 0.12:
            return rng.choice(PRE) + gen(n - 1)
        if k < 0.22:
            return f"{gen(n - 1)} if {gen(n - 1)} else {gen(n - 1)}"
        if k < 0.32:
            return f"{gen(n - 1)}({args(n - 1)})"
        if k < 0.40:
            return f"{gen(n - 1)}[{gen(n - 1)}]"
        if k < 0.47:
            parts = [rng.choice(["", gen(n - 1)]) for _ in range(rng.randint(2, 3))]
            return f"{gen(n - 1)}[{':'.join(parts)}]"
        if k < 0.53:
            return f"{gen(n - 1)}.{rng.choice(TP_NAMES)}"
        if k < 0.60:
            return "(" + ", ".join(gen(n - 1) for _ in range(rng.randint(1, 3))) + rng.choice(["", ","]) + ")"
        if k < 0.64:
            return "[" + ", ".join(gen(n - 1) for _ in range(rng.randint(1, 3))) + "]"
        if k < 0.70:
            return f"{gen(n - 1)}, {gen(n - 1)}"
        l, r = gen(n - 1), gen(n - 1)
        if rng.random() < 0.25:
            l = f"({l})"
        if rng.random() < 0.25:
            r = f"({r})"
        return f"{l} {rng.choice(BIN + ['!=', '<=', '>', '>='])} {r}"
    return gen(depth)


def tp_perturb(rng, s):
    """insert, delete or replace one token-like piece"""
    parts = s.replace("(", " ( ").replace(")", " ) ").replace("[", " [ ").replace("]", " ] ") \
        .replace(",", " , ").split()
    if not parts:
        return rng.choice(TP_NOISE)
    k = rng.randrange(3)
    i = rng.randrange(len(parts) + (1 if k == 0 else 0))
    if k == 0:
        parts.insert(i, rng.choice(TP_NOISE))
    elif k == 1:
        del parts[i]
    else:
        parts[i] = rng.choice(TP_NOISE)
    return " ".join(parts)


TP_OPERAND_KW = {"and", "or", "not", "if", "else"}


def consumption_problem(s):
    """why NO parser of an expression syntax with brackets can have read the whole of `s`: the
    brackets do not match, or two operands stand next to each other.  Judged on Python's own token
    split (None = Python's tokenizer rejects the string: no claim)."""
    ts = python_tokens(s)
    if ts is None:
        return None
    stack = []
    for t in ts:
        if t in "([":
            stack.append(t)
        elif t in ")]":
            if not stack or stack.pop() != {")": "(", "]": "["}[t]:
                return "unbalanced"
    if stack:
        return "unbalanced"

    def operand(t):
        return t not in SHARED_OPS and t not in TP_OPERAND_KW and t != "~"
    for x, y in zip(ts, ts[1:]):
        if operand(x) and operand(y):
            return "adjacent-operands"
    return None


class TableParse(Stream):
    """the interpreter of the parser table REGENERATED from the source of pymbolic/parser.py
    (`c07TopT Generated.c07ParserTable`) AND the hand-written model (`parseTop`; the two are proved
    equal by `PV.C07.parse_top_eq_table_current` as long as the regenerated table is the model's)
    against `Parser.__call__` on the real lexer's tokens, over
    the whole syntax (keyword arguments, slices, tuples, lists, look-ups, wildcards), several
    `min_precedence` values, and strings damaged by one inserted / deleted / replaced token.
    Oracle (independent of the parser): a string whose brackets do not match, or in which two
    operands are adjacent, must be refused — the parser consumes the whole input or raises."""
    name = "table-parse"

    def cases(self, rng, tier):
        for s, k in skeletons2():
            yield {"text": s, "minprec": 0, "kind": "skeleton"}
        n = 2500 if tier == "quick" else 40000
        levels = [0, 0, 0, 0, 5, 6, 10, 11, 75, 76, 100, 205, 215, 231, 250]
        for i in range(n):
            s = tp_string(rng, rng.randint(0, 3))
            kind = "whole-syntax"
            if i % 3 == 2:
                s = tp_perturb(rng, s)
                kind = "damaged"
            yield {"text": s, "minprec": rng.choice(levels), "kind": kind}
        for s in ["a b", "a)", "a ) b", "(a", "a]", "f(a", "f(a))", "a, )", "a,", "a, b,", "(a,),", "[a],",
                  "(a, b), c", "+(a, b), c", "+[a], b", "[a, b], c", "a if b", "a if b else", "a if b else c d",
                  "f(k=1, 2)", "f(k=1, k=2)", "f(, a)", "f(a b)", "f(a,, b)", "f(a=)", "a[", "a[]", "a[b",
                  "a.", "a.1", "a.b.c", ":", "::", "a:", ":a", "a:b:c", "a[b:c, d]", "a:b, c", "*", "* + a",
                  "a *", "not", "- -a", "~~a", "if", "if + 1", "a if if else b", "1 if 2 else 3 if 4 else 5",
                  "a = b", "f(a)(b)[c].d", "a ** b ** c", "-a ** b", "a < b < c", "", "(", ")", "()", "[]",
                  "(())", "a, (b, c)", "(a, b) + c", "x if (a, b) else c", "a if b else c, d"]:
            for mp in (0, 5, 11):
                yield {"text": s, "minprec": mp, "kind": "edge"}
        # the tuple family (nested tuples, trailing commas, tuples as arguments / indices)
        for pl in tuple_payloads(rng, tier):
            yield {"text": pl["text"], "minprec": rng.choice([0, 0, 0, 5, 6, 10, 11]), "kind": "tuple"}

    def request(self, pl):
        toks = lex_tokens(pl["text"])
        if toks is None:
            return "(tparse-both 0 ((sym \"$lexer-rejects$\")))"
        return f"(tparse-both {pl['minprec']} ({' '.join(toks)}))"

    def _parse(self, pl):
        import warnings

        from pymbolic.parser import Parser
        with warnings.catch_warnings():
            warnings.simplefilter("ignore")
            return Parser()(pl["text"], pl["minprec"])

    def run_impl(self, pl):
        from pytools.lex import ParseError
        if lex_tokens(pl["text"]) is None:
            return "(err ParseError)"
        try:
            r = self._parse(pl)
        except ParseError:
            return "(err ParseError)"
        except RecursionError:
            raise
        except Exception as ex:
            return dumps(exc_to_sx(ex))
        try:
            return dumps(expr_to_sx(r))
        except Exception as ex:
            return f"(unencodable {type(ex).__name__})"

    def agree(self, model, impl, pl):
        # the driver answers `(both <table interpreter> <hand-written model>)`
        if lex_tokens(pl["text"]) is None:
            return "trivial"
        if model == f"(both {impl} {impl})":
            return "ok"
        return "trivial" if "(noclaim)" in model else "diff"

    def oracle(self, pl):
        why = consumption_problem(pl["text"])
        if why is None:
            return None
        try:
            r = self._parse(pl)
        except Exception:
            return None
        return Failure("accepts-" + why,
                       f"Parser()({pl['text']!r}, {pl['minprec']}) returns {r!r} although the input "
                       f"cannot have been read completely ({why})", pl)

    def shrink(self, pl):
        parts = pl["text"].split()
        for i in range(len(parts)):
            t2 = parts[:i] + parts[i + 1:]
            if t2:
                yield {"text": " ".join(t2), "minprec": pl["minprec"], "kind": pl["kind"]}
        if pl["minprec"]:
            yield {"text": pl["text"], "minprec": 0, "kind": pl["kind"]}

    def nontrivial_key(self, pl, model, impl):
        return pl["text"] + "@" + str(pl["minprec"]) if not impl.startswith("(err") else None

    def stats(self, pl, mo, io, acc):
        acc[pl["kind"]] = acc.get(pl["kind"], 0) + 1
        k = "tree" if not io.startswith("(err") else io
        acc.setdefault("outcomes", {})
        acc["outcomes"][k] = acc["outcomes"].get(k, 0) + 1
        if consumption_problem(pl["text"]) is not None:
            acc["must-refuse"] = acc.get("must-refuse", 0) + 1

# }}}


# the parser table is part of the property: its extractor, theorems and stream (appended here, after
# the definition of PROP, so that the block above can be merged independently of edits to PROP)
PROP.lean_targets.append("PV.Properties.C07Table")
PROP.extractors.append(extract_parser_table)
PROP.streams.append(TableParse())
PROP.streams.append(TupleValues())
PROP.trusted_base.append(
    "extract/parser.py (the reader of pymbolic/parser.py) and the meaning given to the LexIterator "
    "primitives / node constructors in PV/Model/ParserTable.lean, tied by the table-parse stream")
