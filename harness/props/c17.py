"""C17 — pickles and persistent keys are stable across processes.

The substance is the cross-process correspondence: producer interpreter processes (one per
configuration PYTHONHASHSEED × -O) build pools of expressions from source, hash / compare some of
them, and pickle them with protocols 0–5; consumer processes (other configurations) build the same
pools from source, load the pickles and hash / compare / look up.  Every reply of the real objects
(results AND which `_hash_value` slots are set afterwards) is compared with the Lean model
(`crossRun`, lean/PV/Model/Pickle.lean); the property's own statement is evaluated inside every
consumer on every pickle.  All expressions of a run are batched: 2 producers + 2 consumers in the
quick tier (4 subprocess launches, 4 producer/consumer pairs), 6 + 6 in the thorough tier.
"""
from __future__ import annotations

import json
import os
import subprocess
import sys
import tempfile
import warnings

import pymbolic.primitives as p

from .. import c17_classes as K
from .. import c17_inject as J
from .. import c17_sharing as S
from ..core import Failure, Prop, Stream, VERIF
from ..gen import ExprGen, node_types
from ..sexp import A, Atom, dumps, expr_to_sx, loads, sx_shrinks, sx_to_expr

warnings.filterwarnings("ignore", category=DeprecationWarning)

# (PYTHONHASHSEED, -O)
QUICK_PRODUCERS = [("0", False), ("4242", True)]
QUICK_CONSUMERS = [("1", False), ("random", True)]
THOROUGH_CFGS = [(s, o) for s in ("0", "1", "random") for o in (False, True)]


def cfg_name(c):
    return f"seed={c[0]}{' -O' if c[1] else ''}"


def model_seed(c):
    return {"0": 0, "1": 1, "random": 7}.get(c[0], 3) + (10 if c[1] else 0)


# {{{ subprocess batch

def launch(cfg, role, jobfile, outfile, extra=()):
    pp = os.pathsep.join([VERIF] + [x for x in os.environ.get("PYTHONPATH", "").split(os.pathsep)
                                    if x and x != VERIF])
    env = {"PYTHONHASHSEED": cfg[0], "PYTHONPATH": pp,
           "PATH": os.environ.get("PATH", "/usr/bin:/bin"), "HOME": os.environ.get("HOME", "/tmp")}
    cmd = [sys.executable] + (["-O"] if cfg[1] else []) + [
        "-m", "harness.c17_worker", role, jobfile, outfile, *extra]
    pr = subprocess.run(cmd, env=env, cwd=VERIF, capture_output=True, text=True, timeout=1500)
    if pr.returncode != 0:
        raise RuntimeError(f"{role} {cfg_name(cfg)} failed: {pr.stderr[-1500:]}")
    with open(outfile) as f:
        return json.load(f)


def run_batch(job, producers, consumers):
    """-> {"producers": [result], "consumers": [result]}; scratch files live in a temporary
    directory that is removed afterwards"""
    with tempfile.TemporaryDirectory(prefix="c17-") as td:
        jobfile = os.path.join(td, "job.json")
        with open(jobfile, "w") as f:
            json.dump(job, f)
        pres, pfiles = [], []
        for i, cfg in enumerate(producers):
            out = os.path.join(td, f"prod{i}.json")
            pres.append(launch(cfg, "producer", jobfile, out))
            pfiles.append(out)
        cres = []
        for i, cfg in enumerate(consumers):
            out = os.path.join(td, f"cons{i}.json")
            cres.append(launch(cfg, "consumer", jobfile, out, pfiles))
    return {"producers": pres, "consumers": cres}


class Batch:
    """All cross-process payloads of one check run; executed once, lazily."""

    def __init__(self):
        self.reset()

    def reset(self):
        self.hist, self.digest, self.compiled, self.sharing = [], [], [], []
        self.result = None
        self.launches = 0
        self.tier = "quick"

    def configs(self):
        if self.tier == "quick":
            return QUICK_PRODUCERS, QUICK_CONSUMERS
        return THOROUGH_CFGS, THOROUGH_CFGS

    def prepare(self, rng, tier):
        import random
        self.reset()
        self.tier = tier
        r1, r2, r3 = (random.Random(rng.random()) for _ in range(3))
        self.hist = list(gen_histories(r1, tier))
        self.digest = list(gen_digest_cases(r2, tier))
        self.compiled = list(gen_compiled_cases(r3, tier))
        # drawn after the three above: the cases of the older streams are what they were
        r4, r5 = (random.Random(rng.random()) for _ in range(2))
        self.compiled += list(gen_compiled_name_cases(r4, tier))
        self.sharing = list(gen_sharing_cases(r5, tier))

    def job(self, hist, digest, compiled, sharing=()):
        dg = []
        for d in digest:
            dg += [d["expr"], d["variant"]]
        return {"histories": hist, "digests": dg, "compiled": compiled, "sharing": list(sharing)}

    def run(self):
        if self.result is None:
            prods, conss = self.configs()
            self.result = run_batch(self.job(self.hist, self.digest, self.compiled, self.sharing),
                                    prods, conss)
            self.launches = len(prods) + len(conss)
            self.index = {
                "hist": {json.dumps(h, sort_keys=True): i for i, h in enumerate(self.hist)},
                "digest": {json.dumps(h, sort_keys=True): i for i, h in enumerate(self.digest)},
                "compiled": {json.dumps(h, sort_keys=True): i for i, h in enumerate(self.compiled)},
                "sharing": {json.dumps(h, sort_keys=True): i for i, h in enumerate(self.sharing)},
            }
        return self.result

    def lookup(self, kind, pl):
        """(result, index) for a payload: from the big batch, or from a small extra batch (replay /
        shrinking of a failing payload)"""
        res = self.run()
        i = self.index[kind].get(json.dumps(pl, sort_keys=True))
        if i is not None:
            return res, i
        prods, conss = self.configs()
        one = {"hist": [], "digest": [], "compiled": [], "sharing": []}
        one[kind] = [pl]
        if kind == "compiled" and pl.get("family"):
            # the order of tied names depends on the hash seeds of BOTH processes: all of them
            prods, conss = prods[:2], conss[:3]
        else:
            prods, conss = prods[:1], conss[:2]
        r = run_batch(self.job(one["hist"], one["digest"], one["compiled"], one["sharing"]),
                      prods, conss)
        return r, 0


BATCH = Batch()


def digests_elsewhere(exprs):
    """persistent keys of the expressions computed in ONE other interpreter process (other hash
    seed, -O); used for payloads outside the big batch (shrinking / replay)"""
    with tempfile.TemporaryDirectory(prefix="c17-") as td:
        jobfile = os.path.join(td, "job.json")
        with open(jobfile, "w") as f:
            json.dump({"histories": [], "digests": list(exprs), "compiled": []}, f)
        return launch(("12345", True), "producer", jobfile, os.path.join(td, "out.json"))["digests"]

# }}}


# {{{ generators

def wrap_user(rng, g, e, depth=2):
    """put user node types / legacy classes around and inside expressions"""
    k = rng.random()
    sub = lambda: g.gen(rng.choice(["num", "int", "bool"]), rng.randint(0, 2))  # noqa: E731
    if k < 0.2:
        return K.Norm(e, rng.randint(-2, 3))
    if k < 0.25:
        return K.Annotated(e, rng.choice(["n1", "n2", "s"]), rng.choice(["s", "t"]))
    if k < 0.45:
        names = rng.sample(["k", "j", "a", "zz"], rng.randint(0, 3))
        return K.Labelled(rng.choice(["lab", "u"]), (e, sub()), {n: sub() for n in names})
    if k < 0.6:
        return K.LegacyPair(e, rng.choice([3, sub(), K.Unit()]))
    if k < 0.7:
        return p.Sum((K.LegacyVar("v", rng.randint(0, 2)), e))
    if k < 0.8:
        return p.Product((K.Unit(), K.Norm(K.LegacyPair(e, 1), 2)))
    if k < 0.9 and depth > 0:
        return wrap_user(rng, g, wrap_user(rng, g, e, 0), depth - 1)
    return K.LegacyPair(K.LegacyVar("w", 0), K.Labelled("x", (), {}))


def gen_pool_obj(rng, g):
    e = g.gen(rng.choice(["num", "any", "bool", "int"]), rng.randint(1, 4))
    if rng.random() < 0.35:
        e = wrap_user(rng, g, e)
    if not isinstance(e, p.Expression):
        e = p.Call(p.Variable("f"), (e,)) if rng.random() < 0.5 else K.Norm(e, 1)
    return e


def eq_variant(rng, s):
    """an S-expression of an object `==` to the one of `s` but not identical in structure where
    possible: keyword mappings re-inserted in another order, ints replaced by equal floats/bools"""
    if isinstance(s, Atom) or not isinstance(s, list):
        return s
    h = s[0]
    if h == "atom":
        c = s[1]
        if isinstance(c, list) and c[0] == "Int" and rng.random() < 0.3:
            n = int(c[1])
            if n in (0, 1) and rng.random() < 0.5:
                return [A("atom"), [A("Bool"), bool(n)]]
            return [A("atom"), expr_to_sx(float(n))]
        return s
    if h == "dict":
        idx = list(range(len(s[1])))
        rng.shuffle(idx)
        return [h, [s[1][i] for i in idx], [eq_variant(rng, s[2][i]) for i in idx]]
    if h == "inst":
        return [h, s[1], s[2], [eq_variant(rng, c) for c in s[3]]]
    return [h] + [eq_variant(rng, c) for c in s[1:]]


def gen_histories(rng, tier):
    n = 500 if tier == "quick" else 3000
    g = ExprGen(rng, lists=False, cse=0.1, floats=0.05)
    for i in range(n):
        base = [dumps(K.obj_to_sx(gen_pool_obj(rng, g))) for _ in range(rng.randint(1, 3))]
        pool = list(base)
        for s in base:
            k = rng.random()
            if k < 0.35:
                pool.append(s)                                   # equal, separately built
            elif k < 0.6:
                pool.append(dumps(eq_variant(rng, loads(s))))    # == but not identical structure
        npool, nblobs = len(pool), 0
        ops1 = []
        hash_first = i % 2 == 0
        for _ in range(rng.randint(2, 7)):
            k = rng.random()
            if k < 0.3 and hash_first:
                ops1.append(["hash", rng.randrange(npool)])
            elif k < 0.4:
                ops1.append([rng.choice(["eq", "member"]), rng.randrange(npool), rng.randrange(npool)])
            elif k < 0.8 or nblobs == 0:
                ops1.append(["pickle", rng.randrange(npool), rng.randrange(0, 6)])
                nblobs += 1
            else:
                ops1.append(["unpickle", rng.randrange(nblobs)])
                npool += 1
        if nblobs == 0:
            ops1.append(["pickle", rng.randrange(len(pool)), rng.randrange(0, 6)])
            nblobs += 1
        if hash_first and rng.random() < 0.5:
            ops1.insert(0, ["hash", 0])
            ops1.append(["pickle", 0, rng.randrange(0, 6)])
            nblobs += 1
        # consumer half: the pool is built from source again (len(pool) objects)
        n2 = len(pool)
        ops2 = []
        for _ in range(rng.randint(2, 8)):
            k = rng.random()
            if k < 0.35:
                ops2.append(["unpickle", rng.randrange(nblobs)])
                n2 += 1
            elif k < 0.55:
                ops2.append(["hash", rng.randrange(n2)])
            elif k < 0.62:
                ops2.append(["pickle", rng.randrange(n2), rng.randrange(0, 6)])
            else:
                # mostly: the latest object against an earlier one
                a = n2 - 1 if rng.random() < 0.6 else rng.randrange(n2)
                ops2.append([rng.choice(["eq", "member"]), a, rng.randrange(n2)]
                            if rng.random() < 0.5 else
                            [rng.choice(["eq", "member"]), rng.randrange(n2), a])
        yield {"pool": pool, "ops1": ops1, "ops2": ops2}
    # directed: every user / legacy class, hashed before pickling, every protocol, looked up
    x = p.Variable("x")
    directed = [K.Norm(x + 1, 2), K.Labelled("lab", (x, 2), {"k": x, "j": 3}), K.Unit(),
                K.Annotated(x + 1, "note", "scp"), K.Annotated(K.Annotated(x, "s", "n"), "n", "s"),
                K.LegacyPair(x, 3), K.LegacyVar("v", 7), p.Sum((K.LegacyVar("v", 1), K.Unit())),
                p.CallWithKwargs(p.Variable("f"), (x,), {"k": 1, "j": x}), p.NaN(),
                p.CommonSubexpression(x * 2, "cs"), p.Slice((x, None, 2)),
                p.Subscript(p.Variable("a"), (x, 1)), p.Comparison(x, "<=", 2.5)]
    for e in directed:
        s = dumps(K.obj_to_sx(e))
        for hashed in (True, False):
            ops1 = ([["hash", 0]] if hashed else []) + [["pickle", 0, pr] for pr in range(6)]
            ops2 = []
            for k in range(6):
                ops2 += [["unpickle", k], ["eq", 2 + k, 1], ["member", 1, 2 + k], ["hash", 2 + k]]
            yield {"pool": [s, s], "ops1": ops1, "ops2": ops2}


def kwperm(s):
    """re-insert the keywords of every CallWithKwargs in reversed order (an == expression)"""
    if isinstance(s, Atom) or not isinstance(s, list) or not s:
        return s
    if s[0] == "CallKw":
        return [s[0], kwperm(s[1]), [kwperm(c) for c in s[2]], list(reversed(s[3])),
                [kwperm(c) for c in reversed(s[4])]]
    if s[0] in ("Int", "Bool", "Flt", "Str", "Var"):
        return s
    return [kwperm(c) if isinstance(c, list) else c for c in s]


def has_multi_kw(s):
    if isinstance(s, Atom) or not isinstance(s, list) or not s:
        return False
    if s[0] == "CallKw" and len(s[3]) >= 2:
        return True
    return any(has_multi_kw(c) for c in s if isinstance(c, list))


def digest_payload(sx):
    if has_multi_kw(sx):
        return {"expr": dumps(sx), "variant": dumps(kwperm(sx)), "vkind": "kwperm"}
    return {"expr": dumps(sx), "variant": dumps(sx), "vkind": "rebuild"}


def gen_digest_cases(rng, tier):
    n = 2500 if tier == "quick" else 25000
    g = ExprGen(rng, cse=0.1, floats=0.06, malformed=0.01)
    for i in range(n):
        e = g.gen(rng.choice(["num", "any", "bool", "int", "any"]), rng.randint(1, 5))
        yield digest_payload(expr_to_sx(e))
    x, y, f = p.Variable("x"), p.Variable("y"), p.Variable("f")
    directed = [
        p.LeftShift(x, y), p.RightShift(x, 3), p.Comparison(x, "<", y), p.Comparison(x, "!=", 1),
        p.Lookup(x, "name"), p.CommonSubexpression(x, "pfx", "pymbolic_eval"),
        p.Substitution(x + y, ("x",), (3,)), p.Derivative(x * y, ("x", "y")),
        p.Slice((x, None, y)), p.Slice((x,)), p.Slice(()), p.NaN(), p.Wildcard(),
        p.DotWildcard("a"), p.StarWildcard("b"), p.FunctionSymbol(), (x, 1), [x, (y,)],
        p.Call(f, ()), p.CallWithKwargs(f, (y,), {"k": x, "j": 1}), p.Subscript(x, (1, y)),
        p.If(p.Comparison(x, ">=", 0), x, -1), p.Min((x, y)), p.Max((1, 2.5)), True, -3, 1e300,
        p.LogicalNot(p.LogicalAnd((x, p.LogicalOr((y, False))))), p.BitwiseNot(p.BitwiseXor((x, 1))),
        p.Quotient(x, 2), p.FloorDiv(x, 2), p.Remainder(x, 2), p.Power(x, -0.0), p.Sum(("s", None)),
    ]
    for e in directed:
        yield digest_payload(expr_to_sx(e))


COMPILE_VARS = ["x", "y", "z", "i"]


def gen_arith(rng, depth, names=COMPILE_VARS):
    if depth <= 0 or rng.random() < 0.2:
        return p.Variable(rng.choice(names)) if rng.random() < 0.6 else rng.randint(-4, 5)
    k = rng.choice(["sum", "sum", "prod", "prod", "quot", "pow", "if", "floordiv", "rem", "minmax"])
    d = depth - 1
    ga = lambda: gen_arith(rng, d, names)  # noqa: E731
    if k == "sum":
        return p.Sum(tuple(ga() for _ in range(rng.randint(2, 3))))
    if k == "prod":
        return p.Product(tuple(ga() for _ in range(rng.randint(2, 3))))
    if k == "quot":
        return p.Quotient(ga(), ga())
    if k == "floordiv":
        return p.FloorDiv(ga(), ga())
    if k == "rem":
        return p.Remainder(ga(), ga())
    if k == "pow":
        return p.Power(ga(), rng.randint(0, 3))
    if k == "minmax":
        return rng.choice([p.Min, p.Max])((ga(), ga()))
    return p.If(p.Comparison(ga(), rng.choice(["<", "<=", "==", "!=", ">", ">="]),
                             ga()), ga(), ga())


def gen_compiled_cases(rng, tier):
    n = 120 if tier == "quick" else 800
    for i in range(n):
        e = gen_arith(rng, rng.randint(1, 4))
        if not isinstance(e, p.Expression):
            e = p.Sum((e, p.Variable("x")))
        vs = rng.sample(COMPILE_VARS, rng.randint(0, 3))
        args = [[[rng.randint(-6, 6), rng.randint(1, 4)] for _ in range(len(COMPILE_VARS))]
                for _ in range(4)]
        args.append([[0, 1]] * len(COMPILE_VARS))
        yield {"expr": dumps(expr_to_sx(e)), "vars": vs, "args": args,
               "proto": rng.randrange(0, 6), "prehash": bool(i % 2)}


# names that plain string order tells apart but a "friendlier" sort key does not (or orders
# differently): letter case, digit runs, underscores, length, non-ASCII letters with case.  Where a
# sort key ties, the order falls back on the iteration order of a set of variables, i.e. on the
# string-hash seed of the process - the thing a pickle must not depend on.
NAME_FAMILIES = {
    "case": lambda r: [c for b in r.sample("xnatbkq", r.randint(1, 3)) for c in (b, b.upper())],
    "case-words": lambda r: [w for b in r.sample(["ab", "xy", "na", "tk"], r.randint(1, 2))
                             for w in r.sample([b, b.upper(), b.capitalize(), b[0] + b[1].upper()],
                                               r.randint(2, 4))],
    "digits": lambda r: r.sample(["x1", "x2", "x10", "x02", "X1", "x", "x1_"], r.randint(2, 5)),
    "underscore": lambda r: r.sample(["_x", "x_", "x", "__x", "X_", "_X", "x__"], r.randint(2, 5)),
    "length": lambda r: r.sample(["a", "aa", "b", "ab", "B", "aB", "ba"], r.randint(2, 5)),
    "non-ascii": lambda r: r.sample(["é", "É", "e", "E", "α", "Α", "ä", "Ä"], r.randint(2, 5)),
}


def gen_names(rng):
    fam = rng.choice(sorted(NAME_FAMILIES) + ["case", "blend"])
    if fam == "blend":
        names = []
        for k in rng.sample(sorted(NAME_FAMILIES), 2):
            names += NAME_FAMILIES[k](rng)
        names = rng.sample(sorted(set(names)), min(len(set(names)), rng.randint(3, 6)))
    else:
        names = NAME_FAMILIES[fam](rng)
    names = sorted(set(names))
    rng.shuffle(names)
    return fam, names


def gen_compiled_name_cases(rng, tier):
    """compiled expressions over the name families: few, none or all of the variables listed
    explicitly (in any order, possibly one the expression does not use), the others left to the
    documented default order"""
    n = 90 if tier == "quick" else 900
    for i in range(n):
        fam, names = gen_names(rng)
        # every name at least once, then a random expression over them on top
        terms = [p.Product((rng.randint(1, 5), p.Variable(v))) if rng.random() < 0.5
                 else p.Variable(v) for v in names]
        rng.shuffle(terms)
        e = p.Sum(tuple(terms) + (gen_arith(rng, rng.randint(0, 3), names),))
        k = rng.choice([0, 0, 0, 1, 1, 2, len(names)])
        vs = rng.sample(names, min(k, len(names)))
        if rng.random() < 0.15:
            vs.insert(rng.randrange(len(vs) + 1), "unused_")
        width = len(names) + 1
        # distinct values in every position: a permuted binding changes the result
        args = [[[v, 1] for v in rng.sample(range(-9, 10), width)] for _ in range(3)]
        args.append([[rng.randint(-6, 6), rng.randint(1, 4)] for _ in range(width)])
        yield {"expr": dumps(expr_to_sx(e)), "vars": vs, "args": args,
               "proto": rng.randrange(0, 6), "prehash": bool(i % 2), "family": fam}


SHARING_ROUTES = list(S.PLAIN_ROUTES) + ["substituted", "operators"]


def gen_sharing_cases(rng, tier):
    """one structure in which composite subexpressions repeat, to be built as a tree (a separate
    object per occurrence) and along routes that make or keep SHARED objects"""
    n = 300 if tier == "quick" else 4000
    g = ExprGen(rng, cse=0.1, floats=0.06, malformed=0.0, lists=True)
    for i in range(n):
        sx, extra = S.gen_repeating(rng, g)
        routes = ["shared"] + rng.sample(SHARING_ROUTES[1:], 3)
        yield {"expr": dumps(sx), "routes": routes, "route": rng.choice(routes),
               "seed": rng.randrange(1 << 30), "extra": extra, "proto": rng.randrange(0, 6),
               "prehash": bool(i % 2), "xproc": True}
    x, y, a, i_, f = (p.Variable(v) for v in ("x", "y", "a", "i", "f"))
    u, el, c = x + 1, p.Subscript(a, (i_ + 1,)), p.Comparison(x, "<", y + 1)
    directed = [u * u, p.Sum((u * u, f(u ** 2, el), el)), p.If(c, p.LogicalNot(c), c),
                p.Quotient(x ** 2 + y ** 2, 1 + (x ** 2 + y ** 2) ** 3), f((x, y), (x, y)),
                p.Call(f, (u,) * 3), p.Sum((p.CommonSubexpression(u, "c"),) * 2),
                p.Min((p.Lookup(el, "re"), p.Lookup(el, "re"))), (u, u), [[u], [u]],
                p.Slice((u, u, None)), p.CallWithKwargs(f, (u,), {"k": u}),
                p.LeftShift(p.BitwiseNot(i_ + 1), p.BitwiseNot(i_ + 1)),
                p.Derivative(p.Substitution(u * u, ("x",), (u,)), ("x",))]
    for k, e in enumerate(directed):
        yield {"expr": dumps(expr_to_sx(e)), "routes": list(S.PLAIN_ROUTES), "route": "shared",
               "seed": k, "extra": None, "proto": k % 6, "prehash": bool(k % 2), "xproc": True}

# }}}


def clause(b):
    return b.split("@")[0]


class HistStream(Stream):
    """histories hash / == / in / pickle (protocols 0–5) / unpickle over a pool of objects (stock,
    user and legacy node types) in a producer process, continued in a consumer process"""
    name = "cross-process-history"

    def cases(self, rng, tier):
        BATCH.prepare(rng, tier)
        return list(BATCH.hist)

    def request(self, pl):
        prods, conss = BATCH.configs()
        ops = lambda o: "(" + " ".join("(" + " ".join(str(x) for x in op) + ")" for op in o) + ")"  # noqa: E731
        return (f"(c17-hist {model_seed(prods[0])} {model_seed(conss[0])} "
                f"({' '.join(pl['pool'])}) {ops(pl['ops1'])} {ops(pl['ops2'])})")

    def run_impl(self, pl):
        res, i = BATCH.lookup("hist", pl)
        segs = []
        for c in res["consumers"]:
            for pi, pp in enumerate(c["per_producer"]):
                o1 = res["producers"][pi]["histories"][i]["out"]
                o2 = pp["histories"][i]["out"]
                segs.append(f"(({' '.join(o1)}) ({' '.join(o2)}))")
        return " || ".join(segs)

    def agree(self, model, impl, pl):
        if "(noclaim)" in model:
            return "trivial"
        segs = impl.split(" || ")
        return "ok" if segs and all(s == model for s in segs) else "diff"

    def oracle(self, pl):
        res, i = BATCH.lookup("hist", pl)
        prods, conss = BATCH.configs()
        for ci, c in enumerate(res["consumers"]):
            for pi, pp in enumerate(c["per_producer"]):
                bad = pp["histories"][i]["bad"]
                if bad:
                    return Failure(clause(bad[0]),
                                   f"producer {cfg_name(prods[pi])} -> consumer {cfg_name(conss[ci])}: "
                                   f"{bad[:6]}", pl)
        return None

    def shrink(self, pl):
        # few, strictly smaller candidates: every candidate costs three subprocess launches
        pool = pl["pool"]
        size = len(pl["ops1"]) + len(pl["ops2"]) + len(pool)
        picks = [op for op in pl["ops1"] if op[0] == "pickle" and op[1] < len(pool)]
        for op in picks[:3]:
            for ops1 in ([["hash", 0], ["pickle", 0, op[2]]], [["pickle", 0, op[2]]]):
                cand = {"pool": [pool[op[1]]], "ops1": ops1, "ops2": [["unpickle", 0]]}
                if len(ops1) + 2 < size:
                    yield cand

    def nontrivial_key(self, pl, model, impl):
        return json.dumps(pl, sort_keys=True) if "unpickled" in impl else None

    def stats(self, pl, mo, io, acc):
        acc["ops"] = acc.get("ops", 0) + len(pl["ops1"]) + len(pl["ops2"])
        for op in pl["ops1"] + pl["ops2"]:
            d = acc.setdefault("op_kinds", {})
            d[op[0]] = d.get(op[0], 0) + 1
            if op[0] == "pickle":
                pr = acc.setdefault("protocols", {})
                pr[str(op[2])] = pr.get(str(op[2]), 0) + 1
        cl = acc.setdefault("classes", {})
        for s in pl["pool"]:
            for name in ("Norm", "Labelled", "Annotated", "Unit", "LegacyPair", "LegacyVar", "CallWithKwargs"):
                if f'"{name}"' in s:
                    cl[name] = cl.get(name, 0) + 1
        if BATCH.result is not None and "processes" not in acc:
            prods, conss = BATCH.configs()
            acc["subprocess_launches"] = BATCH.launches
            acc["processes"] = {
                "producers": [dict(cfg=cfg_name(c), **r["info"])
                              for c, r in zip(prods, BATCH.result["producers"])],
                "consumers": [dict(cfg=cfg_name(c), **r["info"])
                              for c, r in zip(conss, BATCH.result["consumers"])]}
            hx = {r["info"]["hash_x"] for r in BATCH.result["producers"] + BATCH.result["consumers"]}
            acc["distinct_string_hashes_of_x"] = len(hx)
            info = BATCH.result["producers"][0]["histories"]
            acc["pickles_of_already_hashed_objects"] = sum(
                1 for h in info for b in h["info"] if b["prehashed"])
            acc["pickles_total"] = sum(len(h["info"]) for h in info)


class DigestStream(Stream):
    """byte strings fed to the key hash by PersistentHashWalkMapper (model: `digest`); oracle: the
    sha256 key is the same in every process and for a structurally equal expression"""
    name = "persistent-digest"

    def cases(self, rng, tier):
        return list(BATCH.digest)

    def request(self, pl):
        return f"(c17-digest {pl['expr']})"

    def run_impl(self, pl):
        from pymbolic.mapper import UnsupportedExpressionError
        e = sx_to_expr(loads(pl["expr"]))
        try:
            return dumps(K.digest_stream(e))
        except RecursionError:
            raise
        except ValueError as ex:
            return "(err Foreign)" if "foreign" in str(ex) else "(err ValueError)"
        except UnsupportedExpressionError:
            return "(err Unsupported)"

    def oracle(self, pl):
        here = K.digest_hex(sx_to_expr(loads(pl["expr"])))
        hv = K.digest_hex(sx_to_expr(loads(pl["variant"])))
        i = None
        if BATCH.result is not None:
            i = BATCH.index["digest"].get(json.dumps(pl, sort_keys=True))
        if i is None:
            there = digests_elsewhere([pl["expr"], pl["variant"]])
            if there != [here, hv]:
                return Failure("digest-differs-across-processes", f"{[here, hv]} / {there}", pl)
        if BATCH.result is not None:
            if i is not None:
                procs = BATCH.result["producers"] + BATCH.result["consumers"]
                seen = {r["digests"][2 * i] for r in procs} | {here}
                if len(seen) != 1:
                    return Failure("digest-differs-across-processes", f"{sorted(seen)}", pl)
                seen_v = {r["digests"][2 * i + 1] for r in procs} | {hv}
                if len(seen_v) != 1:
                    return Failure("digest-differs-across-processes", f"variant: {sorted(seen_v)}", pl)
        if here != hv:
            if pl["vkind"] == "kwperm":
                return Failure("persistent-hash-kwargs-order",
                               f"{pl['expr']} and {pl['variant']} are == but have keys {here[:12]} / {hv[:12]}", pl)
            return Failure("digest-differs-for-rebuilt", f"{here} / {hv}", pl)
        return None

    def shrink(self, pl):
        for s in sx_shrinks(loads(pl["expr"])):
            yield digest_payload(s)

    def nontrivial_key(self, pl, model, impl):
        return pl["expr"] if len(impl) > 8 else None

    def stats(self, pl, mo, io, acc):
        nt = acc.setdefault("node_types", {})
        for k, v in node_types(sx_to_expr(loads(pl["expr"]))).items():
            nt[k] = nt.get(k, 0) + v
        acc[pl["vkind"]] = acc.get(pl["vkind"], 0) + 1
        if io.startswith("(err"):
            acc["errors"] = acc.get("errors", 0) + 1


class NumpyScalarDigest(Stream):
    """equal expressions whose constants are numpy scalars / Python scalars get the same persistent
    key (oracle only: numpy scalars have no wire form)"""
    name = "digest-numpy-scalars"
    has_model = False

    def cases(self, rng, tier):
        for kind in ("int64", "int32", "float64", "float32", "bool_", "complex128"):
            for shape in ("sum", "call", "power", "nested"):
                yield {"kind": kind, "shape": shape}

    def run_impl(self, pl):
        return "(oracle-only)"

    def _pair(self, pl):
        import numpy as np
        import pymbolic.primitives as p
        py = {"int64": 3, "int32": -7, "float64": 2.5, "float32": 0.5, "bool_": True,
              "complex128": 1 + 2j}[pl["kind"]]
        npv = getattr(np, pl["kind"])(py)
        x = p.Variable("x")

        def build(c):
            return {"sum": p.Sum((x, c)), "call": p.Call(p.Variable("f"), (c, x)),
                    "power": p.Power(x, c),
                    "nested": p.Product((p.Sum((x, c)), p.Quotient(c, x)))}[pl["shape"]]
        return build(py), build(npv)

    def oracle(self, pl):
        a, b = self._pair(pl)
        if not (a == b):
            return None
        ha, hb = K.digest_hex(a), K.digest_hex(b)
        if ha != hb:
            return Failure("digest-numpy-scalar-differs",
                           f"{a!r} == {b!r} (numpy {pl['kind']}) but keys {ha[:12]} / {hb[:12]}", pl)
        return None

    def nontrivial_key(self, pl, model, impl):
        return pl["kind"] + pl["shape"]


class CompiledStream(Stream):
    """pymbolic.compile(expr, variables) pickled in a producer, loaded in a consumer: same source
    expression and variables (model), same argument order and same results on argument tuples as
    the original and as the locally compiled one (oracle)"""
    name = "compiled-expression"

    def cases(self, rng, tier):
        return list(BATCH.compiled)

    def request(self, pl):
        o = dumps(K.obj_to_sx(sx_to_expr(loads(pl["expr"]))))
        return f"(c17-compiled 1 {o} ({' '.join(dumps(v) for v in pl['vars'])}))"

    def run_impl(self, pl):
        res, i = BATCH.lookup("compiled", pl)
        return " || ".join(pp["compiled"][i]["reply"]
                           for c in res["consumers"] for pp in c["per_producer"])

    def agree(self, model, impl, pl):
        segs = impl.split(" || ")
        return "ok" if segs and all(s == model for s in segs) else "diff"

    def oracle(self, pl):
        res, i = BATCH.lookup("compiled", pl)
        prods, conss = BATCH.configs()
        for ci, c in enumerate(res["consumers"]):
            for pi, pp in enumerate(c["per_producer"]):
                bad = pp["compiled"][i]["bad"]
                if bad:
                    return Failure("compiled-" + bad[0],
                                   f"producer {cfg_name(prods[pi])} -> consumer {cfg_name(conss[ci])}: {bad}"
                                   f"{pp['compiled'][i].get('note', '')}", pl)
        return None

    def nontrivial_key(self, pl, model, impl):
        return pl["expr"] + str(pl["vars"])

    def stats(self, pl, mo, io, acc):
        acc["protocol_" + str(pl["proto"])] = acc.get("protocol_" + str(pl["proto"]), 0) + 1
        if pl.get("family"):
            d = acc.setdefault("name_families", {})
            d[pl["family"]] = d.get(pl["family"], 0) + 1


class SharingStream(Stream):
    """The persistent key depends only on the STRUCTURE of an expression, not on which of its
    equal subexpressions happen to be one Python object.  One structure in which composite
    subexpressions repeat is built as a tree (built from source: a separate object per occurrence)
    and along routes that create or keep shared objects: maximal / partial sharing (`u = x + 1;
    u*u`), shared leaves too, pickle and deepcopy of a shared object, the library's caching
    identity mapper and `substitute`, identity mapping of a shared object.
    Correspondence: the byte strings the real mapper feeds for the SHARED object vs the model
    `digest` of the structure.
    Oracle: every route gives the key of the tree; one mapper instance applied to several
    expressions in a row feeds for each what a fresh mapper feeds; across processes: the shared
    object pickled in a producer (hashed before or not) is, in a consumer with another hash seed /
    -O, equal to the tree built from source there, has its hash, finds it, and has its key, which
    is the key the producer computed."""
    name = "digest-sharing"

    def cases(self, rng, tier):
        return list(BATCH.sharing)

    def request(self, pl):
        return f"(c17-digest {pl['expr']})"

    def run_impl(self, pl):
        sx = loads(pl["expr"])
        o = S.build(sx, "shared", pl["seed"])
        return real_digest_reply(o if o is not None else sx_to_expr(sx))

    def oracle(self, pl):
        sx = loads(pl["expr"])
        tree = S.build(sx, "tree", 0)
        if tree is None:
            return None
        kt = K.digest_hex(tree)
        for route in pl["routes"]:
            o = S.build(sx, route, pl["seed"], pl.get("extra"))
            if o is None:
                continue
            ko = K.digest_hex(o)
            if ko != kt:
                return Failure("digest-depends-on-object-sharing",
                               f"route {route} ({S.n_shared(o)} composite objects reachable along "
                               f"several paths): key {ko[:12]}; built from source (no sharing): "
                               f"{kt[:12]}; same structure {pl['expr']}", pl)
        fresh = K.digest_stream(tree) if not kt.startswith("err:") else None
        if fresh is not None:
            other = sx_to_expr(loads(pl["extra"]["parts"][0])) if pl.get("extra") else tree
            seq = [other, tree, tree, sx_to_expr(sx)]
            got = S.chunks_with_one_mapper(seq)
            for k in (1, 2, 3):
                if got[k] != fresh:
                    return Failure("digest-depends-on-mapper-history",
                                   f"one mapper instance, application {k + 1} of 4 feeds "
                                   f"{got[k][:8]}..., a fresh mapper {fresh[:8]}... for {pl['expr']}",
                                   pl)
        if not pl.get("xproc"):
            return None
        res, i = BATCH.lookup("sharing", pl)
        prods, conss = BATCH.configs()
        for ci, c in enumerate(res["consumers"]):
            for pi, pp in enumerate(c["per_producer"]):
                bad = pp["sharing"][i]["bad"]
                if bad:
                    return Failure(bad[0],
                                   f"route {pl['route']}, protocol {pl['proto']}, producer "
                                   f"{cfg_name(prods[pi])} -> consumer {cfg_name(conss[ci])}: {bad}", pl)
        return None

    def shrink(self, pl):
        # in-process candidates only (no subprocess launches while shrinking)
        for s in sx_shrinks(loads(pl["expr"])):
            yield {**pl, "expr": dumps(s), "extra": None, "xproc": False,
                   "routes": [r for r in pl["routes"] if r in S.PLAIN_ROUTES] or ["shared"],
                   "route": "shared"}

    def nontrivial_key(self, pl, model, impl):
        return pl["expr"] if len(impl) > 8 else None

    def stats(self, pl, mo, io, acc):
        d = acc.setdefault("routes", {})
        for r in pl["routes"]:
            d[r] = d.get(r, 0) + 1
        o = S.build(loads(pl["expr"]), "shared", pl["seed"])
        if o is not None and S.n_shared(o):
            acc["structures_with_a_repeated_composite"] = acc.get("structures_with_a_repeated_composite", 0) + 1
        if BATCH.result is not None and "pickles_with_shared_objects" not in acc:
            acc["pickles_with_shared_objects"] = sum(
                1 for r in BATCH.result["producers"] for x in r.get("sharing", [])
                if not x.get("na") and x["shared"])


class OfExprStream(Stream):
    """class name and field values of every stock node type (model: `ofExpr`) vs the dataclass
    fields of the real objects; and in-process pickle round trips with every protocol, lists
    included (model: `unpickle ∘ pickle`)"""
    name = "fields-and-roundtrip"

    def cases(self, rng, tier):
        n = 1000 if tier == "quick" else 10000
        g = ExprGen(rng, cse=0.1, floats=0.05)
        for i in range(n):
            e = g.gen(rng.choice(["num", "any", "bool", "int", "any"]), rng.randint(1, 5))
            yield {"expr": dumps(expr_to_sx(e)), "hash_first": bool(i % 2)}

    def request(self, pl):
        return f"(c17-ofexpr {pl['expr']})"

    def run_impl(self, pl):
        return dumps(K.obj_to_sx(sx_to_expr(loads(pl["expr"]))))

    def oracle(self, pl):
        import pickle
        e = sx_to_expr(loads(pl["expr"]))
        if pl["hash_first"] and not K.has_list(e):
            hash(e)
        want = dumps(K.obj_to_sx(e))
        for proto in range(pickle.HIGHEST_PROTOCOL + 1):
            blob = pickle.dumps(e, proto)
            if b"_hash_value" in blob:
                return Failure("pickle-mentions-_hash_value", f"protocol {proto}", pl)
            u = pickle.loads(blob)
            if "1" in K.bits(u):
                return Failure("unpickled-carries-cached-hash", f"protocol {proto}", pl)
            if dumps(K.obj_to_sx(u)) != want:
                return Failure("fields-differ", f"protocol {proto}: {dumps(K.obj_to_sx(u))}", pl)
        return None

    def shrink(self, pl):
        for s in sx_shrinks(loads(pl["expr"])):
            yield {**pl, "expr": dumps(s)}

    def nontrivial_key(self, pl, model, impl):
        return pl["expr"] if "inst" in impl else None


def extract(ctx=None):
    """T-gen: lean/PV/Generated/PersistentHash.lean (class body of PersistentHashWalkMapper) and
    lean/PV/Generated/Traversal.lean (the WalkMapper rows it inherits) from the live source"""
    from extract.persistent_hash import extract_persistent_hash
    from extract.traversal import extract_traversal
    extract_traversal(ctx)
    return extract_persistent_hash(ctx)


def real_digest_reply(e):
    from pymbolic.mapper import UnsupportedExpressionError
    try:
        return dumps(K.digest_stream(e))
    except RecursionError:
        raise
    except ValueError as ex:
        return "(err Foreign)" if "foreign" in str(ex) else "(err ValueError)"
    except UnsupportedExpressionError:
        return "(err Unsupported)"


class TableDigestStream(Stream):
    """T-gen tie: the compiled TABLE INTERPRETER (`c17DigestT`) run on the tables regenerated from
    the working tree (lean/PV/Generated/PersistentHash.lean + Traversal.lean) against the byte
    strings the real mapper feeds.  Agreement here + `digest_eq_table_current` is what makes the
    theorems about `digest` theorems about the source; after an edit of the source the regenerated
    table still follows the code (this stream keeps agreeing) while the obligation breaks."""
    name = "digest-table"

    def cases(self, rng, tier):
        n = 1200 if tier == "quick" else 12000
        g = ExprGen(rng, cse=0.1, floats=0.06, malformed=0.01)
        for i in range(n):
            e = g.gen(rng.choice(["num", "any", "bool", "int", "any"]), rng.randint(1, 5))
            yield {"expr": dumps(expr_to_sx(e))}
        x, y, f = p.Variable("x"), p.Variable("y"), p.Variable("f")
        for e in [p.LeftShift(x, y), p.RightShift(x, 3), p.Comparison(x, "<", y),
                  p.Comparison(p.Comparison(x, "!=", 1), "==", True), p.Lookup(x, "name"),
                  p.CommonSubexpression(x, "pfx"), p.Substitution(x + y, ("x",), (3,)),
                  p.Derivative(x * y, ("x", "y")), p.Slice((x, None, y)), p.Slice(()), p.NaN(),
                  p.Wildcard(), p.DotWildcard("a"), p.StarWildcard("b"), p.FunctionSymbol(),
                  (x, 1), [x, (y,)], p.Call(f, ()), p.CallWithKwargs(f, (y,), {"k": x, "j": 1}),
                  p.If(p.Comparison(x, ">=", 0), x, -1), True, -3, 1e300, 2.5, p.Sum(("s", None)),
                  p.Variable("Sum"), p.Variable("it's"), p.Sum(())]:
            yield {"expr": dumps(expr_to_sx(e))}

    def request(self, pl):
        return f"(c17-digest-table {pl['expr']})"

    def run_impl(self, pl):
        return real_digest_reply(sx_to_expr(loads(pl["expr"])))

    def shrink(self, pl):
        for s in sx_shrinks(loads(pl["expr"])):
            yield {"expr": dumps(s)}

    def nontrivial_key(self, pl, model, impl):
        return pl["expr"] if len(impl) > 8 else None


def tf(b):
    return "true" if b else "false"


class InjectiveStream(Stream):
    """pairs of DIFFERENT expressions (one mutation apart: a renamed variable, another constant,
    operator or class, swapped children, a never-fed field, a regrouped child list, a character
    moved across a piece boundary, a leaf spelled like another node).
    Correspondence: same chunk sequence / same concatenated bytes on the real mapper vs the model
    `digest`; same erasure / separability of the reference definitions (harness/c17_inject.py) vs
    `c17Erase` / `c17CommonSep`.
    Oracle (the statement of `digest_injective_partial` on the real code): two `!=` expressions
    with the same persistent key are reported with the REASON — the first place in feed order
    where the erased trees differ; the four reasons the theorem's hypotheses exclude are known
    findings, anything else (two separable trees, or a fed label that differs) is a violation."""
    name = "digest-injective"

    def cases(self, rng, tier):
        n = 2500 if tier == "quick" else 25000
        g = ExprGen(rng, cse=0.1, floats=0.06, malformed=0.0, lists=True)
        out = 0
        tries = 0
        while out < n and tries < 20 * n:
            tries += 1
            e = g.gen(rng.choice(["num", "any", "bool", "int", "any"]), rng.randint(1, 4))
            m = J.mutate(rng, expr_to_sx(e))
            if m is None:
                continue
            kind, a, b = m
            out += 1
            yield {"a": dumps(a), "b": dumps(b), "mut": kind}
        for key, a, b in J.known_pairs():
            yield {"a": dumps(expr_to_sx(a)), "b": dumps(expr_to_sx(b)), "mut": "directed"}
        x, y = p.Variable("x"), p.Variable("y")
        for a, b in [(p.Comparison(x, "<", y), p.Comparison(x, ">", y)), (x, y), (1, 2), (1, 1.0),
                     (p.Sum((x, y)), p.Product((x, y))), (p.Sum((x, y)), p.Sum((y, x))),
                     (p.LeftShift(x, y), p.LeftShift(y, x)), (p.LeftShift(x, y), p.RightShift(x, y)),
                     (p.Power(x, 2), p.Power(x, 2.0)), (p.Slice((x, None)), p.Slice((None, x))),
                     (p.Variable("Sum"), p.Sum(())), (p.If(x, y, 1), p.If(x, 1, y))]:
            yield {"a": dumps(expr_to_sx(a)), "b": dumps(expr_to_sx(b)), "mut": "directed"}

    def request(self, pl):
        return f"(c17-inj {pl['a']} {pl['b']})"

    def _both(self, pl):
        return sx_to_expr(loads(pl["a"])), sx_to_expr(loads(pl["b"]))

    def run_impl(self, pl):
        a, b = self._both(pl)
        ra, rb = real_digest_reply(a), real_digest_reply(b)
        if ra.startswith("(err") or rb.startswith("(err"):
            return "(noclaim)"
        ca, cb = K.digest_stream(a), K.digest_stream(b)
        return (f"(inj {tf(ca == cb)} {tf(''.join(ca) == ''.join(cb))} "
                f"{tf(J.erase(a) == J.erase(b))} {tf(J.common_sep(a, b))})")

    def agree(self, model, impl, pl):
        if "(noclaim)" in model or "(noclaim)" in impl:
            return "trivial" if model == impl else "diff"
        return "ok" if model == impl else "diff"

    def oracle(self, pl):
        a, b = self._both(pl)
        try:
            if a == b:
                return None
        except Exception:
            return None
        ka, kb = K.digest_hex(a), K.digest_hex(b)
        if ka.startswith("err:") or kb.startswith("err:") or ka != kb:
            return None
        if J.keybuilder_key(a) != J.keybuilder_key(b):
            return Failure("persistent-key-hash-objects-disagree",
                           f"sha256 keys equal, KeyBuilder hash keys differ: {pl['a']} / {pl['b']}", pl)
        # Two different expressions with one key: NOT a failure of the property (C17 asks that the
        # key is a function of the structure and the same in every process, not that it is
        # injective).  Collisions are classified and counted in the evidence (`stats`) and the
        # model's prediction of them is part of the correspondence; see DESIGN.md §4 C17.
        return None

    @staticmethod
    def collision_class(a, b):
        ea, eb = J.erase(a), J.erase(b)
        ca, cb = K.digest_stream(a), K.digest_stream(b)
        if ea == eb:
            return "unfed-field"
        if ca != cb:
            return "concatenation"
        why = J.first_difference(ea, eb)
        if why in ("arity", "leaf-token") and not J.common_sep(a, b):
            return why
        return "separable-trees"

    def shrink(self, pl):
        for a, b in J.shrink_pair(loads(pl["a"]), loads(pl["b"])):
            yield {"a": dumps(a), "b": dumps(b), "mut": pl["mut"]}

    def nontrivial_key(self, pl, model, impl):
        return pl["a"] + pl["b"] if impl.startswith("(inj") else None

    def stats(self, pl, mo, io, acc):
        d = acc.setdefault("mutations", {})
        d[pl["mut"]] = d.get(pl["mut"], 0) + 1
        if io.startswith("(inj"):
            parts = io[5:-1].split()
            for name, v in zip(("same_chunks", "same_bytes", "same_erasure", "separable"), parts):
                if v == "true":
                    acc[name] = acc.get(name, 0) + 1
            if parts[3] == "true" and parts[2] == "false":
                acc["separable_and_different"] = acc.get("separable_and_different", 0) + 1
            if parts[1] == "true":
                try:
                    a, b = self._both(pl)
                    if a != b:
                        c = acc.setdefault("collisions_observed", {})
                        k = self.collision_class(a, b)
                        c[k] = c.get(k, 0) + 1
                except Exception:
                    pass



def probe_known():
    """replays of the known findings on the real code"""
    x, b, c, f = (p.Variable(v) for v in "xbcf")
    e1 = p.CallWithKwargs(f, (b,), {"k": c, "j": x})
    e2 = p.CallWithKwargs(f, (b,), {"j": x, "k": c})
    fails = (e1 == e2) and K.digest_hex(e1) != K.digest_hex(e2)
    res = [("persistent-hash-kwargs-order", fails,
            f"f(b,k=c,j=x) == f(b,j=x,k=c) is {e1 == e2}; keys {K.digest_hex(e1)[:12]} / {K.digest_hex(e2)[:12]}")]
    return res


PROP = Prop(
    id="C17",
    title="Pickles and persistent keys are stable across processes",
    lean_targets=["PV.Properties.C17", "PV.Properties.C17Compiled"],
    extractors=[extract],
    streams=[HistStream(), DigestStream(), NumpyScalarDigest(), CompiledStream(), OfExprStream(),
             TableDigestStream(), InjectiveStream(), SharingStream()],
    probes=[probe_known],
    trusted_base=[
        "Lean 4.33 kernel; axioms propext, Classical.choice, Quot.sound only",
        "CPython's pickle machinery (object.__reduce_ex__ calling __getstate__, BUILD calling "
        "__setstate__), str/tuple/frozenset hashing and dict/set lookup are runtime: modelled "
        "(HashParams, memberC) and validated by the cross-process correspondence only",
        "harness/c17_classes.py (generic field reader, slot reader) and harness/c17_worker.py",
        "extract/persistent_hash.py (ast reader of the class body of PersistentHashWalkMapper; unknown "
        "shapes are errors) and the meaning of the table language, validated by the digest-table stream",
    ],
    level_text="Lean theorems about an object model in which EVERY instance at every depth carries "
               "its own _hash_value slot, for all object states, all hash parameters of producer and "
               "consumer, and all histories of hash / == / in / pickle / unpickle: the pickle does "
               "not depend on any slot, an unpickled object has no slot set, hashing it in the "
               "consumer gives the consumer's hash of a locally built object with == fields, it is "
               "== to and found by that object; the digest model has no hash parameter and agrees on "
               "structurally equal trees with the same keyword insertion order; the digest model is proved "
               "equal, for all expressions, to the interpreter of the class body of "
               "PersistentHashWalkMapper re-read from the source on every run (T-gen), and injective up "
               "to the never-fed fields on trees separable under one rank discipline (with a collision "
               "witness for every dropped hypothesis). Tied to the code by "
               "producer/consumer interpreter processes differing in PYTHONHASHSEED and -O, "
               "protocols 0-5, stock + user + legacy classes + compiled expressions.",
    level_note="Partial: the interpreter's hashing and pickling are runtime (parameters of the "
               "model, exercised in real subprocesses). Nested == after the top-level hash "
               "comparison is modelled as pure (true in every reachable state; the slot pattern is "
               "part of the correspondence). Python lists inside expressions are unhashable: "
               "round-trip only. float nan constants are excluded (nan != nan).",
    technique="Lean 4 invariant proof (slot coherence per process) over an executable object model + "
              "cross-process differential correspondence + in-consumer evaluation of the property",
    design_ref="DESIGN.md §4 C17",
    assumptions=[
        "producer and consumer import the same class definitions",
        "no float nan constants inside expressions (they are not == to themselves)",
    ],
)
