"""C05 — memoization and mapper optimization are observationally transparent.

Streams
  keyeq      (model)  cache-key equality: `Key.eq` / `Key.cseEq` vs the real `get_cache_key` tuples
                      and the CSE mix-in's `(expr, *args)`; oracle: equal keys hash alike, scalar
                      types and different extra arguments separate keys
  memo-trace (model)  histories on ONE instrumented CachedDependencyMapper (memo table) /
                      DependencyMapper (CSE mix-in cache): answers, hit/miss trace of every lookup,
                      number of completed computations  vs  `runHistC` on the `depsProg` family
  optkeys    (model)  all 32 option sets x 4 user classes x 4 call shapes: the key tuples the
                      rewritten class stores (or the exception it raises) vs `siteKeys (optimize ..)`
  pairs      (oracle) paired cached / uncached mappers over histories of (expression, extra args);
                      includes CachedStringifyMapper vs StringifyMapper (texts, exceptions, at most
                      one handler run per (expression, enclosing precedence) on one instance)
  scalars    (oracle) histories mixing 4 / 4.0 / True (top level and reached through `rec`)
  optimizer  (oracle) optimized user classes (all 32 option sets) vs their non-memoizing counterparts
  optimizer-subjects (oracle) `optimize_mapper` on 17 user classes (harness/c05_subjects.py) that
                      override a handler the stock base class also publishes under other names
                      (map_product = map_sum, ...), override alias names only, or declare an alias of
                      their own; answers that are trees / empty tuples and sets / None (walk); every
                      history holds one node of every operator class: answers vs the non-memoizing
                      counterpart of the class AS WRITTEN, an override may only have run for node
                      types whose handler name resolves to it, each key computed at most once
  class-histories (oracle) histories over SEVERAL memoizing classes of one hierarchy (stock class,
                      derived class overriding a handler, class derived from that) and several
                      instances, in every order, on user-defined node types (served through the
                      nearest ancestor's handler): each answer = the non-memoizing counterpart of
                      THAT class applied afresh and carries that class's override marks only

T-gen (extract/caching.py -> lean/PV/Generated/Caching.lean, regenerated on every run): the tuple of
`get_cache_key`, the statement-by-statement protocol of `CachedMapper.__call__` and of the CSE
mix-in, sentinel and cache creation, every caching class with its MRO and the class bodies that
define the protocol attributes, the optimizer's rewriting loop, each live transformer class run on
every dispatch expression of the model's syntax, and the rewritten source of the 4 x 32 optimized
classes read back into the model's `Code`.  The optimized classes are built once per process and
shared with the `optkeys` / `optimizer` streams.  extract/optcollect.py ->
lean/PV/Generated/OptCollect.lean: six user classes as written (own definitions, class-level
assignments, `dir` with what `getattr` resolves) next to the class bodies the live `optimize_mapper()`
emits for them (PV/Properties/C05Collect.lean: `collect_current`, `flattened_resolves_current`).
"""
from __future__ import annotations

import io
import itertools
import random
from fractions import Fraction

import pymbolic.primitives as p

from .. import c05_classes as C
from ..core import Failure, Prop, Stream
from ..gen import ExprGen, rand_env, size
from ..oracles import scan
from ..oracles.pyeval import is_safe, loosely_equal, outcome
from ..sexp import A, dumps, env_to_sx, expr_to_sx, loads, sx_shrinks, sx_to_env, sx_to_expr

OPT_NAMES = ["drop_args", "drop_kwargs", "inline_rec", "inline_cache", "inline_get_cache_key"]
CONSTS = (int, float, bool, complex, str, type(None))


# {{{ helpers

def rebuild(e):
    """an equal-but-not-identical copy (every node is a new object)"""
    return sx_to_expr(loads(dumps(expr_to_sx(e))))


def esx(e):
    return dumps(expr_to_sx(e))


def arg_sx(v):
    return dumps(expr_to_sx(v))


def key_req(sx, args, kwargs):
    kws = " ".join(f'("{k}" {arg_sx(v)})' for k, v in kwargs.items())
    return f"({sx} ({' '.join(arg_sx(a) for a in args)}) ({kws}))"


def err_sx(ex):
    from pymbolic.mapper import UnsupportedExpressionError
    if isinstance(ex, (UnsupportedExpressionError, NotImplementedError)):
        return "(err Unsupported)"
    if isinstance(ex, ValueError) and "foreign" in str(ex):
        return "(err Foreign)"
    return f"(err {type(ex).__name__})"


def outc(fn):
    """('ok', value) | ('err', exception class name)"""
    try:
        return ("ok", fn())
    except RecursionError:
        raise
    except Exception as ex:
        return ("err", type(ex).__name__)


def coherent(exprs):
    """No two `==` composite subterms are typed differently (e.g. Sum((x, 4)) / Sum((x, 4.0))):
    such subterms are EQUAL expressions and legitimately share one cache entry, which a
    type-sensitive handler can observe.  Constants themselves carry their type in the key."""
    seen = {}
    for e in exprs:
        for s in scan.subterms(e):
            if isinstance(s, CONSTS):
                continue
            try:
                if seen.setdefault((type(s), s), esx(s)) != esx(s):
                    return False
            except TypeError:
                return False
    return True


def frozen(kwargs):
    return frozenset(kwargs.items())


def instrument(cls, once_names=None):
    """Subclass of `cls` in which every `map_*` method records each COMPLETED invocation under
    (method name, type(expr), expr, args, kwargs) in `self._c05_counts`."""
    ns = {}

    def wrap(name, orig):
        def wrapper(self, expr, *args, **kwargs):
            res = orig(self, expr, *args, **kwargs)
            if once_names is None or name in once_names:
                try:
                    k = (name, type(expr), expr, args, frozen(kwargs))
                    d = self.__dict__.setdefault("_c05_counts", {})
                    d[k] = d.get(k, 0) + 1
                    self.__dict__.setdefault("_c05_results", {})[k] = res
                except TypeError:
                    pass
            return res
        wrapper.__name__ = name
        return wrapper

    for name in dir(cls):
        if name.startswith("map_") and callable(getattr(cls, name)):
            ns[name] = wrap(name, getattr(cls, name))
    return type("Counted" + cls.__name__, (cls,), ns)


def recomputed(m):
    """the (method, key) pairs computed more than once on instance `m`"""
    return [(k[0], esx(k[2])[:120], k[3], dict(k[4]), n)
            for k, n in getattr(m, "_c05_counts", {}).items() if n > 1]


ARG_POOL = [(), (), ("_a",), ("_b",), ("_a", 2), (3,), (None,)]
KW_POOL = [{}, {}, {"k": "_c"}, {"k": "_d"}, {"k": "_c", "l": 1}]


def gen_history(rng, g, with_args=False, with_kwargs=False, depth=4):
    """2-8 calls with heavy sharing and equal-but-not-identical subtrees"""
    ctxs = ["num", "int", "bool", "any"]
    pool = [g.gen(rng.choice(ctxs), rng.randint(1, depth)) for _ in range(rng.randint(2, 4))]
    calls = []
    for _ in range(rng.randint(2, 8)):
        k = rng.random()
        if k < 0.3:
            e = rng.choice(pool)
        elif k < 0.55:
            e = rebuild(rng.choice(pool))
        elif k < 0.75:
            a, b = rng.choice(pool), rng.choice(pool)
            e = p.Sum((a, rebuild(a), b))
        elif k < 0.85:
            e = p.Product((rng.choice(pool), rebuild(rng.choice(pool))))
        else:
            subs = scan.subterms(rng.choice(pool))
            e = rng.choice(subs)
        args = list(rng.choice(ARG_POOL)) if with_args else []
        kwargs = dict(rng.choice(KW_POOL)) if with_kwargs else {}
        calls.append([esx(e), args, kwargs])
    return calls


def load_calls(pl):
    return [(sx_to_expr(loads(sx)), tuple(a), dict(kw)) for sx, a, kw in pl["calls"]]


def shrink_calls(pl):
    cs = pl["calls"]
    for i in range(len(cs)):
        if len(cs) > 1:
            yield {**pl, "calls": cs[:i] + cs[i + 1:]}
    for i in range(len(cs)):
        sx, a, kw = cs[i]
        if a or kw:
            yield {**pl, "calls": cs[:i] + [[sx, [], {}]] + cs[i + 1:]}
        for s in sx_shrinks(loads(sx)):
            yield {**pl, "calls": cs[:i] + [[dumps(s), a, kw]] + cs[i + 1:]}

# }}}


# {{{ stream: key equality

class KeyEqStream(Stream):
    name = "keyeq"

    VALS = [1, True, 1.0, 0, False, 2, "a", "b", None, 0.5]

    def retype(self, rng, e):
        """change the type of some constants without changing their value"""
        sx = expr_to_sx(e)

        def go(s):
            if isinstance(s, list) and s and s[0] in ("Int", "Bool", "Flt") and rng.random() < 0.5:
                v = sx_to_expr(s)
                if v in (0, 1):
                    return expr_to_sx(rng.choice([int(v), bool(v), float(v)]))
                if isinstance(v, int) or (isinstance(v, float) and v == int(v) and abs(v) < 1e6):
                    return expr_to_sx(rng.choice([int(v), float(v)]))
                return s
            if isinstance(s, list):
                return [go(c) if isinstance(c, list) else c for c in s]
            return s
        return sx_to_expr(loads(dumps(go(sx))))

    def cases(self, rng, tier):
        n = 2500 if tier == "quick" else 30000
        g = ExprGen(rng, lists=False, floats=0.1, cse=0.15)
        for i in range(n):
            e1 = g.gen(rng.choice(["num", "int", "bool", "any"]), rng.randint(0, 4))
            k = rng.random()
            if k < 0.35:
                e2 = self.retype(rng, e1)
            elif k < 0.55:
                e2 = rebuild(e1)
            elif k < 0.7:
                subs = scan.subterms(e1)
                e2 = rng.choice(subs)
            else:
                e2 = g.gen(rng.choice(["num", "int", "bool", "any"]), rng.randint(0, 2))
            a1 = [rng.choice(self.VALS) for _ in range(rng.choice([0, 0, 1, 2]))]
            a2 = list(a1) if rng.random() < 0.5 else \
                [rng.choice(self.VALS) for _ in range(rng.choice([0, 0, 1, 2]))]
            if a2 == a1 and a1 and rng.random() < 0.5:
                j = rng.randrange(len(a2))
                a2[j] = {1: True, True: 1.0, 0: False}.get(a2[j], a2[j])
            names = rng.sample(["k", "l", "zz"], rng.choice([0, 0, 1, 2]))
            kw1 = {nm: rng.choice(self.VALS) for nm in names}
            if rng.random() < 0.6:
                items = list(kw1.items())
                rng.shuffle(items)
                kw2 = dict(items)
            else:
                names2 = rng.sample(["k", "l", "zz"], rng.choice([0, 1, 2]))
                kw2 = {nm: rng.choice(self.VALS) for nm in names2}
            yield {"k1": [esx(e1), a1, kw1], "k2": [esx(e2), a2, kw2]}
        # exhaustive: every ordered pair of small scalars as the mapped object and as an argument
        sc = [4, 4.0, True, 1, 1.0, False, 0, 0.0, "4", None]
        for u, v in itertools.product(sc, sc):
            yield {"k1": [esx(u), [], {}], "k2": [esx(v), [], {}]}
            yield {"k1": [esx(p.Variable("x")), [u], {}], "k2": [esx(p.Variable("x")), [v], {}]}
            yield {"k1": [esx(p.Variable("x")), [], {"k": u}], "k2": [esx(p.Variable("x")), [], {"k": v}]}
            yield {"k1": [esx(p.Sum((p.Variable("x"), u))), [], {}],
                   "k2": [esx(p.Sum((p.Variable("x"), v))), [], {}]}
            yield {"k1": [esx(p.CommonSubexpression(u)), [], {}],
                   "k2": [esx(p.CommonSubexpression(v)), [], {}]}

    def request(self, pl):
        return f"(memo-keyeq {key_req(*pl['k1'])} {key_req(*pl['k2'])})"

    def _keys(self, pl):
        from pymbolic.mapper import CachedMapper
        m = CachedMapper()
        out = []
        for sx, a, kw in (pl["k1"], pl["k2"]):
            e = sx_to_expr(loads(sx))
            out.append((m.get_cache_key(e, *a, **kw), (e, *a), e, tuple(a), dict(kw)))
        return out

    def run_impl(self, pl):
        (k1, c1, *_), (k2, c2, *_) = self._keys(pl)
        b = lambda v: "true" if v else "false"  # noqa: E731
        return f"({b(k1 == k2)} {b(c1 == c2)})"

    def oracle(self, pl):
        (k1, _c1, e1, a1, kw1), (k2, _c2, e2, a2, kw2) = self._keys(pl)
        if k1 == k2:
            if hash(k1) != hash(k2):
                return Failure("equal-keys-hash-differently", f"{k1!r} == {k2!r}", pl)
            if type(e1) is not type(e2):
                return Failure("key-ignores-type", f"{k1!r} == {k2!r}", pl)
            if a1 != a2 or kw1 != kw2:
                return Failure("key-ignores-arguments", f"{k1!r} == {k2!r}", pl)
        else:
            # same type, equal expression, equal arguments => one key
            if type(e1) is type(e2) and e1 == e2 and a1 == a2 and kw1 == kw2:
                return Failure("key-separates-equal-calls", f"{k1!r} != {k2!r}", pl)
        return None

    def nontrivial_key(self, pl, model, impl):
        return dumps(pl["k1"][0]) + str(pl["k1"][1:]) + dumps(pl["k2"][0]) + str(pl["k2"][1:])

    def stats(self, pl, mo, io, acc):
        acc[io] = acc.get(io, 0) + 1

# }}}


# {{{ stream: hit/miss traces of the dependency mapper vs runHistC

FLAGSETS = [dict(subscripts=s, lookups=l, calls=c, cses=cs)
            for s in (True, False) for l in (True, False)
            for c in (True, False, "descend_args") for cs in (True, False)]


def flags_req(fl):
    c = {True: "yes", False: "no", "descend_args": "descend"}[fl["calls"]]
    b = lambda v: "true" if v else "false"  # noqa: E731
    return f"({b(fl['subscripts'])} {b(fl['lookups'])} {c} {b(fl['cses'])})"


def dep_kwargs(fl):
    return dict(include_subscripts=fl["subscripts"], include_lookups=fl["lookups"],
                include_calls=fl["calls"], include_cses=fl["cses"])


def traced_dep_mapper(fl, layer):
    from pymbolic.mapper.dependency import CachedDependencyMapper, DependencyMapper
    if layer == "memo":
        class Traced(CachedDependencyMapper):
            def __call__(self, expr, *args, **kwargs):
                try:
                    hit = self.get_cache_key(expr, *args, **kwargs) in self._cache
                except TypeError:
                    hit = None
                if hit is not None:
                    self.trace.append((hit, expr))
                return CachedDependencyMapper.__call__(self, expr, *args, **kwargs)
            rec = __call__
        m = Traced(**dep_kwargs(fl))
        m.trace = []
        m.n_computed = lambda: len(m._cache)
        return m

    class TracedCse(DependencyMapper):
        def map_common_subexpression(self, expr, *args):
            try:
                hit = (expr, *args) in self.__dict__.get("_cse_cache_dict", {})
            except TypeError:
                hit = None
            if hit is not None:
                self.trace.append((hit, expr))
            return DependencyMapper.map_common_subexpression(self, expr, *args)
    m = TracedCse(**dep_kwargs(fl))
    m.trace = []
    m.n_computed = lambda: len(m.__dict__.get("_cse_cache_dict", {}))
    return m


class MemoTraceStream(Stream):
    name = "memo-trace"

    def cases(self, rng, tier):
        n = 900 if tier == "quick" else 10000
        g = ExprGen(rng, lists=False, cse=0.2, floats=0.03)
        for i in range(n):
            fl = FLAGSETS[i % len(FLAGSETS)]
            layer = "memo" if i % 3 else "cse"
            calls = gen_history(rng, g, with_args=(i % 2 == 0))
            yield {"flags": fl, "layer": layer, "calls": calls}

    def request(self, pl):
        ks = " ".join(key_req(sx, a, kw) for sx, a, kw in pl["calls"])
        return f"(memo-deps {flags_req(pl['flags'])} {pl['layer']} ({ks}))"

    def run_impl(self, pl):
        m = traced_dep_mapper(pl["flags"], pl["layer"])
        outs = []
        for e, a, kw in load_calls(pl):
            m.trace.clear()
            try:
                res = m(e, *a, **kw)
                ans = "(" + " ".join(sorted(esx(d) for d in res)) + ")"
            except RecursionError:
                raise
            except Exception as ex:
                ans = err_sx(ex)
            tr = " ".join(f"({'h' if hit else 'm'} {esx(x)})" for hit, x in m.trace)
            outs.append(f"({ans} ({tr}))")
        return f"(({' '.join(outs)}) {m.n_computed()})"

    def oracle(self, pl):
        # the property itself: the memoizing instance answers like a fresh plain mapper
        from pymbolic.mapper.dependency import CachedDependencyMapper, DependencyMapper
        fl = pl["flags"]
        m = (CachedDependencyMapper if pl["layer"] == "memo" else DependencyMapper)(**dep_kwargs(fl))
        for i, (e, a, kw) in enumerate(load_calls(pl)):
            got = outc(lambda: m(e, *a, **kw))
            ref = outc(lambda: scan.dependencies(e, fl["subscripts"], fl["lookups"], fl["calls"],
                                                 fl["cses"]))
            if got[0] == "ok" and got != ref:
                return Failure("dependency-history-differs",
                               f"call #{i}: instance gives {got!r}, independent scan {ref!r}", pl)
        return None

    def shrink(self, pl):
        return shrink_calls(pl)

    def nontrivial_key(self, pl, model, impl):
        return dumps([c[0] for c in pl["calls"]]) + str(pl["flags"]) + pl["layer"] \
            if "(h " in impl else None

    def stats(self, pl, mo, io, acc):
        acc["calls"] = acc.get("calls", 0) + len(pl["calls"])
        acc["hits"] = acc.get("hits", 0) + io.count("(h ")
        acc["misses"] = acc.get("misses", 0) + io.count("(m ")
        acc["errors"] = acc.get("errors", 0) + io.count("(err ")

# }}}


# {{{ optimizer: building the rewritten classes

_OPT_CACHE: dict = {}
PRINT_MISMATCH: list = []


def optimized(ka, kk, bits):
    """`optimize_mapper(**opts)(cls)` on source ASTs read afresh (what a new process sees): the
    optimizer caches the parsed module and rewrites it IN PLACE, so a second application in one
    process starts from already rewritten methods (finding `optimizer-shared-ast-mutated`)."""
    key = (ka, kk, tuple(bits))
    if key not in _OPT_CACHE:
        from pymbolic.mapper import optimize
        cls, _plain = C.OPT_CLASSES[(ka, kk)]
        getattr(optimize._get_ast_for_file, "cache_clear", lambda: None)()
        # `print_modified_code_file`: on for every other option set; it must only print
        buf = io.StringIO() if sum(bits) % 2 else None
        try:
            new = optimize.optimize_mapper(**dict(zip(OPT_NAMES, bits)),
                                           print_modified_code_file=buf)(cls)
        finally:
            getattr(optimize._get_ast_for_file, "cache_clear", lambda: None)()
        if buf is not None:
            src = new.__call__.__globals__.get("_MODULE_SOURCE_CODE", "")
            if buf.getvalue() != src + "\n" or f"class {cls.__name__}" not in src:
                PRINT_MISMATCH.append(key)
        _OPT_CACHE[key] = new
    return _OPT_CACHE[key]


def part_shape(c):
    from immutabledict import immutabledict
    if isinstance(c, type):
        return "ty"
    if isinstance(c, tuple):
        return f"(args {len(c)})"
    if isinstance(c, immutabledict):
        return f"(kwargs {len(c)})"
    return "expr"


CALL_SHAPES = [((), {}), (("_a",), {}), ((), {"k": "_c"}), (("_a",), {"k": "_c"})]

# }}}


# {{{ stream: key tuples of optimized classes vs the model of the rewrites

class OptKeysStream(Stream):
    name = "optkeys"

    def cases(self, rng, tier):
        for ka, kk in itertools.product([False, True], repeat=2):
            for bits in itertools.product([False, True], repeat=5):
                for ci in range(len(CALL_SHAPES)):
                    yield {"ka": ka, "kk": kk, "opts": list(bits), "call": ci}

    def request(self, pl):
        b = lambda v: "true" if v else "false"  # noqa: E731
        a, kw = CALL_SHAPES[pl["call"]]
        k = key_req(esx(p.Variable("x")), a, kw)
        return f"(memo-optkeys ({' '.join(b(o) for o in pl['opts'])}) {b(pl['ka'])} {b(pl['kk'])} {k})"

    def run_impl(self, pl):
        cls = optimized(pl["ka"], pl["kk"], pl["opts"])
        a, kw = CALL_SHAPES[pl["call"]]
        m = cls()
        e = p.Sum((p.Variable("x"), p.Variable("y")))
        try:
            m(e, *a, **kw)
        except (NameError, TypeError) as ex:
            return f"(err {type(ex).__name__})"
        top = sorted({"(" + " ".join(part_shape(c) for c in k) + ")"
                      for k in m._cache if k[0] is p.Sum})
        inner = sorted({"(" + " ".join(part_shape(c) for c in k) + ")"
                        for k in m._cache if k[0] is p.Variable})
        return f"(ok ({' '.join(top)}) ({' '.join(inner)}))"

    def nontrivial_key(self, pl, model, impl):
        return str(pl)

    def stats(self, pl, mo, io, acc):
        k = io if io.startswith("(err") else "ok"
        acc[k] = acc.get(k, 0) + 1

# }}}


# {{{ stream: paired cached / uncached mappers

class TagLeaves:
    """leaf handlers whose answers depend on the extra arguments"""

    def map_variable(self, expr, *args, **kwargs):
        return p.Variable(expr.name + C.sfx(args, kwargs))


class TypedLeaves(TagLeaves):
    """… and on the TYPE of constants"""

    def map_constant(self, expr, *args, **kwargs):
        return p.Variable(f"c_{type(expr).__name__}_{expr!r}" + C.sfx(args, kwargs))


class ListCombine:
    """CombineMapper with list concatenation; leaves answer (type name, leaf, args)"""

    def combine(self, values):
        self.combines = getattr(self, "combines", 0) + 1
        out = []
        for v in values:
            out.extend(v)
        return out

    def leaf(self, expr, *args, **kwargs):
        return [(type(expr).__name__, expr, args, tuple(sorted(kwargs.items())))]

    map_constant = map_variable = map_wildcard = map_dot_wildcard = map_star_wildcard = leaf
    map_function_symbol = map_nan = leaf


class VarCollect:
    def map_variable(self, expr, *args, **kwargs):
        return {p.Variable(expr.name + C.sfx(args, kwargs))}


class LogWalk:
    skip: tuple = ()

    def visit(self, expr, *args, **kwargs):
        self.__dict__.setdefault("log", []).append(("v", type(expr), expr, args, frozen(kwargs)))
        return not isinstance(expr, self.skip)

    def post_visit(self, expr, *args, **kwargs):
        self.__dict__.setdefault("log", []).append(("p", type(expr), expr, args, frozen(kwargs)))


def is_subsequence(small, big):
    it = iter(big)
    return all(any(x == y for y in it) for x in small)


def typed_eq(a, b):
    """== plus, for constants, the same type (recursively through containers of answers)"""
    if isinstance(a, CONSTS) or isinstance(b, CONSTS):
        if type(a) is not type(b):
            return False
        return loosely_equal(a, b)
    if isinstance(a, (tuple, list)) and isinstance(b, (tuple, list)):
        return type(a) is type(b) and len(a) == len(b) and all(typed_eq(x, y) for x, y in zip(a, b))
    return loosely_equal(a, b)


def top_eq(e, a, b):
    """`exactly what its counterpart returns`: == on answers; if the mapped object is a constant
    the answer's type counts too"""
    if isinstance(e, CONSTS):
        return type(a) is type(b) and loosely_equal(a, b)
    return loosely_equal(a, b)


_PAIR_CLASSES: dict = {}


def pair_classes():
    """the instrumented user subclasses (built once)"""
    if not _PAIR_CLASSES:
        import pymbolic.mapper as M
        from pymbolic.mapper.flop_counter import FlopCounterBase
        d = _PAIR_CLASSES
        d["identity"] = (type("CI", (TagLeaves, M.CachedIdentityMapper), {}),
                         type("PI", (TagLeaves, M.IdentityMapper), {}))
        d["identity-typed"] = (type("CIT", (TypedLeaves, M.CachedIdentityMapper), {}),
                               type("PIT", (TypedLeaves, M.IdentityMapper), {}))
        d["combine"] = (type("CC", (ListCombine, M.CachedCombineMapper), {}),
                        type("PC", (ListCombine, M.CombineMapper), {}))
        d["collector"] = (type("CCo", (VarCollect, M.CachedCollector), {}),
                          type("PCo", (VarCollect, M.Collector), {}))
        d["walk"] = (type("CW", (LogWalk, M.CachedWalkMapper), {}),
                     type("PW", (LogWalk, M.WalkMapper), {}))
        d["flops-plain"] = type("PF", (FlopCounterBase,), {})
    return _PAIR_CLASSES


def make_pair(pl):
    """(memoizing class, constructor args, constructor kwargs, plain factory, once_names)"""
    kind = pl["pair"]
    pc = pair_classes()
    if kind in ("identity", "identity-typed", "combine", "collector"):
        c, q = pc[kind]
        return c, (), {}, q, None
    if kind == "walk":
        c, q = pc[kind]
        return c, (), {}, q, None
    if kind == "evaluation":
        from pymbolic.mapper.evaluator import CachedEvaluationMapper, EvaluationMapper
        env = sx_to_env(loads(pl["env"]))
        return CachedEvaluationMapper, (env,), {}, (lambda: EvaluationMapper(env)), None
    if kind == "dependency":
        from pymbolic.mapper.dependency import CachedDependencyMapper, DependencyMapper
        kw = dep_kwargs(pl["flags"])
        return CachedDependencyMapper, (), kw, (lambda: DependencyMapper(**kw)), None
    if kind == "substitution":
        from pymbolic.mapper.substitutor import (CachedSubstitutionMapper, SubstitutionMapper,
                                                 make_subst_func)
        assign = {k: sx_to_expr(loads(v)) for k, v in pl["subst"].items()}
        return (CachedSubstitutionMapper, (make_subst_func(assign),), {},
                (lambda: SubstitutionMapper(make_subst_func(assign))), None)
    if kind == "flops":
        from pymbolic.mapper.flop_counter import FlopCounter
        return FlopCounter, (), {}, pc["flops-plain"], None
    if kind == "stringify":
        from pymbolic.mapper.stringifier import CachedStringifyMapper, StringifyMapper
        return CachedStringifyMapper, (), {}, StringifyMapper, None
    if kind == "cse-mixin":
        return C.CseTagger, (), {}, C.PlainTagger, {"map_common_subexpression_uncached"}
    if kind == "cse-mixin-cached":
        return C.CachedCseTagger, (), {}, C.PlainTagger, None
    raise ValueError(kind)


_COUNTED: dict = {}


def counted(cls, once=None):
    key = (cls, tuple(sorted(once or ())))
    if key not in _COUNTED:
        _COUNTED[key] = instrument(cls, once)
    return _COUNTED[key]


PAIR_KINDS = ["identity", "combine", "collector", "walk", "evaluation", "dependency",
              "substitution", "nodecount", "flops", "cse-mixin", "cse-mixin-cached", "stringify"]
# enclosing precedences passed to the stringifiers (PREC_NONE … PREC_CALL and one above)
STRINGIFY_PRECS = [0, 3, 6, 11, 12, 13, 14, 15, 16]
WITH_ARGS = {"identity": (True, True), "combine": (True, True), "collector": (True, True),
             "walk": (True, True), "dependency": (True, False), "cse-mixin": (True, False),
             "cse-mixin-cached": (True, False)}


class PairStream(Stream):
    """One memoizing instance over the whole history vs a fresh non-memoizing mapper per call."""
    name = "pairs"
    has_model = False

    def cases(self, rng, tier):
        n = 220 if tier == "quick" else 3000
        for i in range(n):
            for kind in PAIR_KINDS:
                yield self.one(rng, kind, i)

    def one(self, rng, kind, i):
        wa, wk = WITH_ARGS.get(kind, (False, False))
        if i % 3 == 0:
            wa = wk = False
        pl = {"pair": kind}
        if kind == "evaluation":
            g = ExprGen(rng, lists=False, cse=0.25, malformed=0.02, floats=0.0)
            env = rand_env(rng)
            for _ in range(20):
                calls = gen_history(rng, g, depth=3)
                if all(is_safe(sx_to_expr(loads(c[0])), env) for c in calls):
                    break
            else:
                calls = [[esx(p.Variable("x")), [], {}], [esx(p.Variable("x")), [], {}]]
            pl["env"] = dumps(env_to_sx(env))
        else:
            g = ExprGen(rng, lists=False, cse=0.2, floats=0.02)
            calls = gen_history(rng, g, with_args=wa, with_kwargs=wk)
        if kind == "stringify":
            # the memoizing stringifier vs the plain one: repeated and shared subtrees, the same
            # subtree under different enclosing precedences (explicit `prec` argument: it is part of
            # the key), and every third history 4 / 4.0 / True at top level and below
            if i % 3 == 1:
                calls = scalar_history(rng)
            for c in calls:
                if rng.random() < 0.5:
                    c[1] = [rng.choice(STRINGIFY_PRECS)]
        pl["calls"] = calls
        if kind == "dependency":
            pl["flags"] = rng.choice(FLAGSETS)
        if kind == "walk":
            pl["skip"] = rng.choice([[], [], ["Product"], ["Sum", "Call"], ["CommonSubexpression"]])
        if kind == "substitution":
            gs = ExprGen(rng, lists=False, cse=0.0, floats=0.0, extra_nodes=False)
            pl["subst"] = {v: esx(gs.gen("num", 2))
                           for v in rng.sample(["x", "y", "z", "i", "j", "b", "t", "f"], rng.randint(0, 4))}
        return pl

    def run_impl(self, pl):
        return "(oracle-only)"

    def oracle(self, pl):
        calls = load_calls(pl)
        if not coherent([e for e, _a, _k in calls]):
            return None
        if pl["pair"] == "nodecount":
            return self.nodecount(pl, calls)
        cached_cls, cargs, ckw, plain_f, once = make_pair(pl)
        m = counted(cached_cls, once)(*cargs, **ckw)
        skip = tuple(getattr(p, n) for n in pl.get("skip", []))
        cum_c, cum_p = set(), set()
        from collections import Counter
        visits: Counter = Counter()
        for i, (e, a, kw) in enumerate(calls):
            fresh = plain_f()
            if pl["pair"] == "walk":
                m.__dict__["log"] = []
                m.skip = fresh.skip = skip
            got = outc(lambda: m(e, *a, **kw))
            ref = outc(lambda: fresh(e, *a, **kw))
            what = f"call #{i} {esx(e)[:100]} args={a} kwargs={kw}"
            if got[0] != ref[0] or (got[0] == "err" and got[1] != ref[1]):
                return Failure(f"{pl['pair']}-outcome-differs",
                               f"{what}: memoizing instance {got!r}, fresh plain mapper {ref!r}", pl)
            if got[0] == "ok" and not top_eq(e, got[1], ref[1]):
                return Failure(f"{pl['pair']}-differs",
                               f"{what}: memoizing instance {got[1]!r}, fresh plain mapper {ref[1]!r}",
                               pl)
            if pl["pair"] == "combine" and got[0] == "ok" and not typed_eq(got[1], ref[1]):
                return Failure("combine-differs",
                               f"{what}: leaf types differ {got[1]!r} / {ref[1]!r}", pl)
            if pl["pair"] == "walk":
                lc, lp = m.__dict__.get("log", []), fresh.__dict__.get("log", [])
                if not is_subsequence(lc, lp):
                    return Failure("walk-events-not-a-subsequence",
                                   f"{what}: cached walk made events the plain walk does not make", pl)
                cum_c |= {ev[1:] for ev in lc if ev[0] == "v"}
                cum_p |= {ev[1:] for ev in lp if ev[0] == "v"}
                if cum_c != cum_p:
                    return Failure("walk-visited-sets-differ",
                                   f"{what}: visited so far {len(cum_c)} vs plain {len(cum_p)}", pl)
                if got[0] == "ok":
                    visits.update(ev for ev in lc if ev[0] == "v")
                if any(v > 1 for v in visits.values()):
                    return Failure("walk-visits-twice",
                                   f"{what}: a node was visited {max(visits.values())} times", pl)
        rc = recomputed(m)
        if rc:
            return Failure(f"{pl['pair']}-recomputed",
                           f"handler ran more than once for one key on one instance: {rc[:3]!r}", pl)
        return None

    def nodecount(self, pl, calls):
        from pymbolic.mapper.analysis import NodeCountMapper
        m = counted(NodeCountMapper)()
        seen = set()
        for i, (e, _a, _kw) in enumerate(calls):
            got = outc(lambda: m(e))
            if got[0] == "err":
                return None     # foreign object: the counter instance is in an intermediate state
            seen |= {(type(s), s) for s in scan.subterms(e)}
            if m.count != len(seen):
                return Failure("nodecount-differs",
                               f"call #{i}: count {m.count}, distinct (type, node) keys so far {len(seen)}",
                               pl)
        rc = recomputed(m)
        if rc:
            return Failure("nodecount-recomputed", f"{rc[:3]!r}", pl)
        return None

    def shrink(self, pl):
        return shrink_calls(pl)

    def nontrivial_key(self, pl, model, impl):
        return pl["pair"] + dumps([c[0] for c in pl["calls"]]) + str([c[1:] for c in pl["calls"]])

    def stats(self, pl, mo, io, acc):
        acc[pl["pair"]] = acc.get(pl["pair"], 0) + 1
        acc["calls"] = acc.get("calls", 0) + len(pl["calls"])
        if not coherent([sx_to_expr(loads(c[0])) for c in pl["calls"]]):
            acc["skipped_incoherent"] = acc.get("skipped_incoherent", 0) + 1

# }}}


# {{{ stream: scalar types

SCALARS = [4, 4.0, True, 1, 1.0, False, 0, 0.0, 2, 2.0]


def scalar_history(rng):
    calls = []
    nodes = []
    for j in range(rng.randint(3, 8)):
        k = rng.random()
        if k < 0.45:
            e = rng.choice(SCALARS)
        elif k < 0.6 and nodes:
            e = rebuild(rng.choice(nodes))
        else:
            cs = tuple(rng.choice(SCALARS) for _ in range(rng.randint(1, 4)))
            mark = p.Variable(f"v{j}")
            e = rng.choice([
                lambda: p.Sum((mark, *cs)), lambda: p.Product((*cs, mark)),
                lambda: (mark, *cs), lambda: p.Max((mark, *cs)),
                lambda: p.Sum((mark, p.Product((mark, *cs)), *cs))])()
            nodes.append(e)
        calls.append([esx(e), [], {}])
    return calls


class ScalarStream(PairStream):
    """Histories mixing equal-but-differently-typed constants, as the mapped object and reached
    through `rec` (children of a node that carries a unique marker variable, so that no two
    different nodes of the history are `==`)."""
    name = "scalars"
    has_model = False
    KINDS = ["identity-typed", "combine", "evaluation", "walk", "nodecount"]

    def cases(self, rng, tier):
        n = 500 if tier == "quick" else 6000
        for i in range(n):
            calls = scalar_history(rng)
            kind = self.KINDS[i % len(self.KINDS)]
            pl = {"pair": kind, "calls": calls}
            if kind == "evaluation":
                pl["env"] = dumps(env_to_sx({f"v{j}": rng.randint(1, 3) for j in range(8)}))
            if kind == "walk":
                pl["skip"] = []
            yield pl

    def run_impl(self, pl):
        return "(oracle-only)"

    def oracle(self, pl):
        calls = load_calls(pl)
        f = PairStream.oracle(self, pl)
        if f is not None or pl["pair"] == "nodecount":
            return f
        if pl["pair"] in ("evaluation", "identity-typed"):
            # answers compared with their types, element by element
            cached_cls, cargs, ckw, plain_f, _once = make_pair(pl)
            m = cached_cls(*cargs, **ckw)
            for i, (e, _a, _kw) in enumerate(calls):
                got = outc(lambda: m(e))
                ref = outc(lambda: plain_f()(e))
                ok = got[0] == ref[0] and (
                    got[0] == "err" or
                    (typed_eq(got[1], ref[1]) if pl["pair"] == "evaluation"
                     else str(got[1]) == str(ref[1])))
                if not ok:
                    return Failure("scalar-types-shared",
                                   f"call #{i} {esx(e)}: memoizing instance {got!r}, fresh {ref!r}", pl)
        return None

    def shrink(self, pl):
        return shrink_calls(pl)

    def nontrivial_key(self, pl, model, impl):
        return pl["pair"] + dumps([c[0] for c in pl["calls"]])

    def stats(self, pl, mo, io, acc):
        acc[pl["pair"]] = acc.get(pl["pair"], 0) + 1

# }}}


# {{{ stream: the optimizer

def precondition_ok(ka, kk, bits, calls):
    """The optimizer documents no formal preconditions, only that `it requires some attention from
    the user to make sure all transformations applied are valid`.  The evident ones: what is
    dropped is neither used by the class (its handlers and `get_cache_key`) nor passed."""
    da, dk = bits[0], bits[1]
    if da and (ka or any(a for _e, a, _k in calls)):
        return False
    if dk and (kk or any(k for _e, _a, k in calls)):
        return False
    return True


class OptimizerStream(Stream):
    name = "optimizer"
    has_model = False

    def cases(self, rng, tier):
        reps = 6 if tier == "quick" else 60
        g = ExprGen(rng, lists=False, cse=0.15, floats=0.0)
        for ka, kk in itertools.product([False, True], repeat=2):
            for bits in itertools.product([False, True], repeat=5):
                if (bits[0] and ka) or (bits[1] and kk):
                    continue        # the class itself uses what would be dropped
                for r in range(reps):
                    wa = ka and not bits[0] and r % 2 == 0
                    wk = kk and not bits[1] and r % 2 == 0
                    calls = gen_history(rng, g, with_args=wa, with_kwargs=wk, depth=3)
                    yield {"ka": ka, "kk": kk, "opts": list(bits), "calls": calls}
                # 4 / 4.0 / True at top level and below, answers compared WITH their types
                yield {"ka": ka, "kk": kk, "opts": list(bits), "calls": scalar_history(rng),
                       "typed": True}

    def run_impl(self, pl):
        return "(oracle-only)"

    def oracle(self, pl):
        ka, kk, bits = pl["ka"], pl["kk"], tuple(pl["opts"])
        calls = load_calls(pl)
        if not precondition_ok(ka, kk, bits, calls) or not coherent([e for e, _a, _k in calls]):
            return None
        opts = dict(zip(OPT_NAMES, bits))
        cls = optimized(ka, kk, bits)
        if (ka, kk, bits) in PRINT_MISMATCH:
            return Failure("optimizer-printed-code-differs",
                           "print_modified_code_file did not receive the code that was compiled", pl)
        m = counted(cls)()
        _unopt, plain_cls = C.OPT_CLASSES[(ka, kk)]
        on = "+".join(n for n, b in opts.items() if b) or "none"
        extra = any(a or k for _e, a, k in calls)
        for i, (e, a, kw) in enumerate(calls):
            got = outc(lambda: m(e, *a, **kw))
            ref = outc(lambda: plain_cls()(e, *a, **kw))
            same = got == ref or (got[0] == ref[0] == "ok" and top_eq(e, got[1], ref[1]))
            if same and pl.get("typed") and got[0] == "ok":
                same = repr(got[1]) == repr(ref[1])     # dataclass repr shows 4 / 4.0 / True
            if not same:
                detail = (f"[{on}] call #{i} {esx(e)[:100]} args={a} kwargs={kw}: optimized instance "
                          f"{got!r}, plain mapper {ref!r}")
                if opts["inline_cache"] and extra and got[0] == "ok":
                    return Failure("optimizer-inline-cache-ignores-args", detail, pl)
                return Failure(f"optimizer-differs:{on}", detail, pl)
        rc = recomputed(m)
        if rc:
            detail = f"[{on}] handler ran more than once for one key: {rc[:2]!r}"
            if opts["inline_rec"] and not opts["inline_cache"]:
                return Failure("optimizer-inline-rec-disables-cache", detail, pl)
            if opts["inline_cache"] and (ka or kk):
                return Failure("optimizer-inline-cache-key-mismatch", detail, pl)
            return Failure(f"optimizer-recomputes:{on}", detail, pl)
        return None

    def shrink(self, pl):
        return shrink_calls(pl)

    def nontrivial_key(self, pl, model, impl):
        return str(pl["opts"]) + str(pl["ka"]) + str(pl["kk"]) + dumps([c[0] for c in pl["calls"]])

    def stats(self, pl, mo, io, acc):
        acc["option_sets"] = 32
        on = "".join("1" if b else "0" for b in pl["opts"])
        acc.setdefault("by_opts", {})
        acc["by_opts"][on] = acc["by_opts"].get(on, 0) + 1

# }}}


# {{{ stream: temporaries on one long-lived memoizing instance

TEMP_KINDS = ["cse-mixin", "cse-mixin-cached", "identity", "combine", "collector", "dependency",
              "dependency-cse", "evaluation", "evaluation-cse", "substitution", "stringify",
              "constant-fold-cse", "commutative-constant-fold-cse", "differentiation-cse"]
TEMP_WITH_ARGS = {"cse-mixin", "cse-mixin-cached", "identity", "combine", "collector"}
TEMP_ENV = {"x": Fraction(3, 2), "y": Fraction(-2, 7), "z": Fraction(5, 3)}


def canon(v):
    """address-free canonical text of an answer (trees, sets of trees, numbers with their type)"""
    from .. import temporaries as T
    if isinstance(v, (set, frozenset)):
        return "(set " + " ".join(sorted(canon(c) for c in v)) + ")"
    if isinstance(v, Fraction):
        return f"(frac {v.numerator} {v.denominator})"
    if isinstance(v, (float, complex)):
        return f'(repr {type(v).__name__} "{v!r}")'
    t = T.tree(v)
    if t.startswith("(unencodable"):
        return f'(repr {type(v).__name__} "{v!r}")'
    return t


def temp_makers(pl):
    """(the long-lived memoizing instance's factory, the factory of its counterpart applied afresh)"""
    kind = pl["kind"]
    if kind in ("cse-mixin", "cse-mixin-cached", "identity", "combine", "collector",
                "substitution", "stringify"):
        cls, cargs, ckw, plain_f, _once = make_pair({**pl, "pair": kind})
        return (lambda: cls(*cargs, **ckw)), plain_f
    if kind in ("dependency", "dependency-cse"):
        from pymbolic.mapper.dependency import CachedDependencyMapper, DependencyMapper
        kw = dep_kwargs(pl["flags"])
        long_cls = CachedDependencyMapper if kind == "dependency" else DependencyMapper
        return (lambda: long_cls(**kw)), (lambda: DependencyMapper(**kw))
    if kind in ("evaluation", "evaluation-cse"):
        from pymbolic.mapper.evaluator import CachedEvaluationMapper, EvaluationMapper
        long_cls = CachedEvaluationMapper if kind == "evaluation" else EvaluationMapper
        return (lambda: long_cls(dict(TEMP_ENV))), (lambda: EvaluationMapper(dict(TEMP_ENV)))
    if kind in ("constant-fold-cse", "commutative-constant-fold-cse"):
        import pymbolic.mapper.constant_folder as cf
        cls = cf.ConstantFoldingMapper if kind == "constant-fold-cse" \
            else cf.CommutativeConstantFoldingMapper
        return cls, cls
    if kind == "differentiation-cse":
        from pymbolic.mapper.differentiator import DifferentiationMapper
        return (lambda: DifferentiationMapper(p.Variable("x"))), \
            (lambda: DifferentiationMapper(p.Variable("x")))
    raise ValueError(kind)


class TemporariesStream(Stream):
    """ONE long-lived memoizing instance (the CSE-caching mix-in users: a user mapper with extra
    arguments, DependencyMapper, EvaluationMapper, the constant folders, DifferentiationMapper;
    CachedMapper subclasses: identity, combine, collector, dependency, evaluation, substitution,
    stringify) fed a family of 20..60 TEMPORARIES: structurally identical expressions with
    CommonSubexpression nodes and different contents, each built inside the call that passes it
    and dead when the call returns (`harness/temporaries.py`; `gc.collect()` between some steps).
    Every answer is compared at once with what the non-memoizing counterpart, applied afresh to a
    rebuilt copy, returns.  Targets cache entries that outlive their keys: keys by `id(expr)` /
    address, weak or stale entries (a new node allocated where a dead one was gets its answer)."""
    name = "temporaries"
    has_model = False

    def cases(self, rng, tier):
        from .. import temporaries as T
        reps = 1 if tier == "quick" else 10
        for r in range(reps):
            for i, kind in enumerate(TEMP_KINDS):
                yield self.one(rng, kind, i + r, T)

    def one(self, rng, kind, i, T):
        ops = ["sum", "sum", "prod", "prod", "quot", "pow", "cse", "cse"]
        var_holes, carrier_kinds = True, None
        if kind in ("evaluation", "evaluation-cse", "differentiation-cse"):
            var_holes = False                   # every name is bound / the variable is x
        else:
            ops += ["call", "subscript"]
        if kind in ("dependency", "dependency-cse", "collector"):
            carrier_kinds = [4]                 # the answers are sets of names
        g = T.TemplateGen(rng, ops, fixed_vars=["x", "x", "y", "z"], carrier_var="x",
                          var_holes=var_holes, carrier_kinds=carrier_kinds)
        n = rng.randint(20, 60)
        exprs = T.family(rng, g, rng.randint(2, 3), n, names=["x", "y", "z", "u", "v", "w"],
                         repeat=0.05 if i % 2 else 0.0)
        k = rng.random()
        gc_at = [] if k < 0.3 else list(range(n)) if k < 0.5 else \
            sorted(rng.sample(range(n), max(1, n // 4)))
        pl = {"kind": kind, "exprs": exprs, "gc": gc_at, "hold": bool(i % 2),
              "share": bool(i % 5 == 3)}
        if kind in TEMP_WITH_ARGS and i % 2:
            pl["args"] = [list(rng.choice(ARG_POOL)) for _ in range(n)]
        else:
            pl["args"] = [[] for _ in range(n)]
        if kind in ("dependency", "dependency-cse"):
            pl["flags"] = {**rng.choice(FLAGSETS), "cses": False}
        if kind == "substitution":
            pl["subst"] = {"x": esx(p.Sum((p.Variable("y"), 1))), "u": esx(p.Variable("x"))}
        return pl

    def run_impl(self, pl):
        return "(oracle-only)"

    def oracle(self, pl):
        from .. import temporaries as T
        kind, share, hold = pl["kind"], pl.get("share", False), pl.get("hold", False)
        make_long, make_fresh = temp_makers(pl)
        args = [tuple(a) for a in pl["args"]]
        acc = self.last = {"members": 0, "answers": 0, "errors": 0}

        def judge(i, sx_text, out):
            acc["members"] += 1
            got = (out[0], canon(out[1])) if hold and out[0] == "ok" else out
            ref = T.feed(make_fresh(), sx_text, *args[i], share=share, post=canon)
            acc["answers" if ref[0] == "ok" else "errors"] += 1
            if got == ref:
                return None
            what = (f"member #{i} of {len(pl['exprs'])} on one {kind} instance (the earlier "
                    f"members were dropped before it was built) {sx_text[:160]} args={args[i]}")
            if got[0] != ref[0] or got[0] == "err":
                return Failure(f"temporary-{kind}-outcome-differs",
                               f"{what}: long-lived instance {got!r}, counterpart applied afresh "
                               f"{ref!r}", pl)
            site, part, part_ref = T.first_difference(got[1], ref[1])
            return Failure(f"temporary-{kind}-differs",
                           f"{what}: the answers differ {site}: long-lived instance … {part[:300]} "
                           f"…, counterpart applied afresh … {part_ref[:300]} …", pl)

        import warnings
        with warnings.catch_warnings():
            warnings.simplefilter("ignore")
            return T.run_family(make_long(), pl["exprs"], judge, collect_at=pl["gc"], hold=hold,
                                share=share, post=None if hold else canon,
                                args_of=lambda i: (args[i], {}))

    def shrink(self, pl):
        # the family stays whole (which member lands on a recycled address is up to the
        # allocator; a cut-down family would not fail again in a new process); simplify the knobs
        if pl.get("share"):
            yield {**pl, "share": False}
        if pl["gc"]:
            yield {**pl, "gc": []}
        if any(pl["args"]):
            yield {**pl, "args": [[] for _ in pl["args"]]}

    def nontrivial_key(self, pl, model, impl):
        return pl["kind"] + dumps(pl["exprs"][:2])

    def stats(self, pl, mo, io, acc):
        acc[pl["kind"]] = acc.get(pl["kind"], 0) + 1
        for k, n in getattr(self, "last", {}).items():
            acc[k] = acc.get(k, 0) + int(n)

# }}}


# {{{ probes for the known findings

def probe():
    from pymbolic.mapper import CachedIdentityMapper, IdentityMapper, optimize
    res = []
    x, y = p.Variable("x"), p.Variable("y")
    e = p.Sum((x, p.Product((x, y))))

    # 1. inline_cache ignores extra arguments
    m = optimized(True, True, (False, False, True, True, False))()
    r1, r2 = m(e, "_a"), m(e, "_b")
    ref = C.Plain11()(e, "_b")
    res.append(("optimizer-inline-cache-ignores-args", r2 != ref,
                f"m(e, '_a') = {r1}; m(e, '_b') = {r2}; plain mapper gives {ref}"))

    # 2. inline_cache with a key of another shape than (type, expr): top-level and inlined keys
    #    never meet, a key is computed twice
    m = counted(optimized(True, True, (False, False, True, True, False)))()
    m(x)
    m(p.Sum((x, 1)))
    res.append(("optimizer-inline-cache-key-mismatch", bool(recomputed(m)),
                f"m(x); m(x + 1): {recomputed(m)!r}; cache keys {[tuple(k) for k in m._cache][:4]!r}"))

    # 3. inline_rec without inline_cache: subexpressions bypass the cache
    m = counted(optimized(False, False, (False, False, True, False, False)))()
    m(e)
    res.append(("optimizer-inline-rec-disables-cache", bool(recomputed(m)),
                f"m(x + x*y): {recomputed(m)!r}; cached keys: {len(m._cache)}"))

    # 4. the optimizer mutates its cached source ASTs: a later application in the same process
    #    starts from methods already rewritten for other options
    getattr(optimize._get_ast_for_file, "cache_clear", lambda: None)()
    try:
        optimize.optimize_mapper(drop_args=True, drop_kwargs=True)(C.Opt00)
        second = optimize.optimize_mapper()(C.Opt11)
        got = outc(lambda: second()(e, "_a"))
    finally:
        getattr(optimize._get_ast_for_file, "cache_clear", lambda: None)()
    ref = ("ok", C.Plain11()(e, "_a"))
    res.append(("optimizer-shared-ast-mutated", got != ref,
                f"optimize_mapper()(Opt11) applied after optimize_mapper(drop_args=True, "
                f"drop_kwargs=True)(Opt00): {got!r}; applied first: {ref!r}"))

    # 5. unhashable keys (shared with C02)
    got = outc(lambda: CachedIdentityMapper()(p.Sum((x, [1]))))
    ref = outc(lambda: IdentityMapper()(p.Sum((x, [1]))))
    res.append(("unhashable-list", got[0] != ref[0], f"cached {got!r}, plain {ref!r}"))

    # 6. (fixed) CachedStringifyMapper.__call__ handed over to CachedMapper.__call__ without the
    #    instance (T-gen: row of c05CallOverrides, theorems cache_wraps_handlers_current,
    #    cached_stringify_call_current; the old row: cached_stringify_old_override_cex)
    from pymbolic.mapper.stringifier import CachedStringifyMapper, StringifyMapper
    got = outc(lambda: CachedStringifyMapper()(e))
    ref = outc(lambda: StringifyMapper()(e))
    res.append(("cached-stringify-call-unbound", got != ref,
                f"CachedStringifyMapper()(x + x*y): {got!r}; StringifyMapper: {ref!r}"))

    # 7. the deprecated CachingMapperMixin keys its cache by `expr` alone (T-gen:
    #    c05DeprecatedMixinKey, theorem deprecated_mixin_key_cex)
    import warnings

    import pymbolic.mapper as pm
    if hasattr(pm, "CachingMapperMixin"):
        class _Typed:
            def map_constant(self, expr):
                return p.Variable(f"c_{type(expr).__name__}")

        with warnings.catch_warnings():
            warnings.simplefilter("ignore")
            m = type("DM", (pm.CachingMapperMixin, _Typed, IdentityMapper), {})()
            pl = type("DP", (_Typed, IdentityMapper), {})
            m(4)
            got, ref = outc(lambda: m(4.0)), outc(lambda: pl()(4.0))
        res.append(("deprecated-mixin-key-ignores-type", got != ref,
                    f"m(4); m(4.0) on a CachingMapperMixin mapper: {got!r}; plain mapper: {ref!r}"))
    return res

# }}}


# {{{ streams: adversarial extra arguments (keys that confuse different argument combinations)

ADV_NAMES = ["k", "l", "scale", "a", "b"]
# classes of ==-equal numbers: for Python (1,) == (1.0,) == (True,), so these are EQUAL extra
# arguments and the stock key shares them; a history holds one representative of each class
ADV_NUM = [(1, 1.0, True), (0, 0.0, False), (2, 2.0), (7,), (-1, -1.0)]


# how often a category of `arg_family` has its turn in the histories
ADV_WEIGHT = {"pair": 3, "splice": 2, "order": 2, "nest": 2, "perm": 2, "types": 2}


def enc_arg(v):
    """argument value -> JSON (tuples become lists, all the way down)"""
    return [enc_arg(x) for x in v] if isinstance(v, (tuple, list)) else v


def dec_arg(v):
    """JSON -> argument value: every list is a tuple (no unhashable arguments are generated)"""
    return tuple(dec_arg(x) for x in v) if isinstance(v, (tuple, list)) else v


def load_adv(calls):
    return [(sx_to_expr(loads(sx)), dec_arg(a), {k: dec_arg(v) for k, v in kw.items()})
            for sx, a, kw in calls]


def arg_tag(args, kwargs):
    """an unambiguous spelling of one combination of extra arguments (types included)"""
    return repr((args, tuple(sorted(kwargs.items()))))


def adv_values(rng, mixed=False):
    """The argument values of one history / key pair: numbers (one representative per ==-class
    unless `mixed`), their str / repr spellings, strings that are also keyword names, None, the
    empty string, the empty tuple, pairs that look like keyword items, a nested pair."""
    nums = [rng.choice(c) for c in ADV_NUM]
    if mixed:
        nums += [rng.choice(c) for c in ADV_NUM[:3]]
    name = rng.choice(ADV_NAMES)
    return nums + nums[:3] + [str(nums[0]), repr(nums[2]), str(nums[3]), name, "", None, (),
                             (name, nums[3]), (nums[0], nums[2]), (nums[0],)]


def arg_family(rng, vals, pos_ok=True, kw_ok=True, cats=None):
    """Combinations of extra arguments built to collide under sloppy keys: all are variants of ONE
    call `m(e, *pos, **dict(items))`, which comes first.  Each is [args, kwargs] (JSON form); `cats`
    (if given) receives the category of every member."""
    pos = [rng.choice(vals) for _ in range(rng.choice([0, 1, 1, 2, 2, 3]))] if pos_ok else []
    names = rng.sample(ADV_NAMES, rng.choice([0, 1, 1, 2, 2, 3])) if kw_ok else []
    if not pos_ok and not names:
        names = [rng.choice(ADV_NAMES)]
    items = [(n, rng.choice(vals)) for n in names]
    spare = next(n for n in ADV_NAMES if n not in names)
    fam, seen = [], []
    cats = [] if cats is None else cats

    def add(cat, a, kw):
        if (a and not pos_ok) or (kw and not kw_ok):
            return
        c = [enc_arg(list(a)), [[k, enc_arg(v)] for k, v in kw]]
        if c not in seen:       # keyword ORDER distinguishes members (they are the same call)
            seen.append(c)
            fam.append([c[0], dict(map(tuple, c[1]))])
            cats.append(cat)

    def shuffled(xs):
        xs = list(xs)
        rng.shuffle(xs)
        return xs

    add("call", pos, items)
    # keyword items vs positional (name, value) pairs
    add("pair", pos + items, [])
    for j in range(len(items)):
        add("pair", pos + [items[j]], items[:j] + items[j + 1:])
        add("pair", [items[j]] + pos, items[:j] + items[j + 1:])
    add("pair", pos + sorted(items, key=lambda it: it[0]), [])
    add("splice", pos + [x for it in items for x in it], [])     # names and values spliced in
    add("splice", pos + [v for _n, v in items], [])              # keyword values as positionals
    add("splice", pos + [tuple(items)], [])                      # all items as ONE argument
    add("splice", [tuple(pos), tuple(items)], [])                # the key's own (args, items) nesting
    if pos:
        add("splice", pos[:-1], items + [(spare, pos[-1])])      # last positional passed by keyword
    # the same keywords in another order: EQUAL calls (must share one entry)
    add("order", pos, list(reversed(items)))
    add("order", pos, shuffled(items))
    # nested vs flat positionals
    add("nest", [tuple(pos)], items)
    if len(pos) >= 2:
        add("nest", pos[:1] + [tuple(pos[1:])], items)
        add("nest", [tuple(pos[:-1]), pos[-1]], items)
    if pos:
        add("nest", pos[:-1] + [(pos[-1],)], items)
    # permuted positionals
    add("perm", list(reversed(pos)), items)
    add("perm", shuffled(pos), items)
    # values spelled as other types ("1" / 1, "None" / None, "()" / ())
    add("types", [str(v) for v in pos], items)
    add("types", [repr(v) for v in pos], items)
    add("types", pos, [(n, str(v)) for n, v in items])
    # empty vs missing
    for empty in ((), None, ""):
        add("empty", pos + [empty], items)
        add("empty", [empty] + pos, items)
        add("empty", pos, items + [(spare, empty)])
    add("drop", pos[:-1], items)
    add("drop", pos, items[:-1])
    add("drop", [], [])
    # keyword names / values exchanged
    if len(items) >= 2:
        add("exchange", pos,
            [(items[j][0], items[(j + 1) % len(items)][1]) for j in range(len(items))])
    if items:
        add("exchange", pos, [(spare, items[0][1])] + items[1:])
        add("other", pos, [(items[0][0], rng.choice(vals))] + items[1:])
    if pos:
        add("other", pos[:-1] + [rng.choice(vals)], items)
    return fam


def deep_flat(v):
    if isinstance(v, tuple):
        return [x for c in v for x in deep_flat(c)]
    return [v]


def typed(v):
    """value with its types (1, 1.0 and True differ)"""
    return repr(v)


def confusion(a1, kw1, a2, kw2):
    """classify two DIFFERENT combinations of extra arguments by the kind of sloppy key under which
    they would collide"""
    def items(kw):
        return tuple(sorted(kw.items(), key=lambda it: it[0]))

    def nonempty(a):
        return [x for x in a if x not in ((), None, "")]

    if a1 == a2 and kw1 == kw2:
        if list(kw1) != list(kw2):
            return "same-arguments-keyword-order"
        return "same-arguments"
    if a1 + items(kw1) == a2 + items(kw2):
        return "positional-pair-vs-keyword"
    if kw1 == kw2:
        if nonempty(a1) == nonempty(a2):
            return "empty-vs-missing"
        if deep_flat(a1) == deep_flat(a2):
            return "nested-vs-flat"
        if sorted(map(typed, a1)) == sorted(map(typed, a2)):
            return "permuted-positionals"
        if [str(x) for x in a1] == [str(x) for x in a2] or \
                [str(x) for x in deep_flat(a1)] == [str(x) for x in deep_flat(a2)]:
            return "value-types"
    if a1 == a2:
        if {k: v for k, v in kw1.items() if v not in ((), None, "")} == \
                {k: v for k, v in kw2.items() if v not in ((), None, "")}:
            return "empty-vs-missing"
        if sorted(kw1) == sorted(kw2):
            if sorted(map(typed, kw1.values())) == sorted(map(typed, kw2.values())):
                return "keyword-values-exchanged"
            if {k: str(v) for k, v in kw1.items()} == {k: str(v) for k, v in kw2.items()}:
                return "value-types"
            return "keyword-values"
        if sorted(map(typed, kw1.values())) == sorted(map(typed, kw2.values())):
            return "keyword-names"
    if deep_flat(a1 + items(kw1)) == deep_flat(a2 + items(kw2)):
        return "flattened-keywords"
    if sorted(map(typed, deep_flat(a1) + [v for _k, v in items(kw1)])) == \
            sorted(map(typed, deep_flat(a2) + [v for _k, v in items(kw2)])):
        return "positional-vs-keyword-values"
    if kw1 == kw2:
        return "positional-values"
    if a1 == a2:
        return "keywords"
    return "unrelated"


# the relations `confusion` distinguishes, the most specific first
CONFUSIONS = ["same-arguments-keyword-order", "same-arguments", "positional-pair-vs-keyword",
              "empty-vs-missing", "nested-vs-flat", "permuted-positionals", "value-types",
              "keyword-values-exchanged", "keyword-names", "flattened-keywords",
              "positional-vs-keyword-values", "keyword-values", "positional-values", "keywords",
              "unrelated"]


def args_coherent(calls):
    """no two combinations of the history are == but typed differently ((1,) / (True,)): those are
    equal extra arguments for Python and for the stock key"""
    seen = []
    for _e, a, kw in calls:
        for b, kv in seen:
            if a == b and kw == kv and arg_tag(a, kw) != arg_tag(b, kv):
                return False
        seen.append((a, kw))
    return True


class ReprLeaves:
    """leaf handlers whose answers spell out the extra arguments (types and nesting included)"""

    def map_variable(self, expr, *args, **kwargs):
        return p.Variable(f"{expr.name}|{arg_tag(args, kwargs)}")


class ReprCollect:
    def map_variable(self, expr, *args, **kwargs):
        return {p.Variable(f"{expr.name}|{arg_tag(args, kwargs)}")}


_ADV_CLASSES: dict = {}


def adv_classes():
    """kind -> (memoizing class, non-memoizing counterpart, methods counted for at-most-once)"""
    if not _ADV_CLASSES:
        import pymbolic.mapper as M

        def uncached(self, expr, *args):
            return M.IdentityMapper.map_common_subexpression(self, expr, *args)

        d = _ADV_CLASSES
        plain_id = type("API", (ReprLeaves, M.IdentityMapper), {})
        d["identity"] = (type("ACI", (ReprLeaves, M.CachedIdentityMapper), {}), plain_id, None)
        d["combine"] = (*pair_classes()["combine"], None)
        d["collector"] = (type("ACCo", (ReprCollect, M.CachedCollector), {}),
                          type("APCo", (ReprCollect, M.Collector), {}), None)
        d["walk"] = (*pair_classes()["walk"], None)
        d["cse-mixin"] = (type("ACse", (M.CSECachingMapperMixin, ReprLeaves, M.IdentityMapper),
                               {"map_common_subexpression_uncached": uncached}), plain_id,
                          {"map_common_subexpression_uncached"})
        d["cse-mixin-cached"] = (
            type("ACseC", (M.CSECachingMapperMixin, ReprLeaves, M.CachedIdentityMapper),
                 {"map_common_subexpression_uncached": uncached}), plain_id, None)
    return _ADV_CLASSES


def adv_history(rng, g, pos_ok=True, kw_ok=True, i=0, wrap_cse=False):
    """4-9 calls on few expressions (shared subtrees, equal-but-not-identical copies) whose extra
    arguments alternate between a few members of one `arg_family`"""
    cats: list = []
    fam = arg_family(rng, adv_values(rng), pos_ok, kw_ok, cats)
    kinds = sorted(c for c in set(cats[1:]) for _ in range(ADV_WEIGHT.get(c, 1)))
    sub = [fam[0]]
    if kinds:       # the call and one variant of the category whose turn it is, plus 0-2 others
        cat = kinds[i % len(kinds)]
        sub.append(rng.choice([f for f, c in zip(fam, cats) if c == cat]))
    sub += rng.sample(fam, rng.choice([0, 0, 1, 2]))
    if rng.random() < 0.2 and len(sub) > 2:
        sub = sub[1:]
    for _ in range(6):      # the handlers spell the arguments out at the variables
        e0 = g.gen(rng.choice(["num", "int", "any"]), rng.randint(1, 3))
        if any(isinstance(s, p.Variable) for s in scan.subterms(e0)):
            break
    else:
        e0 = p.Sum((p.Variable("x"), p.Product((p.Variable("x"), p.Variable("y")))))
    if wrap_cse and rng.random() < 0.7 and not isinstance(e0, p.CommonSubexpression):
        e0 = p.CommonSubexpression(e0)
    others = [g.gen("num", rng.randint(0, 2))]
    calls = []
    for _ in range(rng.randint(4, 9)):
        k = rng.random()
        if k < 0.5:
            e = e0
        elif k < 0.65:
            e = rebuild(e0)
        elif k < 0.8:
            e = p.Sum((e0, rng.choice(others), rebuild(e0)))
        elif k < 0.9:
            e = rng.choice(scan.subterms(e0))
        else:
            e = rng.choice(others)
        a, kw = rng.choice(sub)
        calls.append([esx(e), a, dict(kw)])
    return calls


def shrink_adv(pl):
    yield from shrink_calls(pl)
    cs = pl["calls"]
    # one keyword / one positional slot less in EVERY call (collisions need both sides)
    for k in sorted({k for _sx, _a, kw in cs for k in kw}):
        yield {**pl, "calls": [[sx, a, {n: v for n, v in kw.items() if n != k}]
                               for sx, a, kw in cs]}
    for j in range(max(len(a) for _sx, a, _kw in cs)):
        yield {**pl, "calls": [[sx, list(a[:j]) + list(a[j + 1:]), kw] for sx, a, kw in cs]}
    for i, (sx, a, kw) in enumerate(cs):
        for j in range(len(a)):
            yield {**pl, "calls": cs[:i] + [[sx, list(a[:j]) + list(a[j + 1:]), kw]] + cs[i + 1:]}
        for k in kw:
            yield {**pl, "calls": cs[:i] + [[sx, a, {n: v for n, v in kw.items() if n != k}]]
                   + cs[i + 1:]}


class ArgKeysStream(Stream):
    """Histories on ONE memoizing instance whose calls differ (or do not differ) only in the shape
    of the extra arguments.  Every answer must be the answer of a fresh non-memoizing counterpart
    called with the same arguments; each distinct (expression, arguments) key is computed at most
    once (equal keyword arguments passed in another order are the same key)."""
    name = "argkeys"
    has_model = False
    KINDS = ["identity", "combine", "collector", "walk", "cse-mixin", "cse-mixin-cached"]
    KW_OK = {"cse-mixin": False, "cse-mixin-cached": False}

    def cases(self, rng, tier):
        n = 200 if tier == "quick" else 1500
        g = ExprGen(rng, lists=False, cse=0.15, floats=0.0)
        for i in range(n):
            for kind in self.KINDS:
                calls = adv_history(rng, g, kw_ok=self.KW_OK.get(kind, True), i=i,
                                    wrap_cse=kind.startswith("cse"))
                yield {"pair": kind, "calls": calls}
        reps = 8 if tier == "quick" else 40
        i = 0
        for ka, kk in [(True, False), (False, True), (True, True)]:
            for bits in itertools.product([False, True], repeat=5):
                if (bits[0] and ka) or (bits[1] and kk):
                    continue        # the class itself uses what would be dropped
                # inline_cache with extra arguments is the known finding: fewer histories there
                for _r in range(max(1, reps // 3) if bits[3] else reps):
                    i += 1
                    calls = adv_history(rng, g, pos_ok=ka, kw_ok=kk, i=i)
                    yield {"pair": "optimized", "ka": ka, "kk": kk, "opts": list(bits),
                           "calls": calls}

    def run_impl(self, pl):
        return "(oracle-only)"

    @staticmethod
    def blame(calls, i, matches):
        """(relation, j): the earlier call #j whose extra arguments the answer of call #i belongs
        to (`matches(args, kwargs)`), classified by `confusion`; related combinations first"""
        _e, a, kw = calls[i]
        cands = [j for j in range(i - 1, -1, -1)
                 if (calls[j][1], calls[j][2]) != (a, kw) and matches(calls[j][1], calls[j][2])]
        rels = [(confusion(calls[j][1], calls[j][2], a, kw), j) for j in cands]
        rels.sort(key=lambda r: CONFUSIONS.index(r[0]))     # stable: the latest call first
        return rels[0] if rels else ("unclassified", None)

    @staticmethod
    def pieces(ans):
        """the atomic pieces of an answer (variable names carry the arguments they were made with)"""
        if isinstance(ans, tuple) and len(ans) == 4 and isinstance(ans[0], str):
            return {repr(ans)}      # a leaf record of `ListCombine`
        if isinstance(ans, (set, frozenset, list, tuple)):
            return {x for c in ans for x in ArgKeysStream.pieces(c)}
        if isinstance(ans, p.Expression):
            return {repr(t) for t in scan.subterms(ans)
                    if isinstance(t, (p.Variable, *CONSTS))}
        return {repr(ans)}

    def blame_answer(self, calls, i, got, ref, same, plain_f):
        """whole answer of an earlier combination, else the earlier combination that accounts for
        the pieces of the answer the reference does not have (a hit below the top)"""
        e = calls[i][0]

        def whole(b, kv):
            r = outc(lambda: plain_f()(e, *b, **kv))
            return r[0] == "ok" and same(got, r[1])
        rel, j = self.blame(calls, i, whole)
        if j is None:
            odd = self.pieces(got) - self.pieces(ref)

            def part(b, kv):
                r = outc(lambda: plain_f()(e, *b, **kv))
                return r[0] == "ok" and bool(odd) and odd <= self.pieces(r[1])
            rel, j = self.blame(calls, i, part)
        return rel, j

    @staticmethod
    def recomputed_blame(calls):
        for i, (_e, a, kw) in enumerate(calls):
            for _ej, b, kv in calls[:i]:
                if (a, kw) == (b, kv) and list(kw) != list(kv):
                    return "keyword-order"
        return "same-arguments"

    def oracle(self, pl):
        calls = load_adv(pl["calls"])
        if not coherent([e for e, _a, _k in calls]) or not args_coherent(calls):
            return None
        if pl["pair"] == "optimized":
            return self.oracle_optimized(pl, calls)
        kind = pl["pair"]
        cached_cls, plain_cls, once = adv_classes()[kind]
        m = counted(cached_cls, once)()
        cum_c, cum_p = set(), set()
        from collections import Counter
        visits: Counter = Counter()
        for i, (e, a, kw) in enumerate(calls):
            fresh = plain_cls()
            if kind == "walk":
                m.__dict__["log"] = []
                m.skip = fresh.skip = ()
            got = outc(lambda: m(e, *a, **kw))
            ref = outc(lambda: fresh(e, *a, **kw))
            what = f"[{kind}] call #{i} {esx(e)[:100]} args={a!r} kwargs={kw!r}"
            if got[0] != ref[0] or (got[0] == "err" and got[1] != ref[1]):
                return Failure("extra-args-outcome-differs",
                               f"{what}: memoizing instance {got!r}, fresh plain mapper {ref!r}", pl)
            if got[0] != "ok":
                # both raised the same: a mapper that raised in mid-traversal is left in an
                # intermediate state (part of the aborted call is memoized); like a counter that
                # raised it is discarded, the history ends here
                break
            same = top_eq(e, got[1], ref[1]) and (kind != "combine" or typed_eq(got[1], ref[1]))
            if not same:
                rel, j = self.blame_answer(
                    calls, i, got[1], ref[1],
                    lambda x, y: top_eq(e, x, y) and (kind != "combine" or typed_eq(x, y)),
                    plain_cls)
                return Failure(f"extra-args-shared:{rel}",
                               f"{what}: memoizing instance {got[1]!r}, fresh plain mapper "
                               f"{ref[1]!r}" + ("" if j is None else
                                                f" (the answer for the extra arguments of call #{j}: "
                                                f"args={calls[j][1]!r} kwargs={calls[j][2]!r})"), pl)
            if kind == "walk":
                lc, lp = m.__dict__.get("log", []), fresh.__dict__.get("log", [])
                cum_c |= {ev[1:] for ev in lc if ev[0] == "v"}
                cum_p |= {ev[1:] for ev in lp if ev[0] == "v"}
                if not is_subsequence(lc, lp) or cum_c != cum_p:
                    # nodes the plain walk visits with these arguments and the memoizing one does
                    # not: visited earlier under which other combination?
                    missed = {ev[1] for ev in cum_p - cum_c}
                    rel, j = self.blame(calls, i, lambda b, kv: any(
                        ev[1] in missed and (ev[2], dict(ev[3])) == (b, kv) for ev in cum_c))
                    return Failure(f"extra-args-shared:{rel}",
                                   f"{what}: the memoizing walk visited {len(cum_c)} (node, "
                                   f"arguments) combinations so far, plain walks {len(cum_p)}", pl)
                visits.update(ev for ev in lc if ev[0] == "v")
                if any(v > 1 for v in visits.values()):
                    return Failure(f"extra-args-recomputed:{self.recomputed_blame(calls)}",
                                   f"{what}: a node was visited {max(visits.values())} times with "
                                   f"equal extra arguments", pl)
        rc = recomputed(m)
        if rc:
            return Failure(f"extra-args-recomputed:{self.recomputed_blame(calls)}",
                           f"[{kind}] handler ran more than once for one (expression, arguments) "
                           f"key on one instance: {rc[:3]!r}", pl)
        return None

    def oracle_optimized(self, pl, calls):
        ka, kk, bits = pl["ka"], pl["kk"], tuple(pl["opts"])
        if not precondition_ok(ka, kk, bits, calls) or \
                any((a and not ka) or (kw and not kk) for _e, a, kw in calls):
            return None
        opts = dict(zip(OPT_NAMES, bits))
        m = counted(optimized(ka, kk, bits))()
        _unopt, plain_cls = C.OPT_CLASSES[(ka, kk)]
        on = "+".join(n for n, b in opts.items() if b) or "none"
        extra = any(a or k for _e, a, k in calls)
        for i, (e, a, kw) in enumerate(calls):
            got = outc(lambda: m(e, *a, **kw))
            ref = outc(lambda: plain_cls()(e, *a, **kw))
            if got == ref or (got[0] == ref[0] == "ok" and top_eq(e, got[1], ref[1])):
                continue
            detail = (f"[{on}] class Opt{int(ka)}{int(kk)} call #{i} {esx(e)[:100]} args={a!r} "
                      f"kwargs={kw!r}: optimized instance {got!r}, plain mapper {ref!r}")
            if opts["inline_cache"] and extra and got[0] == "ok":
                return Failure("optimizer-inline-cache-ignores-args", detail, pl)
            if got[0] != "ok" or ref[0] != "ok":
                return Failure(f"optimizer-extra-args-outcome-differs:{on}", detail, pl)
            rel, j = self.blame_answer(calls, i, got[1], ref[1],
                                       lambda x, y: top_eq(e, x, y), plain_cls)
            return Failure(f"optimizer-extra-args-shared:{rel}",
                           detail + ("" if j is None else f" (the answer for the extra arguments "
                                     f"of call #{j}: args={calls[j][1]!r} kwargs={calls[j][2]!r})"),
                           pl)
        rc = recomputed(m)
        if rc:
            detail = f"[{on}] handler ran more than once for one key: {rc[:2]!r}"
            if opts["inline_rec"] and not opts["inline_cache"]:
                return Failure("optimizer-inline-rec-disables-cache", detail, pl)
            if opts["inline_cache"] and (ka or kk):
                return Failure("optimizer-inline-cache-key-mismatch", detail, pl)
            return Failure(f"optimizer-extra-args-recomputed:{self.recomputed_blame(calls)}",
                           detail, pl)
        return None

    def shrink(self, pl):
        return shrink_adv(pl)

    def nontrivial_key(self, pl, model, impl):
        return json_key(pl)

    def stats(self, pl, mo, io, acc):
        acc[pl["pair"]] = acc.get(pl["pair"], 0) + 1
        acc["calls"] = acc.get("calls", 0) + len(pl["calls"])
        calls = load_adv(pl["calls"])
        combos = []
        for _e, a, kw in calls:
            if not any((a, kw) == c and list(kw) == list(c[1]) for c in combos):
                combos.append((a, kw))
        for x in range(len(combos)):
            for y in range(x):
                rel = confusion(*combos[y], *combos[x])
                acc.setdefault("confusable_pairs", {})
                acc["confusable_pairs"][rel] = acc["confusable_pairs"].get(rel, 0) + 1
        if not coherent([e for e, _a, _k in calls]) or not args_coherent(calls):
            acc["skipped_incoherent"] = acc.get("skipped_incoherent", 0) + 1


def norm_adv(pl):
    """payload whose argument values are decoded (nested tuples), in the layout `load_calls` reads"""
    return {**pl, "calls": [[sx, dec_arg(a), {k: dec_arg(v) for k, v in kw.items()}]
                            for sx, a, kw in pl["calls"]]}


# every ordered pair of these (on one expression) goes through `keyeq-args`
ADV_FIXED = [
    ([], {}), ([[]], {}), ([None], {}), ([""], {}), ([], {"k": None}),
    ([["scale", 2]], {}), ([], {"scale": 2}), (["scale", 2], {}), ([[["scale", 2]]], {}),
    ([1, ["k", 7]], {}), ([1], {"k": 7}), ([1, "k", 7], {}), ([], {"k": 7}),
    ([[1, 2]], {}), ([1, 2], {}), ([2, 1], {}), ([1, [2]], {}), ([[1], 2], {}),
    ([1], {}), ([1.0], {}), ([True], {}), (["1"], {}), ([[1]], {}),
    ([], {"a": 1, "b": 2}), ([], {"b": 2, "a": 1}), ([["a", 1], ["b", 2]], {}),
    ([["a", 1]], {"b": 2}), ([], {"a": 2, "b": 1}), ([[["a", 1], ["b", 2]]], {}),
    ([], {"k": 1}), ([], {"k": True}), ([], {"k": "1"}), ([], {"l": 1}), ([], {"k": [1]}),
]


class KeyEqArgsStream(KeyEqStream):
    """`KeyV.eq` / `KeyV.cseEq` (PV/Model/MemoArgs.lean: argument values are constants and nested
    tuples) vs the real key tuples, on pairs of calls that differ in the SHAPE of the extra
    arguments; oracle: two calls get one key iff type, expression, positional tuple and keyword
    mapping are equal."""
    name = "keyeq-args"

    def cases(self, rng, tier):
        n = 1500 if tier == "quick" else 20000
        g = ExprGen(rng, lists=False, floats=0.1, cse=0.15)
        i = 0
        while i < n:
            fam = arg_family(rng, adv_values(rng, mixed=True))
            e1 = g.gen(rng.choice(["num", "int", "bool", "any"]), rng.randint(0, 3))
            for _ in range(8):
                i += 1
                k = rng.random()
                e2 = (e1 if k < 0.5 else rebuild(e1) if k < 0.7 else self.retype(rng, e1)
                      if k < 0.85 else g.gen(rng.choice(["num", "any"]), 1))
                c1 = fam[0] if rng.random() < 0.5 else rng.choice(fam)
                c2 = rng.choice(fam)
                if rng.random() < 0.25:     # the same call, keywords in another order
                    its = list(c1[1].items())
                    rng.shuffle(its)
                    c2 = [c1[0], dict(its)]
                yield {"k1": [esx(e1), c1[0], dict(c1[1])], "k2": [esx(e2), c2[0], dict(c2[1])]}
        for e in (p.Variable("x"), p.CommonSubexpression(p.Variable("x")), 4):
            for (a1, kw1), (a2, kw2) in itertools.product(ADV_FIXED, repeat=2):
                yield {"k1": [esx(e), a1, dict(kw1)], "k2": [esx(e), a2, dict(kw2)]}

    def request(self, pl):
        ks = [key_req(sx, dec_arg(a), {k: dec_arg(v) for k, v in kw.items()})
              for sx, a, kw in (pl["k1"], pl["k2"])]
        return f"(memo-keyeq-v {ks[0]} {ks[1]})"

    def _keys(self, pl):
        return KeyEqStream._keys(self, {
            k: [pl[k][0], dec_arg(pl[k][1]), {n: dec_arg(v) for n, v in pl[k][2].items()}]
            for k in ("k1", "k2")})

    def oracle(self, pl):
        f = KeyEqStream.oracle(self, pl)
        if f is None:
            return None
        (_k1, _c1, _e1, a1, kw1), (_k2, _c2, _e2, a2, kw2) = self._keys(pl)
        if f.key == "key-ignores-arguments":
            f.key = f"key-confuses-arguments:{confusion(a1, kw1, a2, kw2)}"
        if f.key == "key-separates-equal-calls" and arg_tag(a1, kw1) != arg_tag(a2, kw2):
            # (1,) == (True,): a key that told such arguments apart would still be a correct key
            return None
        return f

    def shrink(self, pl):
        for k in ("k1", "k2"):
            sx, a, kw = pl[k]
            for j in range(len(a)):
                yield {**pl, k: [sx, a[:j] + a[j + 1:], kw]}
            for n in kw:
                yield {**pl, k: [sx, a, {m: v for m, v in kw.items() if m != n}]}
        for s in sx_shrinks(loads(pl["k1"][0])):
            if pl["k1"][0] == pl["k2"][0]:
                yield {"k1": [dumps(s), *pl["k1"][1:]], "k2": [dumps(s), *pl["k2"][1:]]}

    def nontrivial_key(self, pl, model, impl):
        return json_key(pl)


class MemoTraceArgsStream(MemoTraceStream):
    """hit / miss traces of ONE instrumented CachedDependencyMapper (memo table) / DependencyMapper
    (CSE mix-in dictionary) on histories with adversarial extra arguments vs `runHistC` on the
    history renamed by `internHist` (every combination of extra arguments is the index of the first
    combination that `ArgKeyV.pyEq` calls equal)"""
    name = "memo-trace-args"

    def cases(self, rng, tier):
        n = 500 if tier == "quick" else 4000
        g = ExprGen(rng, lists=False, cse=0.2, floats=0.0)
        g0 = ExprGen(rng, lists=False, cse=0.0, floats=0.0)
        for i in range(n):
            # the dependency mappers' handler of common subexpressions (the CSE mix-in) takes no
            # keyword arguments: keyword arguments only on trees without such nodes
            layer, kw = [("memo", True), ("memo", True), ("cse", False), ("memo", False)][i % 4]
            calls = adv_history(rng, g0 if kw else g, kw_ok=kw, i=i, wrap_cse=(layer == "cse"))
            yield {"flags": FLAGSETS[i % len(FLAGSETS)], "layer": layer, "calls": calls}

    def request(self, pl):
        ks = " ".join(key_req(sx, a, kw) for sx, a, kw in norm_adv(pl)["calls"])
        return f"(memo-deps-v {flags_req(pl['flags'])} {pl['layer']} ({ks}))"

    def run_impl(self, pl):
        return MemoTraceStream.run_impl(self, norm_adv(pl))

    def oracle(self, pl):
        f = MemoTraceStream.oracle(self, norm_adv(pl))
        if f is not None:
            f.payload = pl
        return f

    def shrink(self, pl):
        return shrink_adv(pl)

    def nontrivial_key(self, pl, model, impl):
        return json_key(pl) if "(h " in impl else None


def json_key(pl):
    import json
    return json.dumps(pl, default=str)

# }}}


def extract(ctx=None):
    """T-gen: the cache protocol of every caching mapper class and the optimizer's rewrites,
    regenerated from the live source of the tree under test (lean/PV/Generated/Caching.lean)"""
    from extract.caching import extract_caching
    return extract_caching(ctx)


PROP = Prop(
    id="C05",
    title="Memoization and mapper optimization are observationally transparent",
    lean_targets=["PV.Properties.C05"],
    extractors=[extract],
    streams=[KeyEqStream(), MemoTraceStream(), OptKeysStream(), PairStream(), ScalarStream(),
             OptimizerStream(), TemporariesStream()],
    probes=[probe],
    trusted_base=[
        "Lean 4.33 kernel; axioms propext, Classical.choice, Quot.sound only",
        "handlers are pure (no state besides the caches; stated in get_cache_key's docstring)",
        "harness/sexp.py serialisation, harness/props/c05.py instrumentation (subclasses that "
        "wrap every map_* method / __call__) and harness/c05_classes.py",
        "Python dict lookup = first entry with stored == query (hash consistency is checked by "
        "the keyeq oracle)",
        "extract/caching.py (ast reader of get_cache_key, CachedMapper.__call__, the CSE mix-in, class "
        "MROs, the optimizer's loop and its rewritten sources; unknown shapes are errors) and the "
        "reading lean/PV/Model/CacheTable.lean gives to the statement table (dict.get / is not / "
        "getattr / call / store / return as Python executes them)",
    ],
    level_text="Lean theorems, generic in the handler family (handlers as first-order programs that "
               "return, raise or ask the dispatcher; unbounded expressions, arguments and history "
               "length): the memoizing dispatcher returns on every call of every history exactly "
               "the answer (value or exception) of the non-memoizing one, its cache holds plain "
               "answers only, a hit needs an equal key, scalar types and extra arguments separate "
               "keys, and no key is computed twice; instances for the dependency mapper, the CSE "
               "mix-in, a node counter and (from C02) the evaluator with both caches. The "
               "optimizer's five rewrites are functions on a small syntax of __call__/rec/"
               "get_cache_key; for all 32 option sets the rewritten key scheme is equivalent to "
               "the original one on the calls the option set allows, with negation witnesses for "
               "three defects. Tied to the code by key-equality, hit/miss-trace and key-shape "
               "correspondence and by paired cached/uncached runs of twelve mapper pairs; and by "
               "tables regenerated from the source on every run (T-gen): the key tuple, the "
               "statement-by-statement body of CachedMapper.__call__ and of the CSE mix-in (proved to "
               "BE the model's callC / key equalities), the MRO of every stock caching class (proved "
               "to put the cache around every handler, top-level calls and rec alike), the "
               "optimizer's rewriting loop, its three transformer classes run on every dispatch "
               "expression of the model's syntax, and the rewritten source of 4 x 32 optimized "
               "classes (proved equal to the model's optimize).",
    level_note="Trusted: Lean kernel; purity of handlers; the harness instrumentation. The generic "
               "theorems assume an admissible key universe (handlers do not distinguish equal keys; "
               "discharged where Python == is identity: no 1/True/1.0 clashes, no keyword calls, "
               "no lists) and, for at-most-once, handlers that descend in a measure (expression "
               "size). Walk/identity/combine/collector/substitution/flop mappers are covered by the "
               "generic theorem plus the paired oracle, not by a dedicated Lean handler family.",
    technique="Lean 4 refinement proof of a memoizing state machine over program-shaped handlers + "
              "model of the optimizer's AST rewrites + differential correspondence (keys, hit/miss "
              "traces, key shapes) + paired cached/uncached oracle with invocation counting",
    design_ref="DESIGN.md §4 C05",
    assumptions=[
        "mapper handlers are pure and results are not mutated by the caller",
        "the optimizer reads pristine sources: harness clears its AST cache before each application "
        "(the contrary is known finding optimizer-shared-ast-mutated)",
        "equal expressions (C01: Sum((x,4)) == Sum((x,4.0))) may share one cache entry; only the "
        "constants themselves and different extra arguments must be kept apart",
    ],
)


# adversarial extra arguments (keys with argument VALUES: PV/Model/MemoArgs.lean, PV/Properties/C05Args.lean)
PROP.lean_targets.append("PV.Properties.C05Args")
PROP.streams.extend([KeyEqArgsStream(), MemoTraceArgsStream(), ArgKeysStream()])


# {{{ stream: optimizer subjects (overridden handlers that the base class publishes under several
#     names; answers that are None / empty)

from .. import c05_subjects as S  # noqa: E402

FOREIGN_DISPATCH = {"tuple": "map_tuple", "list": "map_list", "int": "map_constant",
                    "float": "map_constant", "bool": "map_constant", "complex": "map_constant"}


def dispatch_name(type_name):
    """the handler name an object of the named type asks for (`mapper_method` of the node class;
    `Mapper.map_foreign`'s documented routing for constants and containers)"""
    cls = getattr(p, type_name, None)
    if cls is not None:
        return getattr(cls, "mapper_method", None)
    return FOREIGN_DISPATCH.get(type_name)


def mark_legit(cls, mark):
    """May the handler that left `mark` (`H|<handler>|<node type>`) run for that node type in the
    class AS WRITTEN?  Python's own attribute look-up decides: the name the node type asks for must
    resolve, on the un-rewritten class, to the very function the class body defines as <handler>."""
    _h, handler, tname = mark.split("|")
    target = dispatch_name(tname)
    return (target is not None and handler in vars(cls)
            and getattr(cls, target, None) is vars(cls)[handler])


def show(v, n=300):
    """a short text of an answer (some trees have no `str`: the printer knows no wildcards)"""
    try:
        return repr(str(v)[:n])
    except Exception:
        return repr(v)[:n]


def show_r(v, n=300):
    """`repr` text (user-defined node classes print like their stock base class under `str`)"""
    return repr(v)[:n]


def marks_of(kind, answer, log):
    if kind == "walk":
        return [ev[0] for ev in log if isinstance(ev[0], str) and ev[0].startswith("H|")]
    if kind == "identity":
        return [t.function.name for t in scan.subterms(answer)
                if isinstance(t, p.Call) and isinstance(t.function, p.Variable)
                and t.function.name.startswith("H|")]
    return [x for x in answer if isinstance(x, str) and x.startswith("H|")]


def zoo(rng, g):
    """one node of every operator class all four stock base mappers handle, in random order under a
    random n-ary parent (every node type of the library in ONE history)"""
    def c():
        return g.gen("small", 1)

    def cs():
        return tuple(c() for _ in range(rng.randint(1, 3)))

    f = p.Variable(rng.choice(["f", "g"]))
    els = [p.Sum(cs()), p.Product(cs()), p.Quotient(c(), c()), p.FloorDiv(c(), c()),
           p.Remainder(c(), c()), p.Power(c(), c()), p.LeftShift(c(), c()), p.RightShift(c(), c()),
           p.BitwiseNot(c()), p.BitwiseOr(cs()), p.BitwiseXor(cs()), p.BitwiseAnd(cs()),
           p.LogicalNot(c()), p.LogicalOr(cs()), p.LogicalAnd(cs()), p.Min(cs()), p.Max(cs()),
           p.Comparison(c(), rng.choice(["<", "==", ">="]), c()), p.If(c(), c(), c()),
           p.Call(f, cs()), p.Subscript(p.Variable("t"), c()), p.Lookup(p.Variable("r"), "u"),
           cs(), p.CommonSubexpression(c()), p.Wildcard(), p.DotWildcard("a"), p.StarWildcard("a"),
           p.FunctionSymbol()]
    rng.shuffle(els)
    # a few members go below other members
    for _ in range(rng.randint(0, 4)):
        a = els.pop()
        host = rng.choice([p.Sum, p.Product, p.Min, p.Max, p.BitwiseOr, p.LogicalAnd])
        els.insert(rng.randrange(len(els) + 1), host((a, c())))
    parent = rng.choice([p.Sum, p.Product, p.Min, p.Max, p.BitwiseOr, p.BitwiseAnd, p.LogicalOr,
                         tuple, lambda xs: p.Call(f, xs)])
    return parent(tuple(els))


_SUBJ_OPT: dict = {}


def optimized_subject(name, bits):
    key = (name, tuple(bits))
    if key not in _SUBJ_OPT:
        from pymbolic.mapper import optimize
        _kind, cls = S.c05_subject(name)
        getattr(optimize._get_ast_for_file, "cache_clear", lambda: None)()
        try:
            _SUBJ_OPT[key] = optimize.optimize_mapper(**dict(zip(OPT_NAMES, bits)))(cls)
        finally:
            getattr(optimize._get_ast_for_file, "cache_clear", lambda: None)()
    return _SUBJ_OPT[key]


def result_class(m):
    """what the answers of the keys computed more than once on `m` look like"""
    res = [m._c05_results.get(k) for k, n in getattr(m, "_c05_counts", {}).items() if n > 1]
    if res and all(r is None for r in res):
        return "none-result"
    try:
        if res and not any(bool(r) for r in res):
            return "falsy-result"
    except Exception:
        pass
    return "any-result"


class OptSubjectsStream(Stream):
    """`optimize_mapper(**options)(cls)` for user classes that override a handler the stock base class
    also exports under other names (`harness/c05_subjects.py`), on histories that hold every node
    type of the library: ONE instance of the rewritten class over the history vs the non-memoizing
    counterpart of the class AS WRITTEN applied afresh; every override may only have run for node
    types whose handler name resolves to it in the class as written; each key computed at most
    once (answers that are None or empty included)."""
    name = "optimizer-subjects"
    has_model = False

    def cases(self, rng, tier):
        g = ExprGen(rng, lists=False, cse=0.15, floats=0.0)
        subjects = [c.__name__ for cl in S.c05_SUBJECTS.values() for c in cl]
        all_sets = list(itertools.product([False, True], repeat=5))
        full = (True,) * 5
        quick = tier == "quick"
        second = set(rng.sample(subjects, 5)) if quick else set()
        reps = 3 if quick else 6
        for name in subjects:
            if quick:
                # the most rewritten variant for every class, one more option set for a few
                sets = [full] + ([rng.choice([b for b in all_sets if b != full])]
                                 if name in second else [])
            else:
                sets = all_sets
            for bits in sets:
                for r in range(reps):
                    calls = gen_history(rng, g, depth=3)
                    z = esx(zoo(rng, g))
                    calls.insert(rng.randrange(len(calls) + 1), [z, [], {}])
                    if r % 2:
                        calls.append([z, [], {}])   # loaded as an equal-but-not-identical copy
                    yield {"subject": name, "opts": list(bits), "calls": calls}

    def run_impl(self, pl):
        return "(oracle-only)"

    def oracle(self, pl):
        kind, cls = S.c05_subject(pl["subject"])
        bits = tuple(pl["opts"])
        opts = dict(zip(OPT_NAMES, bits))
        calls = load_calls(pl)
        if not coherent([e for e, _a, _k in calls]):
            return None
        on = "+".join(n for n, b in opts.items() if b) or "none"
        m = counted(optimized_subject(pl["subject"], bits))()
        plain = S.c05_plain(cls)
        cum_c, cum_p = set(), set()
        for i, (e, _a, _kw) in enumerate(calls):
            fresh = plain()
            n0 = len(m.__dict__.get("log", []))
            got = outc(lambda: m(e))
            ref = outc(lambda: fresh(e))
            lc, lp = m.__dict__.get("log", [])[n0:], fresh.__dict__.get("log", [])
            what = f"[{on}] class {cls.__name__} call #{i} {esx(e)[:100]}"
            cum_c |= set(lc)    # (what a call that raises logged before it raised counts too: the
            cum_p |= set(lp)    #  nodes completed below it stay memoized)
            if got[0] == "ok":
                for mk in marks_of(kind, got[1], lc):
                    if not mark_legit(cls, mk):
                        _h, handler, tname = mk.split("|")
                        return Failure(
                            f"optimizer-override-leaks:{handler}->{dispatch_name(tname)}",
                            f"{what}: the rewritten class ran the user's {handler} for a {tname} "
                            f"node; in the class as written {dispatch_name(tname)} is "
                            f"{getattr(cls, dispatch_name(tname)).__qualname__}; rewritten instance "
                            f"{show(got[1], 200)}, plain counterpart {show(ref[1], 200)}", pl)
            if got[0] != ref[0] or (got[0] == "err" and got[1] != ref[1]):
                return Failure(f"optimizer-outcome-differs:{on}",
                               f"{what}: rewritten instance {got!r}, plain counterpart {ref!r}", pl)
            if got[0] == "ok":
                same = top_eq(e, got[1], ref[1]) and \
                    (kind != "combine" or typed_eq(got[1], ref[1]))
                if kind == "walk":
                    same = same and is_subsequence(lc, lp) and cum_c == cum_p
                if not same:
                    return Failure(f"optimizer-differs:{on}",
                                   f"{what}: rewritten instance {show(got[1])} "
                                   f"(log {len(lc)}), plain counterpart {show(ref[1])} "
                                   f"(log {len(lp)})", pl)
        rc = recomputed(m)
        if rc:
            detail = (f"[{on}] class {cls.__name__}: handler ran more than once for one key on one "
                      f"instance: {rc[:2]!r}")
            if opts["inline_rec"] and not opts["inline_cache"]:
                return Failure("optimizer-inline-rec-disables-cache", detail, pl)
            return Failure(f"optimizer-recomputes:{result_class(m)}", detail, pl)
        return None

    def shrink(self, pl):
        return shrink_calls(pl)

    def nontrivial_key(self, pl, model, impl):
        return pl["subject"] + str(pl["opts"]) + dumps([c[0] for c in pl["calls"]])

    def stats(self, pl, mo, io, acc):
        acc[pl["subject"]] = acc.get(pl["subject"], 0) + 1
        on = "".join("1" if b else "0" for b in pl["opts"])
        acc.setdefault("by_opts", {})
        acc["by_opts"][on] = acc["by_opts"].get(on, 0) + 1

# }}}


PROP.streams.append(OptSubjectsStream())


def extract_collect(ctx=None):
    """T-gen: the class bodies the live `optimize_mapper()` emits for user classes of
    harness/c05_subjects.py next to the classes as written (lean/PV/Generated/OptCollect.lean)"""
    from extract.optcollect import extract_optcollect
    return extract_optcollect(ctx)


# method gathering of the optimizer (PV/Model/OptCollect.lean, PV/Properties/C05Collect.lean)
PROP.lean_targets.append("PV.Properties.C05Collect")
PROP.extractors.append(extract_collect)


# {{{ stream: histories over several mapper CLASSES of one hierarchy, on user-defined node types

USER_NODE_BASES = ["Variable", "Sum", "Product", "Quotient", "FloorDiv", "Power", "Call", "Subscript",
                   "Comparison", "If", "Min", "BitwiseOr", "LogicalNot", "LeftShift"]
CLASS_HISTORY_KINDS = ["identity", "combine", "collector", "walk", "substitution"]


def user_node_classes(names):
    """Node types as a downstream package declares them: `User<K>(K)` and `UserUser<K>(User<K>)`
    (new classes on every call).  Their derived handler names (`map_user_sum`, …) are implemented
    by no mapper, so every mapper serves them through the nearest ancestor's handler (`map_sum`)."""
    import warnings
    out = {}
    with warnings.catch_warnings():
        warnings.simplefilter("ignore")
        for n in names:
            k = getattr(p, n)
            u = p.expr_dataclass()(type("User" + n, (k,), {"__annotations__": {}}))
            uu = p.expr_dataclass()(type("UserUser" + n, (u,), {"__annotations__": {}}))
            out[n] = (u, uu)
    return out


def userize(e, classes, two_level, mixed):
    """`e` with the nodes of the chosen stock classes replaced (in pre-order: by the user class, by
    the user class of the second level, left alone) by instances of the user-defined classes"""
    import dataclasses
    count = itertools.count()

    def conv(v):
        if isinstance(v, p.Expression) and dataclasses.is_dataclass(v):
            cls = type(v)
            if cls.__name__ in classes and cls is getattr(p, cls.__name__):
                k = next(count) % 3
                u, uu = classes[cls.__name__]
                cls = u if k == 0 else (uu if two_level else u) if k == 1 else (cls if mixed else u)
            return cls(*[conv(getattr(v, f.name)) for f in dataclasses.fields(v)])
        if isinstance(v, tuple):
            return tuple(conv(c) for c in v)
        if hasattr(v, "items"):
            return type(v)({k: conv(c) for k, c in v.items()})
        return v
    return conv(e)


def user_dispatch(e):
    """the handler name the node is served by: the first name along the MRO of its class that the
    stock mappers implement (the user classes' own derived names are implemented by nobody)"""
    for c in type(e).__mro__:
        if c.__module__ == p.__name__:
            return getattr(c, "mapper_method", None)
    return None


class hermetic:
    """Class-level state a mapper class acquires during one history (attributes ADDED to a class of
    the hierarchy) is removed afterwards: every history starts from what a new process sees, so a
    replayed payload reproduces whatever the history before it was."""

    def __init__(self, classes):
        self.classes = {c for k in classes for c in k.__mro__ if c is not object}

    def __enter__(self):
        self.snap = {c: set(vars(c)) for c in self.classes}
        return self

    def __exit__(self, *exc):
        for c, names in self.snap.items():
            for n in set(vars(c)) - names:
                try:
                    delattr(c, n)
                except (AttributeError, TypeError):
                    pass
        return False


def level_handler(kind, level, name, base_fn):
    """the override of handler `name` in the class of the given level: what the level below does,
    plus a mark `L<level>|<name>` in the answer (walk: in the log)"""
    mark = f"L{level}|{name}"

    if kind in ("identity", "substitution"):
        def handler(self, expr, *args, **kwargs):
            return p.Call(p.Variable(mark), (base_fn(self, expr, *args, **kwargs),))
    elif kind == "combine":
        def handler(self, expr, *args, **kwargs):
            return [mark, *base_fn(self, expr, *args, **kwargs)]
    elif kind == "collector":
        def handler(self, expr, *args, **kwargs):
            return {p.Variable(mark)} | base_fn(self, expr, *args, **kwargs)
    else:
        def handler(self, expr, *args, **kwargs):
            self.__dict__.setdefault("log", []).append((mark, type(expr), expr, args,
                                                        frozen(kwargs)))
            return base_fn(self, expr, *args, **kwargs)
    handler.__name__ = name
    return handler


def class_chains(pl):
    """([(memoizing class, constructor args)] by level, the same for the non-memoizing hierarchy):
    level 0 is a stock class (or, for combine / collector / walk, the instrumented user class the
    `pairs` stream uses), level 1 / 2 derive from the level below and override one handler each"""
    import pymbolic.mapper as M
    kind = pl["kind"]
    if kind == "identity":
        chain_c, chain_p = [(M.CachedIdentityMapper, ())], [(M.IdentityMapper, ())]
    elif kind == "substitution":
        from pymbolic.mapper.substitutor import (CachedSubstitutionMapper, SubstitutionMapper,
                                                 make_subst_func)
        assign = {k: sx_to_expr(loads(v)) for k, v in pl["subst"].items()}
        f = make_subst_func(assign)
        chain_c = [(M.CachedIdentityMapper, ()), (CachedSubstitutionMapper, (f,))]
        chain_p = [(M.IdentityMapper, ()), (SubstitutionMapper, (f,))]
    else:
        c, q = pair_classes()[kind]
        chain_c, chain_p = [(c, ())], [(q, ())]
    for name in pl["overrides"]:
        level = len(chain_c)
        (cc, ca), (pc, pa) = chain_c[-1], chain_p[-1]
        # the level below, as Python finds it on the NON-memoizing class of that level
        h = level_handler("identity" if kind == "substitution" else kind, level, name,
                          getattr(pc, name))
        chain_c.append((type(f"L{level}C", (cc,), {name: h}), ca))
        chain_p.append((type(f"L{level}P", (pc,), {name: h}), pa))
    return chain_c, chain_p


def level_marks(kind, answer, log):
    if kind == "walk":
        return [ev[0] for ev in log if isinstance(ev[0], str) and ev[0].startswith("L")]
    if kind in ("identity", "substitution"):
        return [t.function.name for t in scan.subterms(answer)
                if isinstance(t, p.Call) and isinstance(t.function, p.Variable)
                and t.function.name.startswith("L") and "|" in t.function.name]
    if kind == "collector":
        return [v.name for v in answer if isinstance(v, p.Variable) and "|" in v.name
                and v.name.startswith("L")]
    return [x for x in answer if isinstance(x, str) and x.startswith("L") and "|" in x]


class ClassHistoryStream(Stream):
    """Histories over SEVERAL memoizing classes of one hierarchy (a stock class, a class derived
    from it that overrides a handler, a class derived from that one) and several instances, in
    every order, on expressions that hold user-defined node types (served through the nearest
    ancestor's handler).  Every answer is what the non-memoizing counterpart OF THAT CLASS returns
    when applied afresh, and carries the marks of the overrides that class resolves to and of no
    other class of the hierarchy.  Targets state shared between mapper classes (per-class or
    per-process look-up tables found through inheritance)."""
    name = "class-histories"
    has_model = False

    def cases(self, rng, tier):
        n = 300 if tier == "quick" else 4000
        g = ExprGen(rng, lists=False, cse=0.1, floats=0.0, extra_nodes=False, foreign=False)
        for i in range(n):
            kind = CLASS_HISTORY_KINDS[i % len(CLASS_HISTORY_KINDS)]
            pool = USER_NODE_BASES if kind in ("identity", "substitution", "walk") else \
                [b for b in USER_NODE_BASES if b not in ("Variable",)] + ["Variable"]
            user = rng.sample(pool, rng.randint(1, 4))
            if "Variable" not in user and rng.random() < 0.5:
                user.append("Variable")
            exprs = []
            for _ in range(rng.randint(1, 3)):
                e = g.gen(rng.choice(["num", "int", "bool"]), rng.randint(1, 3))
                # one node of every user type, so that each is met in every history
                extra = [self.sample_node(rng, g, b) for b in user]
                exprs.append(esx(rng.choice([p.Sum, p.Product, p.Max])((e, *extra))))
            names = [getattr(p, b).mapper_method for b in user]
            n_over = 1 if kind == "substitution" else rng.randint(1, 2)
            overrides = [rng.choice(names) for _ in range(n_over)]
            levels = (2 if kind == "substitution" else 1) + n_over
            calls = []
            order = rng.choice(["base-first", "derived-first", "random"])
            seq = list(range(levels)) if order == "base-first" else \
                list(reversed(range(levels))) if order == "derived-first" else []
            for j in range(rng.randint(levels, levels + 4)):
                lvl = seq[j] if j < len(seq) else rng.randrange(levels)
                calls.append([lvl, rng.randrange(len(exprs)), rng.choice(["fresh", "kept"])])
            pl = {"kind": kind, "user": user, "two_level": rng.random() < 0.5,
                  "mixed": rng.random() < 0.5, "exprs": exprs, "overrides": overrides,
                  "calls": calls}
            if kind == "substitution":
                gs = ExprGen(rng, lists=False, cse=0.0, floats=0.0, extra_nodes=False)
                pl["subst"] = {v: esx(gs.gen("num", 2))
                               for v in rng.sample(["x", "y", "z", "i", "j", "b", "n", "m"],
                                                   rng.randint(1, 4))}
            yield pl

    @staticmethod
    def sample_node(rng, g, base):
        def c():
            return g.gen("small", 1)
        k = getattr(p, base)
        if base == "Variable":
            return p.Variable(rng.choice(["x", "y", "z", "i", "j", "b", "n", "m"]))
        if base in ("Sum", "Product", "Min", "BitwiseOr"):
            return k(tuple(c() for _ in range(rng.randint(1, 3))))
        if base == "Call":
            return p.Call(p.Variable("f"), (c(),))
        if base == "Subscript":
            return p.Subscript(p.Variable("t"), c())
        if base == "Comparison":
            return p.Comparison(c(), "<", c())
        if base == "If":
            return p.If(c(), c(), c())
        if base == "LogicalNot":
            return p.LogicalNot(c())
        return k(c(), c())      # Quotient, FloorDiv, Power, LeftShift

    def run_impl(self, pl):
        return "(oracle-only)"

    def oracle(self, pl):
        import warnings
        kind = pl["kind"]
        chain_c, chain_p = class_chains(pl)
        classes = user_node_classes(pl["user"])

        def expr(ei):   # a new, equal copy for every use
            return userize(sx_to_expr(loads(pl["exprs"][ei])), classes, pl["two_level"],
                           pl["mixed"])

        def expected_marks(level):
            """name -> mark of the most derived class at or below `level` that overrides it"""
            out, every = {}, set()
            for lv, name in enumerate(pl["overrides"], start=len(chain_c) - len(pl["overrides"])):
                if lv <= level:
                    out[name] = f"L{lv}|{name}"
                    every.add(out[name])    # (an override hands over to the level below)
            return out, every

        # equal composite subterms typed differently (If(c, False, -1) / If(c, 0, -1)) are EQUAL
        # expressions and legitimately share an entry (see `coherent`)
        # (judged on the stock trees: user nodes are equal only if the stock nodes they stand for are)
        if not coherent([sx_to_expr(loads(sx)) for sx in pl["exprs"]]):
            return None
        kept: dict = {}
        cum: dict = {}
        with hermetic([c for c, _a in chain_c]), warnings.catch_warnings():
            warnings.simplefilter("ignore")
            for i, (lvl, ei, how) in enumerate(pl["calls"]):
                cls, cargs = chain_c[lvl]
                pcls, pargs = chain_p[lvl]
                if how == "kept":
                    if lvl not in kept:
                        kept[lvl] = cls(*cargs)
                    m = kept[lvl]
                else:
                    m = cls(*cargs)
                fresh = pcls(*pargs)
                if kind == "walk":
                    m.__dict__["log"] = []
                e, e2 = expr(ei), expr(ei)
                got = outc(lambda: m(e))
                ref = outc(lambda: fresh(e2))
                lc, lp = m.__dict__.get("log", []), fresh.__dict__.get("log", [])
                what = (f"[{kind}] call #{i}: a {how} instance of the level-{lvl} class "
                        f"(overrides by level: {pl['overrides']}) on {show_r(e, 200)}")
                if got[0] != ref[0] or (got[0] == "err" and got[1] != ref[1]):
                    return Failure(f"class-history-outcome-differs:{kind}",
                                   f"{what}: memoizing instance {got!r}, non-memoizing counterpart "
                                   f"of that class applied afresh {ref!r}", pl)
                if got[0] != "ok":
                    continue
                want, every = expected_marks(lvl)
                seen = set(level_marks(kind, got[1], lc))
                top = want.get(user_dispatch(e))
                if kind == "walk" and how == "kept":
                    top = None      # the walk of a node walked before logs nothing
                if not seen <= every or (top is not None and top not in seen):
                    return Failure(
                        f"class-history-handler-of-other-class:{kind}",
                        f"{what}: the answer carries the override marks {sorted(seen)}; the "
                        f"class resolves its overrides to {want} (top node is served by "
                        f"{user_dispatch(e)}); memoizing instance {show_r(got[1])}, non-memoizing "
                        f"counterpart {show_r(ref[1])}", pl)
                if kind == "walk":
                    cc, cp = cum.setdefault((lvl, how == "kept"), (set(), set()))
                    if how != "kept":
                        cc.clear()
                        cp.clear()
                    cc |= set(lc)
                    cp |= set(lp)
                    same = is_subsequence(lc, lp) and cc == cp
                elif kind == "combine":
                    same = typed_eq(got[1], ref[1])
                else:
                    same = top_eq(e, got[1], ref[1])
                if not same:
                    return Failure(f"class-history-differs:{kind}",
                                   f"{what}: memoizing instance {show_r(got[1])}, non-memoizing "
                                   f"counterpart of that class applied afresh {show_r(ref[1])}", pl)
        return None

    def shrink(self, pl):
        cs = pl["calls"]
        for i in range(len(cs)):
            if len(cs) > 1:
                yield {**pl, "calls": cs[:i] + cs[i + 1:]}
        for flag in ("two_level", "mixed"):
            if pl[flag]:
                yield {**pl, flag: False}
        for i, (lvl, ei, how) in enumerate(cs):
            if how == "kept":
                yield {**pl, "calls": cs[:i] + [[lvl, ei, "fresh"]] + cs[i + 1:]}
        for j, sx in enumerate(pl["exprs"]):
            for s_ in sx_shrinks(loads(sx)):
                yield {**pl, "exprs": pl["exprs"][:j] + [dumps(s_)] + pl["exprs"][j + 1:]}

    def nontrivial_key(self, pl, model, impl):
        return json_key(pl)

    def stats(self, pl, mo, io, acc):
        acc[pl["kind"]] = acc.get(pl["kind"], 0) + 1
        acc["calls"] = acc.get("calls", 0) + len(pl["calls"])
        if not coherent([sx_to_expr(loads(sx)) for sx in pl["exprs"]]):
            acc["skipped_incoherent"] = acc.get("skipped_incoherent", 0) + 1

# }}}


PROP.streams.append(ClassHistoryStream())

# wrappers / keys whose result is None or falsy: the at-most-once clause must not depend on the
# value of the result (harness/falsy_results.py, shared with C12)
from ..falsy_results import FalsyResults  # noqa: E402
PROP.streams.append(FalsyResults("cse-falsy-results", "cse-result-recomputed"))

PROP.level_note += ' Shared oracle stream cse-falsy-results (harness/falsy_results.py): wrappers whose child evaluates to None / a falsy value are computed once per instance, whatever the value.'
