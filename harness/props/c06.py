"""C06 — printing an expression and parsing the text gives the expression back."""
from __future__ import annotations

import pymbolic.primitives as p
from immutabledict import immutabledict

from ..core import Failure, Prop, Stream
from ..gen import node_types, size
from ..oracles import scan
from ..sexp import A, dumps, exc_to_sx, expr_to_sx, loads, q, sx_shrinks, sx_to_expr
from ..syntax import (LEX_NAMES, LexGen, tidy, SyntaxGen, codes, flatten_assoc, lex_strings, lex_tokens,
                      nested_slice_cases, real_lex_raw, real_lex_tokens, slice_context_cases, slices_anywhere,
                      three_level, two_level)


def extract(ctx):
    from extract.prec import extract_prec
    extract_prec(ctx)
    from extract.lex import extract_lex
    extract_lex(ctx)
    # T-gen of the printer: lean/PV/Generated/Stringifier.lean from the live source of
    # StringifyMapper (handler bodies, helpers, dispatch); an unreadable handler raises here and is
    # reported by the check as a broken obligation
    from extract.stringifier import extract_stringifier
    extract_stringifier(ctx)


def kind(e):
    return type(e).__name__


def syntax_children(e):
    """children that are expressions of the text syntax in their own right: the index of a
    subscript is not (a slice or a bare index tuple only exists inside the brackets), its parts are"""
    if isinstance(e, p.Subscript):
        idx = e.index
        if isinstance(idx, p.Slice):
            parts = [c for c in idx.children if c is not None]
        elif isinstance(idx, tuple):
            parts = []
            for c in idx:
                parts += [d for d in c.children if d is not None] if isinstance(c, p.Slice) else [c]
        else:
            parts = [idx]
        return [e.aggregate, *parts]
    return scan.children(e)


def minimal_failing_subterm(e, fails):
    """smallest subterm (children first) on which `fails` holds"""
    for c in syntax_children(e):
        r = minimal_failing_subterm(c, fails)
        if r is not None:
            return r
    return e if fails(e) else None


def to_str(e):
    if isinstance(e, p.Expression):
        return str(e)
    from pymbolic.mapper.stringifier import PREC_NONE, StringifyMapper
    return StringifyMapper()(e, PREC_NONE)


def roundtrip_problem(e):
    """None if str/parse round-trips as the property says, else a description"""
    from pymbolic import parse
    try:
        s = to_str(e)
    except Exception as ex:
        return f"str raises {ex!r}"
    try:
        back = parse(s)
    except Exception as ex:
        return f"parse({s!r}) raises {type(ex).__name__}"
    try:
        if flatten_assoc(back) != flatten_assoc(e):
            return f"parse({s!r}) = {back!r}"
        s2 = to_str(back)
    except Exception as ex:
        return f"compare/str raises {ex!r}"
    if s2 != s:
        return f"str(parse(str(e))) = {s2!r} differs from {s!r}"
    return None


NARY = (p.Sum, p.Product, p.BitwiseOr, p.BitwiseXor, p.BitwiseAnd, p.LogicalOr, p.LogicalAnd)


def normalize_all(e):
    """flatten EVERY associative n-ary operator and unwrap one-operand n-ary nodes (more than the
    property allows: used only to recognise two broad, known classes of failures)"""
    import dataclasses
    if isinstance(e, tuple):
        return tuple(normalize_all(c) for c in e)
    if isinstance(e, list):
        return [normalize_all(c) for c in e]
    if not isinstance(e, p.Expression) or not dataclasses.is_dataclass(e):
        return e
    if isinstance(e, NARY):
        out = []
        for c in e.children:
            c = normalize_all(c)
            if type(c) is type(e):
                out.extend(c.children)
            else:
                out.append(c)
        return out[0] if len(out) == 1 else type(e)(tuple(out))
    kw = {}
    for f in dataclasses.fields(e):
        v = getattr(e, f.name)
        if isinstance(v, tuple) and f.name in ("children", "parameters", "values"):
            kw[f.name] = tuple(None if c is None else normalize_all(c) for c in v)
        elif hasattr(v, "items"):
            kw[f.name] = {k: normalize_all(c) for k, c in v.items()}
        elif isinstance(v, (p.Expression, tuple)):
            kw[f.name] = normalize_all(v)
        else:
            kw[f.name] = v
    return type(e)(**kw)


def hard_problem(e):
    """the round trip fails even modulo flattening of all n-ary operators / unwrapping of
    one-operand n-ary nodes"""
    from pymbolic import parse
    if roundtrip_problem(e) is None:
        return False
    try:
        back = parse(to_str(e))
        return normalize_all(back) != normalize_all(e)
    except Exception:
        return True


def classify(e):
    """key of the smallest failing subterm: one of the two broad known classes, else
    (parent kind > kind of the offending child)"""
    m = minimal_failing_subterm(e, hard_problem)
    if m is None:
        m = minimal_failing_subterm(e, lambda s: roundtrip_problem(s) is not None)
        if m is None:
            return "roundtrip", e
        if isinstance(m, NARY) and len(m.children) == 1:
            return "roundtrip:single-operand-nary", m
        return "roundtrip:nary-reparses-nested", m
    off = offender(m)
    # a child of the parent's own n-ary class prints without parentheses, i.e. exactly like the
    # parent with that child's operands spliced in: name the operand that really breaks the text
    for _ in range(8):
        if not (isinstance(m, NARY) and off == kind(m)):
            break
        spliced = []
        for c in m.children:
            spliced.extend(c.children if type(c) is type(m) else [c])
        m2 = type(m)(tuple(spliced))
        if to_str(m2) != to_str(m) or not hard_problem(m2):
            break
        off = offender(m2)
    return f"roundtrip:{kind(m)}>{off}", m


def _holds(c, old):
    """is `old` (identity) a part of the slice / tuple `c`, one or two levels down?"""
    parts = c.children if isinstance(c, p.Slice) else c
    return any(d is old or (isinstance(d, (p.Slice, tuple)) and _holds(d, old)) for d in parts)


def replace_child(m, old, new):
    """`m` with the child `old` (identity) replaced; every other child keeps its identity (a slice
    or tuple is rebuilt only when `old` is inside it)"""
    import dataclasses
    if isinstance(m, (tuple, list)):
        return type(m)(new if c is old else c for c in m)

    def sub(c):
        return replace_child(c, old, new) if isinstance(c, (p.Slice, tuple)) and _holds(c, old) else c
    kw = {}
    for f in dataclasses.fields(m):
        v = getattr(m, f.name)
        if v is old:
            kw[f.name] = new
        elif isinstance(v, tuple):
            kw[f.name] = tuple(new if c is old else sub(c) for c in v)
        elif hasattr(v, "items"):
            kw[f.name] = {k: (new if c is old else c) for k, c in v.items()}
        elif isinstance(v, p.Slice):
            kw[f.name] = sub(v)
        else:
            kw[f.name] = v
    return type(m)(**kw)


def _fresh(i):
    return p.Variable(f"r{i}")


def slice_shape_offence(m, sl):
    """`m` fails and holds the slice `sl` (identical object): "slice-open-end" if giving the slice
    a last bound repairs `m`, "slice-open-start" if giving it a first bound does, else None"""
    cs = sl.children
    if len(cs) >= 2 and cs[-1] is None and cs[-2] is not None:
        if not hard_problem(replace_child(m, sl, p.Slice(cs[:-1] + (_fresh(8),)))):
            return "slice-open-end"
    if len(cs) >= 2 and cs[0] is None:
        if not hard_problem(replace_child(m, sl, p.Slice((_fresh(9),) + cs[1:]))):
            return "slice-open-start"
    return None


def slice_offence(m, sl):
    """`m` fails because of its child `sl`, a slice that round-trips on its own: name the bound of
    the slice that is to blame (the failure goes away when the non-leaf bounds are replaced by
    plain variables), else the open end / start, else the slice"""
    bounds = [(i, d) for i, d in enumerate(sl.children)
              if isinstance(d, (p.Expression, tuple)) and not isinstance(d, p.Variable)]
    if bounds:
        def with_plain(keep):
            return p.Slice(tuple(_fresh(i) if any(i == j and j != keep for j, _ in bounds) else d
                                 for i, d in enumerate(sl.children)))
        try:
            if not hard_problem(replace_child(m, sl, with_plain(None))):
                for j, d in bounds:
                    if hard_problem(replace_child(m, sl, with_plain(j))):
                        return kind(d)
                return ",".join(sorted({kind(d) for _, d in bounds}))
        except Exception:
            pass
    try:
        return slice_shape_offence(m, sl) or "Slice"
    except Exception:
        return "Slice"


def offender(m):
    """kind of the first child that makes the round trip of `m` fail on its own (all other
    non-leaf children replaced by plain variables); else all non-leaf kinds"""
    if isinstance(m, p.Subscript):
        if isinstance(m.index, tuple) and len(m.index) == 1:
            return "one-tuple-index"
        if isinstance(m.index, p.Slice) and len(m.index.children) == 1:
            return "one-element-slice"
        if isinstance(m.index, p.Slice) and m.index.children and m.index.children[-1] is None \
                and len(m.index.children) >= 2:
            m2 = p.Subscript(m.aggregate, p.Slice(m.index.children[:-1]
                                                  + (p.Variable("q8"),)))
            if not hard_problem(m2):
                # two omitted parts at the end print like the slice one part shorter (known); ONE
                # omitted part after a present one is what the text `a:` / `a:b:` says
                return "slice-trailing-omitted" if m.index.children[-2] is None else "slice-open-end"
        # a slice of the index (alone or in the index tuple) that fails only for its open end / start
        idx = m.index
        for sl in ([idx] if isinstance(idx, p.Slice) else
                   [c for c in idx if isinstance(c, p.Slice)] if isinstance(idx, tuple) else []):
            why = slice_shape_offence(m, sl)
            if why is not None:
                return why
    if isinstance(m, p.CallWithKwargs) and not m.kw_parameters:
        m2 = p.Call(m.function, m.parameters)
        if not hard_problem(m2):
            return "no-keywords"
    kids = [c for c in syntax_children(m)
            if isinstance(c, (p.Expression, tuple)) and not isinstance(c, p.Variable)]
    for c in kids:
        try:
            m2 = m
            for i, d in enumerate(kids):
                if d is not c:
                    m2 = replace_child(m2, d, p.Variable(f"q{i}"))
            if hard_problem(m2):
                # a one-operand n-ary node prints as its operand: name what is really printed
                while isinstance(c, NARY) and len(c.children) == 1:
                    c = c.children[0]
                if isinstance(c, p.Slice):
                    # (replace_child rebuilds slices: find the object that now stands for c)
                    c2 = next((k for k in syntax_children(m2) if isinstance(k, p.Slice) and k == c), c)
                    return slice_offence(m2, c2)
                return kind(c)
        except Exception:
            pass
    return ",".join(sorted({kind(c) for c in kids}))


def _order_cases():
    """which child is printed FIRST decides which exception surfaces: `map_subscript` prints the
    index before the aggregate, `map_call_with_kwargs` the arguments before the callee (found by
    reading the handler bodies into the table; the model used to print aggregate / callee first)"""
    w, a = p.DotWildcard("x"), p.Variable("a")
    kw = immutabledict
    return [p.Subscript(None, w), p.Subscript(w, None), p.Subscript(None, (w,)), p.Subscript(w, (None,)),
            p.Subscript(None, (a, w)), p.CallWithKwargs(None, (w,), kw()), p.CallWithKwargs(w, (None,), kw()),
            p.CallWithKwargs(None, (), kw({"k": w})), p.CallWithKwargs(w, (), kw({"k": None})),
            p.CallWithKwargs(a, (w,), kw({"k": None})), p.CallWithKwargs(a, (None,), kw({"k": w})),
            p.Call(None, (w,)), p.Call(w, (None,)), p.If(None, w, a), p.If(w, None, a), p.If(a, w, None),
            p.If(a, None, w), p.Quotient(None, w), p.Quotient(w, None), p.Power(None, w), p.Power(w, None),
            p.Comparison(None, "<", w), p.Comparison(w, "<", None), p.Sum((None, w)), p.Sum((w, None)),
            p.Product((None, w)), p.Slice((None, w, "s")), p.Slice((w, None, "s")), (None, w), (w, "s"),
            [w, "s"], ["s", w], p.Lookup(None, "n"), p.LeftShift(None, w), p.LeftShift(w, None)]


ORDER_CASES = _order_cases()


def nested_tuples(depth):
    """tuples nested in tuples (EMPTY ones included, in every position) alone, as call argument,
    keyword value, subscript index and operand: arity and nesting must survive print + parse"""
    import itertools
    a, b, f, x = p.Variable("a"), p.Variable("b"), p.Variable("f"), p.Variable("x")
    level = [a, ()]
    seen = []
    for _d in range(depth - 1):
        nxt = []
        for n in (1, 2, 3):
            for combo in itertools.product(level, repeat=n):
                t = tuple(combo)
                if t not in nxt and len(nxt) < 400:
                    nxt.append(t)
        level = [a, ()] + nxt
    for t in level:
        if not isinstance(t, tuple) or t in seen:
            continue
        seen.append(t)
        yield t
        yield p.Call(f, (t,))
        yield p.Call(f, (t, b))
        yield p.CallWithKwargs(f, (b,), immutabledict({"k": t}))
        if t:
            yield p.Subscript(x, t)
        yield (t, b)
        yield (b, t)


class PrintStream(Stream):
    """str(e) of the real stringifier vs the model (string AND the token list the real lexer makes
    of it), plus the round-trip oracle on the real code"""
    name = "print"

    def cases(self, rng, tier):
        seen = set()
        for tag, e in two_level():
            yield {"expr": dumps(expr_to_sx(e)), "src": "two-level:" + tag}
        # directed shapes the Lean fragment excludes (PV.C06.callKw_empty_cex, list_of_tuple_cex)
        a, b, f = p.Variable("a"), p.Variable("b"), p.Variable("f")
        for e in (p.CallWithKwargs(f, (a,), immutabledict()), p.CallWithKwargs(f, (), immutabledict()),
                  p.Sum((p.CallWithKwargs(f, (a, b), immutabledict()), 1)), [(a, b)], ((a, b),), [a, (a, b)]):
            yield {"expr": dumps(expr_to_sx(e)), "src": "directed"}
        for e in nested_tuples(3 if tier == "quick" else 4):
            yield {"expr": dumps(expr_to_sx(e)), "src": "nested-tuples"}
        # slices as expressions in their own right: every expressible shape (open start / end /
        # step) in every context of the text syntax, and at a random place of random deep trees
        for tag, e in slice_context_cases(rng, tier):
            yield {"expr": dumps(expr_to_sx(e)), "src": tag}
        for e in slices_anywhere(rng, 600 if tier == "quick" else 15000, 3 if tier == "quick" else 4):
            yield {"expr": dumps(expr_to_sx(e)), "src": "slice-anywhere"}
        for e in nested_slice_cases():
            yield {"expr": dumps(expr_to_sx(e)), "src": "nested-slices"}
        n3 = 1500 if tier == "quick" else 40000
        for e in three_level(rng, n3):
            yield {"expr": dumps(expr_to_sx(e)), "src": "three-level"}
        g = SyntaxGen(rng)
        for _ in range(2500 if tier == "quick" else 40000):
            yield {"expr": dumps(expr_to_sx(g.gen(rng.randint(2, 8)))), "src": "random"}

    def request(self, pl):
        return f"(str {pl['expr']})"

    def run_impl(self, pl):
        e = sx_to_expr(loads(pl["expr"]))
        try:
            s = str(e) if isinstance(e, p.Expression) else \
                __import__("pymbolic.mapper.stringifier", fromlist=["x"]).StringifyMapper()(e)
        except Exception as ex:
            return dumps(exc_to_sx(ex))
        toks = lex_tokens(s)
        if toks is None:
            return f"({q(s)} lexer-rejects)"
        return f"({q(s)} ({' '.join(toks)}))"

    def agree(self, model, impl, pl):
        if impl.endswith(" lexer-rejects)"):
            ms = loads(model)
            return "ok" if isinstance(ms, list) and q(ms[0]) + " lexer-rejects)" == impl[1:] else "diff"
        return super().agree(model, impl, pl)

    def oracle(self, pl):
        e = sx_to_expr(loads(pl["expr"]))
        if roundtrip_problem(e) is None:
            return None
        key, m = classify(e)
        # a numeric literal in aggregate position (`tidy` hosts of the slice-anywhere family can have
        # one): the lexer's finding, under its own key
        key = lexical_key(m) or key
        return Failure(key, f"{m!r}: {roundtrip_problem(m)}", {**pl, "expr": dumps(expr_to_sx(m))})

    def shrink(self, pl):
        for s in sx_shrinks(loads(pl["expr"])):
            yield {**pl, "expr": dumps(s)}

    def nontrivial_key(self, pl, model, impl):
        return pl["expr"] if size(sx_to_expr(loads(pl["expr"]))) >= 3 else None

    def stats(self, pl, mo, io, acc):
        k = pl["src"].split(":")[0]
        acc[k] = acc.get(k, 0) + 1


class PrintOrderStream(PrintStream):
    """objects OUTSIDE the text syntax (so: no round-trip oracle) in two child positions at once:
    the exception the real printer raises says which child it printed first; the model must
    raise the same one"""
    name = "print-order"

    def cases(self, rng, tier):
        for e in ORDER_CASES:
            yield {"expr": dumps(expr_to_sx(e)), "src": "directed"}

    def oracle(self, pl):
        return None

    def nontrivial_key(self, pl, model, impl):
        return pl["expr"]


class ParseStream(Stream):
    """the real parser vs the model parser on the token lists of printed expressions and of
    perturbed strings (parentheses removed / inserted)"""
    name = "parse-printed"

    def cases(self, rng, tier):
        g = SyntaxGen(rng)
        n = 2500 if tier == "quick" else 40000
        for i in range(n):
            e = g.gen(rng.randint(1, 7))
            try:
                s = str(e) if isinstance(e, p.Expression) else None
            except Exception:
                s = None
            if s is None:
                continue
            if i % 3 == 1:
                s = s.replace("(", "", 1).replace(")", "", 1)
            elif i % 3 == 2 and len(s) > 3:
                k = rng.randrange(len(s))
                s = s[:k] + rng.choice(["(", ")", ",", " ", ":", "-", "not "]) + s[k:]
            yield {"text": s, "minprec": rng.choice([0, 0, 0, 5, 100, 205, 215])}

    def request(self, pl):
        toks = lex_tokens(pl["text"])
        if toks is None:
            return "(parse 0 ((sym \"$lexer-rejects$\")))"
        return f"(parse {pl['minprec']} ({' '.join(toks)}))"

    def run_impl(self, pl):
        from pymbolic.parser import Parser
        from pytools.lex import ParseError
        if lex_tokens(pl["text"]) is None:
            return "(err ParseError)"
        try:
            r = Parser()(pl["text"], pl["minprec"])
        except ParseError:
            return "(err ParseError)"
        except RecursionError:
            raise
        except Exception as ex:
            return dumps(exc_to_sx(ex))
        try:
            return dumps(expr_to_sx(r))
        except Exception as ex:
            return f"(unencodable {type(ex).__name__})"

    def agree(self, model, impl, pl):
        if "$lexer-rejects$" in self.request(pl):
            return "trivial"
        return super().agree(model, impl, pl)

    def nontrivial_key(self, pl, model, impl):
        return pl["text"] + str(pl["minprec"]) if not impl.startswith("(err") else None

    def stats(self, pl, mo, io, acc):
        k = "tree" if not io.startswith("(err") else io
        acc.setdefault("outcomes", {})
        acc["outcomes"][k] = acc["outcomes"].get(k, 0) + 1


class FragmentStream(Stream):
    """the fragment of the Lean theorems `roundtrip_current` / `roundtrip_flat_current`
    (computed by the model from the regenerated tables) against the real code: a tree INSIDE the
    proved fragment must survive the round trip of the real stringifier and parser; outside
    the fragment nothing is claimed.  The statistics say how much of the generated population the
    theorems cover."""
    name = "fragment"

    def cases(self, rng, tier):
        for tag, e in two_level():
            yield {"expr": dumps(expr_to_sx(e)), "src": "two-level:" + tag}
        for e in three_level(rng, 800 if tier == "quick" else 20000):
            yield {"expr": dumps(expr_to_sx(e)), "src": "three-level"}
        g = SyntaxGen(rng)
        for _ in range(1500 if tier == "quick" else 30000):
            yield {"expr": dumps(expr_to_sx(g.gen(rng.randint(2, 8)))), "src": "random"}
        # slices as expressions in their own right, in every context (which of them the theorems cover)
        for tag, e in slice_context_cases(rng, tier):
            if tier != "quick" or rng.random() < 0.4:
                yield {"expr": dumps(expr_to_sx(e)), "src": "slice-context"}

    def request(self, pl):
        return f"(fragment {pl['expr']})"

    def run_impl(self, pl):
        e = sx_to_expr(loads(pl["expr"]))
        return "(ok)" if roundtrip_problem(e) is None else "(fail)"

    def agree(self, model, impl, pl):
        if model in ("(in)", "(flat)"):
            return "ok" if impl == "(ok)" else "diff"
        return "trivial"

    def shrink(self, pl):
        for s in sx_shrinks(loads(pl["expr"])):
            yield {**pl, "expr": dumps(s)}

    def nontrivial_key(self, pl, model, impl):
        return pl["expr"] if model in ("(in)", "(flat)") else None

    def stats(self, pl, mo, io, acc):
        if mo is None:      # the build is broken: no model side in this run
            return
        k = mo.strip("()") + "/" + io.strip("()")
        acc[k] = acc.get(k, 0) + 1



# {{{ the lexer model (PV/Model/Lexer.lean): strings instead of token lists

class LexRawStream(Stream):
    """`pytools.lex.lex(Parser.lex_table, s)` vs the model lexer run on the regenerated table:
    every item (tag, text), whitespace included, or the index of the InvalidTokenError"""
    name = "lex-raw"

    def cases(self, rng, tier):
        for s, kind in lex_strings(rng, tier):
            yield {"text": s, "kind": kind}

    def request(self, pl):
        return f"(lexraw {codes(pl['text'])})"

    def run_impl(self, pl):
        return real_lex_raw(pl["text"])

    def shrink(self, pl):
        s = pl["text"]
        for i in range(len(s)):
            yield {**pl, "text": s[:i] + s[i + 1:]}

    def nontrivial_key(self, pl, model, impl):
        return pl["text"] if len(pl["text"]) >= 2 else None

    def stats(self, pl, mo, io, acc):
        acc[pl["kind"]] = acc.get(pl["kind"], 0) + 1
        if io.startswith("(err"):
            acc["rejected"] = acc.get("rejected", 0) + 1


class LexTokStream(LexRawStream):
    """the token list the parser starts from (whitespace dropped, `int(text)`, `parse_float(text)`
    with `repr` and exact value of the double) vs `Lexer.lexWith Generated.lexTable`"""
    name = "lex-tokens"

    def request(self, pl):
        return f"(lex {codes(pl['text'])})"

    def run_impl(self, pl):
        return real_lex_tokens(pl["text"])

    def agree(self, model, impl, pl):
        if model == impl:
            return "trivial" if model.startswith("(noclaim") else "ok"
        return "diff"


COLON_FOLLOWERS = ["", ")", ",", "]", ":", "b", "-b", "+", "*", " if c else d", " else", "=", "=b", "(", "[", ".u",
                   "not b", " and b", "1", "1.5", "True", "(b)", "[b]", "::", ":b", ",)", ", b", "))", ")]", "~b"]
COLON_FRAMES = ["a:{}", ":{}", "a:b:{}", "f(a:{})", "f(a:{}", "(a:{})", "(a:{}) + c", "v[a:{}]", "v[a:{}", "f(c, a:{})",
                "f(a:{}, c)", "f(k=a:{})", "f(k=a:{}, l=c)", "(c, a:{})", "(a:{},)", "[a:{}]", "v[c, a:{}]", "v[a:{}, c]",
                "f(:{})", "v[:{}]", "(:{})", "f(a::{})", "g[f(b, a:{})]", "f((c, a:{}))", "c if (a:{}) else d"]


def slice_texts(rng, tier):
    """texts for the parser streams: printed slices in every context of the text syntax, and a
    colon followed by every kind of token in every frame (what follows a colon decides whether the
    parser reads a bound)"""
    keep = 0.35 if tier == "quick" else 1.0
    for _tag, e in slice_context_cases(rng, "quick"):
        if rng.random() < keep:
            try:
                yield {"text": to_str(e), "minprec": rng.choice([0, 0, 0, 5, 100])}
            except Exception:
                continue
    for frame in COLON_FRAMES:
        for t in COLON_FOLLOWERS:
            if tier != "quick" or rng.random() < 0.5:
                yield {"text": frame.format(t), "minprec": 0}


class ParseStringStream(Stream):
    """`Parser()(text, min_precedence)` vs the model on the STRING (model lexer, then model parser):
    printed expressions, perturbed strings, malformed text"""
    name = "parse-string"

    def cases(self, rng, tier):
        g = LexGen(rng)
        n = 1200 if tier == "quick" else 15000
        for i in range(n):
            e = g.gen(rng.randint(1, 7))
            try:
                s = str(e) if isinstance(e, p.Expression) else None
            except Exception:
                s = None
            if s is None:
                continue
            if i % 4 == 1:
                s = s.replace("(", "", 1).replace(")", "", 1)
            elif i % 4 == 2 and len(s) > 3:
                k = rng.randrange(len(s))
                s = s[:k] + rng.choice(["(", ")", ",", " ", ":", "-", "not ", ".", "e", "1", "=", "*", "é", "!"]) + s[k:]
            elif i % 4 == 3:
                s = s.replace(" ", "") if rng.random() < 0.5 else s.replace(" ", "  \t")
            yield {"text": s, "minprec": rng.choice([0, 0, 0, 5, 100, 205, 215])}
        for s, kind in lex_strings(rng, "quick"):
            if kind in ("edge", "numeric"):
                yield {"text": s, "minprec": 0}
        yield from slice_texts(rng, tier)

    def request(self, pl):
        return f"(parsestr {pl['minprec']} {codes(pl['text'])})"

    def run_impl(self, pl):
        import warnings

        import pytools.lex
        from pymbolic.parser import Parser
        try:
            with warnings.catch_warnings():
                warnings.simplefilter("ignore")
                r = Parser()(pl["text"], pl["minprec"])
        except pytools.lex.ParseError:
            return "(err ParseError)"
        except pytools.lex.InvalidTokenError as ex:
            return f"(err InvalidTokenError {ex.index})"
        except RecursionError:
            raise
        except ValueError as ex:
            return "(err FloatValueError)" if "float" in str(ex) else "(err ValueError)"
        except Exception as ex:
            return dumps(exc_to_sx(ex))
        try:
            return dumps(expr_to_sx(r))
        except Exception as ex:
            return f"(unencodable {type(ex).__name__})"

    def agree(self, model, impl, pl):
        # the model converts every float literal when it lexes; the code only when the parser
        # reaches it (a parse error before it wins): no claim on letter-tagged literals
        if model in ("(err FloatValueError)", "(err AssertionError)") or model.startswith("(noclaim"):
            return "ok" if model == impl else "trivial"
        return super().agree(model, impl, pl)

    def shrink(self, pl):
        s = pl["text"]
        for i in range(len(s)):
            yield {**pl, "text": s[:i] + s[i + 1:]}

    def nontrivial_key(self, pl, model, impl):
        return pl["text"] + str(pl["minprec"]) if not impl.startswith("(err") else None

    def stats(self, pl, mo, io, acc):
        k = "tree" if not io.startswith("(err") else io.split(" ")[1].rstrip(")")
        acc.setdefault("outcomes", {})
        acc["outcomes"][k] = acc["outcomes"].get(k, 0) + 1


def lexical_key(m):
    """classification of a round-trip failure whose smallest failing subterm is `m`, when the
    failure is the LEXER's (the string is not split into the tokens the printer wrote)"""
    if isinstance(m, p.Variable):
        if m.name in ("True", "False"):
            return "roundtrip-lex:Variable>constant-name"
        if m.name.startswith(("True", "False")):
            return "roundtrip-lex:Variable>True-prefix"
        return "roundtrip-lex:Variable>name"
    if isinstance(m, p.Lookup):
        if type(m.aggregate) is int and m.aggregate >= 0:
            return "roundtrip-lex:Lookup>int"
        if m.name.startswith(("True", "False")):
            return "roundtrip-lex:Lookup>True-prefix"
    if isinstance(m, p.CallWithKwargs) and any(k.startswith(("True", "False")) for k in m.kw_parameters):
        return "roundtrip-lex:CallWithKwargs>True-prefix"
    return None


class StringFragmentStream(Stream):
    """the fragment of `PV.C06.roundtrip_string_current` (token-level fragment AND lexical
    safety, both computed by the model from the regenerated tables) against the real code, on trees
    with names over the whole identifier alphabet, arbitrary float constants and numeric
    literals in aggregate position: inside the fragment the real round trip (on the STRING) must
    succeed.  The oracle is the property itself; lexical failures get their own keys."""
    name = "string-fragment"

    DIRECTED = [p.Lookup(1, "u"), p.Lookup(0, "real"), p.Lookup(12, "e5"), p.Lookup(2.5, "u"),
                p.Lookup(-1, "u"), p.Lookup(True, "u"), p.Lookup(1e20, "u"), p.Lookup(1e-7, "u"),
                p.Variable("Truex"), p.Variable("False_"), p.Variable("Trueish"),
                p.Sum((p.Variable("Truex"), 1)), p.Lookup(p.Variable("x"), "Truex"),
                p.CallWithKwargs(p.Variable("f"), (True, p.Variable("Falsex")), {"Truex": 1, "False_": False}),
                p.LogicalAnd((p.Variable("Trueish"), True)), p.If(True, p.Variable("Truex"), p.Variable("Falsey")),
                p.Call(1, (p.Variable("x"),)), p.Subscript(2, p.Variable("x")),
                p.Product((2, p.Variable("e5"))), p.Power(2, p.Variable("e")), p.Power(p.Variable("x"), 1e-7),
                p.Sum((1e22, p.Variable("j"))), p.Quotient(1.5e300, 5e-324),
                p.CallWithKwargs(p.Variable("f"), (), {"e5": 1.0}), p.If(p.Variable("iffy"), p.Variable("elsewhere"), p.Variable("nothing")),
                p.LogicalAnd((p.Variable("android"), p.Variable("order"))), p.LogicalNot(p.Variable("nothing")),
                p.Subscript(p.Variable("v"), p.Slice((1.5, None, p.Variable("e")))), p.Lookup(p.Lookup(1.5, "e"), "e"),
                p.Product((p.Lookup(3, "x"), 2)), p.Lookup(p.Power(2, 3), "x"), p.Lookup(p.Sum((1, 2)), "x")]

    def cases(self, rng, tier):
        for e in self.DIRECTED:
            yield {"expr": dumps(expr_to_sx(e)), "src": "directed"}
        for nm in LEX_NAMES:
            yield {"expr": dumps(expr_to_sx(p.Variable(nm))), "src": "names"}
            yield {"expr": dumps(expr_to_sx(p.Lookup(p.Variable("v"), nm))), "src": "names"}
        g = LexGen(rng)
        for i in range(1500 if tier == "quick" else 10000):
            e = g.gen(rng.randint(1, 7))
            if i % 4:
                e = tidy(e)
            yield {"expr": dumps(expr_to_sx(e)), "src": "random" if i % 4 == 0 else "tidy"}

    def request(self, pl):
        return f"(fragmentstr {pl['expr']})"

    def run_impl(self, pl):
        e = sx_to_expr(loads(pl["expr"]))
        return "(ok)" if roundtrip_problem(e) is None else "(fail)"

    def agree(self, model, impl, pl):
        m = loads(model)
        if not isinstance(m, list) or len(m) != 3:
            return "diff"
        frag, safe, adj = (str(x) for x in m)
        # the theorem's hypotheses hold: the real round trip must succeed
        if frag in ("in", "flat") and (safe == "true" or adj == "true"):
            return "ok" if impl == "(ok)" else "diff"
        # lex_render: lexical safety implies the piece-level check
        if safe == "true" and adj != "true":
            return "diff"
        return "trivial"

    def oracle(self, pl):
        e = sx_to_expr(loads(pl["expr"]))
        if roundtrip_problem(e) is None:
            return None
        m = minimal_failing_subterm(e, lambda t: roundtrip_problem(t) is not None)
        key = lexical_key(m) if m is not None else None
        if key is None:
            # not lexical: the classification of PrintStream, on the (small) failing subterm
            key, m = classify(m if m is not None else e)
            key = lexical_key(m) or key
        return Failure(key, f"{m!r}: {roundtrip_problem(m)}", {**pl, "expr": dumps(expr_to_sx(m))})

    def shrink(self, pl):
        for s in sx_shrinks(loads(pl["expr"])):
            yield {**pl, "expr": dumps(s)}

    def nontrivial_key(self, pl, model, impl):
        if model is None:
            return None
        m = loads(model)
        ok = isinstance(m, list) and len(m) == 3 and str(m[0]) in ("in", "flat") and "true" in (str(m[1]), str(m[2]))
        return pl["expr"] if ok else None

    def stats(self, pl, mo, io, acc):
        if mo is None:
            return
        k = mo.strip("()").replace(" ", "/") + "/" + io.strip("()")
        acc[k] = acc.get(k, 0) + 1


# {{{ T-gen of the printer (extract/stringifier.py, PV/Model/StrTable.lean)

def _table_trees(rng, tier):
    from ..gen import ExprGen
    for i, (tag, e) in enumerate(two_level()):
        if tier != "quick" or i % 3 == 0:
            yield "two-level", e
    a, b, f = p.Variable("a"), p.Variable("b"), p.Variable("f")
    directed = [
        p.Derivative(p.Sum((f, 1)), ("x", "y")), p.Derivative(f, ()), p.Derivative(p.Quotient(a, b), ("x",)),
        p.Product((p.Derivative(f, ("x",)), a)), p.Power(p.Derivative(f, ("x",)), 2),
        p.Substitution(p.Sum((f, 1)), ("x", "y"), (1, p.Product((b, 2)))), p.Substitution(f, (), ()),
        p.Substitution(f, ("x", "y"), (a,)), p.Substitution(f, ("x",), (a, b)),
        p.Product((p.Substitution(f, ("x",), (p.If(a, b, f),)), a)),
        p.Min((a, p.Max((b, 1)))), p.Min((a,)), p.Max(()), p.Sum((p.Min((a, b)), 1)),
        p.CommonSubexpression(p.Sum((a, b)), "pf"), p.Product((p.CommonSubexpression(p.Quotient(a, b)), b)),
        p.Quotient(p.CommonSubexpression(p.Product((a, b))), b),
        p.Wildcard(), p.DotWildcard("x"), p.StarWildcard("x"), p.FunctionSymbol(), p.NaN(),
        p.Call(p.FunctionSymbol(), (a,)), p.Sum((p.NaN(), p.Wildcard())),
        (a,), (), (a, b), [a], [], [(a,)], ((a,),), p.Call(f, ((a,),)), p.Subscript(a, (b,)), p.Subscript(a, ()),
        p.Subscript(a, [b, f]), p.Subscript(a, p.Slice((None, None))), p.Subscript(a, p.Slice(())),
        p.Subscript(a, p.Slice((None,))), p.Slice((a, None, b)), p.Sum((p.Slice((a, b)), 1)),
        -1, 1, True, False, -2.5, 1e-05, 1e+20, -1e-07, p.Power(-1, a), p.Power(a, -1), p.Power(1e-05, a),
        p.Power(-2.5, a), p.Sum((-1, a)), p.Product((-1, a)), p.Quotient(-1, 1e+20), p.BitwiseNot(-1),
        p.LogicalNot(True), p.Call(-1, (-2,)), p.Subscript(-1, -2), p.Lookup(-1, "u"), p.Comparison(-1, "<", -2),
        p.LeftShift(-1, -2), p.If(-1, -2, -3),
        p.Sum(()), p.Product(()), p.Sum((a,)), p.BitwiseOr(()), p.LogicalAnd((a,)),
        p.CallWithKwargs(f, (a,), immutabledict({"k": b, "l": p.If(a, b, f)})),
        p.CallWithKwargs(f, (), immutabledict()), "s", None, p.Sum((a, None)), p.Sum((a, "s")),
    ]
    for e in directed + ORDER_CASES:
        yield "directed", e
    g = SyntaxGen(rng)
    for _ in range(500 if tier == "quick" else 6000):
        yield "syntax", g.gen(rng.randint(1, 7))
    eg = ExprGen(rng, malformed=0.04)
    for _ in range(1100 if tier == "quick" else 12000):
        yield "all-nodes", eg.gen(rng.choice(["num", "int", "bool", "any", "any"]), rng.randint(1, 5))


class TableStrStream(Stream):
    """the table-driven printer `c06tStr` (every handler of the regenerated table run by the
    compiled interpreter, `Substitution` / `Derivative` included) vs the real printer, on the
    STRING: ties the reader extract/stringifier.py and the meaning of the handler language to the
    code.  No separate oracle: the round-trip oracle of the `print` stream judges the strings."""
    name = "table-str"

    def cases(self, rng, tier):
        for src, e in _table_trees(rng, tier):
            try:
                sx = dumps(expr_to_sx(e))
            except Exception:
                continue
            yield {"expr": sx, "src": src}

    def request(self, pl):
        return f"(c06t-str false {pl['expr']})"

    def run_impl(self, pl):
        e = sx_to_expr(loads(pl["expr"]))
        try:
            s = to_str(e)
        except Exception as ex:
            return dumps(exc_to_sx(ex))
        return q(s)

    def agree(self, model, impl, pl):
        if model.startswith("(noclaim"):
            return "trivial"
        if model.startswith("(err"):
            return "ok" if model == impl else "diff"
        m = loads(model)
        return "ok" if isinstance(m, list) and m and q(m[0]) == impl else "diff"

    def shrink(self, pl):
        for s in sx_shrinks(loads(pl["expr"])):
            yield {**pl, "expr": dumps(s)}

    def nontrivial_key(self, pl, model, impl):
        return pl["expr"] if not impl.startswith("(err") else None

    def stats(self, pl, mo, io, acc):
        acc[pl["src"]] = acc.get(pl["src"], 0) + 1
        if io.startswith("(err"):
            acc["raises"] = acc.get("raises", 0) + 1


def _dispatch_probe():
    """a StringifyMapper whose every handler only reports its (attribute) name: which handler the
    REAL `Mapper.__call__` / `map_foreign` reaches for an object"""
    import inspect

    from pymbolic.mapper.stringifier import StringifyMapper

    def mk(name):
        def handler(self, expr, *args, **kwargs):
            return name
        return handler
    ns = {n: mk(n) for n in dir(StringifyMapper)
          if n.startswith("map_") and n != "map_foreign" and inspect.isfunction(getattr(StringifyMapper, n))}
    return type("DispatchProbe", (StringifyMapper,), ns)


class TableDispatchStream(Stream):
    """the handler the regenerated table sends an object to vs the handler the real dispatch
    reaches (every node class of the IR, every foreign kind)"""
    name = "table-dispatch"

    def cases(self, rng, tier):
        from ..gen import ExprGen
        seen = set()
        eg = ExprGen(rng, malformed=0.05)
        trees = [e for _, e in _table_trees(rng, "quick")][:400]
        trees += [eg.gen("any", 2) for _ in range(300)]
        for e in trees:
            k = type(e).__name__
            if k in seen and rng.random() < 0.9:
                continue
            seen.add(k)
            try:
                yield {"expr": dumps(expr_to_sx(e)), "kind": k}
            except Exception:
                continue

    def request(self, pl):
        return f"(c06t-dispatch {pl['expr']})"

    def run_impl(self, pl):
        from pymbolic.mapper.stringifier import PREC_NONE
        e = sx_to_expr(loads(pl["expr"]))
        try:
            return f"(handler {_dispatch_probe()()(e, PREC_NONE)})"
        except ValueError as ex:
            return "(foreign-error ValueError)" if "invalid foreign object" in str(ex) else dumps(exc_to_sx(ex))
        except Exception as ex:
            return dumps(exc_to_sx(ex))

    def nontrivial_key(self, pl, model, impl):
        return pl["kind"]

    def stats(self, pl, mo, io, acc):
        acc[pl["kind"]] = acc.get(pl["kind"], 0) + 1

# }}}


def probe_lexical():
    """the lexical findings, replayed on the real code: `1.u` (known) and the repaired `True` /
    `False` rules without `\\b` (fixed: a VIOLATION if the defect returns)"""
    out = []
    f, x = p.Variable("f"), p.Variable("x")
    for key, e in (("roundtrip-lex:Lookup>int", p.Lookup(1, "u")),
                   ("roundtrip-lex:Variable>True-prefix", p.Variable("Truex")),
                   ("roundtrip-lex:Variable>True-prefix", p.Sum((p.Variable("False_"), 1))),
                   ("roundtrip-lex:Lookup>True-prefix", p.Lookup(x, "Falsey")),
                   ("roundtrip-lex:CallWithKwargs>True-prefix",
                    p.CallWithKwargs(f, (True, p.Variable("Falsex")), {"Truex": 1}))):
        prob = roundtrip_problem(e)
        out.append((key, prob is not None, f"{e!r}: {prob}"))
    return out

# }}}


def probe_slices():
    """slices as expressions in their own right: the known findings about a slice / a conditional
    as a BOUND of a slice, replayed on the real code"""
    a, b, c, v = (p.Variable(n) for n in "abcv")
    x, y, z = (p.Variable(n) for n in "xyz")
    seen = {}
    for key, e in (("roundtrip:Slice>Slice", p.Slice((p.Slice((a, b)), c))),
                   ("roundtrip:Slice>Slice", p.Call(v, (p.Slice((p.Slice((a, None)), c)),))),
                   ("roundtrip:Subscript>Slice", p.Subscript(v, p.Slice((p.Slice((a, b)), c)))),
                   ("roundtrip:Slice>If", p.Slice((p.If(c, x, y), z))),
                   ("roundtrip:Slice>If", p.Call(v, (p.Slice((p.If(c, x, y), z)), a)))):
        prob = roundtrip_problem(e)
        got = classify(e)[0] if prob is not None else None
        if key not in seen or (prob is not None and got == key and not seen[key][1]):
            seen[key] = (key, prob is not None and got == key, f"{e!r}: {prob}")
    return list(seen.values())


PROP = Prop(
    id="C06",
    title="Printing an expression and parsing the text gives the expression back",
    lean_targets=["PV.Properties.C06", "PV.Properties.C06Table", "PV.Properties.C06Value",
                  "PV.Properties.C06Slices"],
    extractors=[extract],
    streams=[PrintStream(), PrintOrderStream(), ParseStream(), FragmentStream(), LexRawStream(), LexTokStream(),
             ParseStringStream(), StringFragmentStream(), TableStrStream(), TableDispatchStream()],
    probes=[probe_lexical, probe_slices],
    trusted_base=["Lean 4.33 kernel; axioms propext, Classical.choice, Quot.sound only",
                  "the lexer is modelled (PV/Model/Lexer.lean) and run on the rule table regenerated "
                  "by extract/lex.py; Python's `re` (the meaning of the eight character-class "
                  "expressions), `float()` and `repr(float)` are tied by the lex-raw / lex-tokens "
                  "streams only",
                  "extract/prec.py (precedence constants read from the live modules)",
                  "extract/stringifier.py (the reader of the printer's handler bodies) and the meaning "
                  "of the handler language (PV/Model/StrTable.lean: literal text / str(constant) / "
                  "attribute strings as printer pieces) are tied by the table-str / table-dispatch "
                  "streams: the compiled table interpreter on the regenerated table vs the real printer"],
    level_text="Lean theorems: for every tree of the decidable fragment InFragment (computed from the "
               "REGENERATED precedence tables) the printer's text, read by the real-fuel parser model, "
               "is the tree again modulo flattening of sums/products and prints to the same pieces "
               "(roundtrip_partial / roundtrip_current); the same on STRINGS through the modelled "
               "lexer (lex_render, roundtrip_string_partial / _current; LexSafe decidable); print_total, "
               "str_idempotent, str_flatten_invariant; exactly 23 (position, child class) pairs fail "
               "the local compatibility condition (bad_triples_current, decide) = the known findings. "
               "Slices with an omitted last bound (outside that fragment) round-trip in each of 66 contexts "
               "x 9 expressible shapes, whatever follows the last colon (slice_contexts_roundtrip_current / "
               "_string_current, decide on the models with the regenerated tables). The value half: "
               "roundtrip_value_partial / roundtrip_value_current (the reparsed tree denotes the same "
               "value or error in every environment; PV/Proofs/FlattenDen.lean). "
               "Printer, parser and lexer are tied by T-gen: every StringifyMapper handler, every "
               "parser branch and the lexer rule table are re-read from the source on every run and "
               "the hand-written models are proved equal to the table interpreters for all inputs "
               "(strE_eq_table_current, parse_eq_table_current, lex_table_current).",
    level_note="'Same value in every environment' is proved: den env (flattenAssoc e) = den env e for "
               "every tree and environment (flatten_same_value: same value of the same Python type or "
               "the same error; floats are one abstract value, nothing is claimed about rounding under "
               "re-association), hence roundtrip_value_current: the reparsed tree has the same "
               "denotation in every environment. Partial: Min/Max/CSE/wildcards, n-ary bitwise/logical nodes with "
               "!= 2 operands and the 23 failing parent/child pairs are outside the fragment "
               "(witnesses + known findings). Trusted: Lean kernel; the meaning of the eight "
               "character-class regular expressions, float() and repr(float) (hand-modelled, tied by "
               "the lex streams); the readers extract/stringifier.py, parser.py, lex.py, prec.py.",
    technique="Lean 4 generic Pratt printer/parser round-trip theorem over regenerated precedence, "
              "handler, parser and lexer tables (decide instances + interpreter-equals-model theorems) "
              "+ differential correspondence on printed trees, token lists and strings",
    design_ref="DESIGN.md §4 C06",
)
