"""C09 — dependency, node-count and flop analyses are exact."""
from __future__ import annotations

import itertools

import pymbolic.primitives as p

from ..core import Failure, Prop, Stream
from ..gen import ExprGen, node_types, size
from ..oracles import scan
from ..sexp import A, dumps, exc_to_sx, expr_to_sx, loads, sx_shrinks, sx_to_expr

FLAGSETS = [dict(subscripts=s, lookups=l, calls=c, cses=cs)
            for s in (True, False) for l in (True, False)
            for c in (True, False, "descend_args") for cs in (True, False)]


def err_sx(ex):
    from pymbolic.mapper import UnsupportedExpressionError
    if isinstance(ex, (UnsupportedExpressionError, NotImplementedError)):
        return "(err Unsupported)"
    if isinstance(ex, ValueError) and "foreign" in str(ex):
        return "(err Foreign)"
    if isinstance(ex, TypeError):
        return "(err TypeError)"
    return f"(err {type(ex).__name__})"


def flags_req(fl):
    c = {True: "yes", False: "no", "descend_args": "descend"}[fl["calls"]]
    b = lambda v: "true" if v else "false"  # noqa: E731
    return f"({b(fl['subscripts'])} {b(fl['lookups'])} {c} {b(fl['cses'])})"


def make_mapper(fl, cached, composite=None):
    from pymbolic.mapper.dependency import CachedDependencyMapper, DependencyMapper
    cls = CachedDependencyMapper if cached else DependencyMapper
    if composite is not None:
        return cls(composite_leaves=composite, include_cses=fl["cses"])
    return cls(include_subscripts=fl["subscripts"], include_lookups=fl["lookups"],
               include_calls=fl["calls"], include_cses=fl["cses"])


class DepStream(Stream):
    name = "dependencies"

    def cases(self, rng, tier):
        n = 1500 if tier == "quick" else 30000
        g = ExprGen(rng, cse=0.15, floats=0.0)
        for i in range(n):
            e = g.gen(rng.choice(["num", "any", "bool", "int"]), rng.randint(1, 5))
            fl = FLAGSETS[i % len(FLAGSETS)] if tier == "quick" else rng.choice(FLAGSETS)
            comp = None
            if i % 11 == 0:
                comp = bool(i % 2)
                fl = dict(fl, subscripts=comp, lookups=comp, calls=comp)
            yield {"expr": dumps(expr_to_sx(e)), "flags": fl, "cached": bool(i % 2),
                   "composite": comp}
        # every flag set on a fixed tree that contains every composite kind nested in each other
        x, f, a, r = (p.Variable(v) for v in "xfar")
        nest = p.Sum((p.Subscript(a, p.Call(f, (x, p.Lookup(r, "u")))),
                      p.Call(f, (p.Subscript(a, x),)),
                      p.CommonSubexpression(p.Lookup(p.Subscript(a, 1), "v")),
                      p.CallWithKwargs(f, (x,), {"k": p.Subscript(a, p.Variable("y"))}),
                      p.Lookup(p.Call(f, (p.Variable("z"),)), "w"),
                      p.Slice((x, None, p.Variable("s")))))
        for fl in FLAGSETS:
            for cached in (False, True):
                yield {"expr": dumps(expr_to_sx(nest)), "flags": fl, "cached": cached,
                       "composite": None}

    def request(self, pl):
        c = "true" if pl["cached"] else "false"
        return f"(deps {flags_req(pl['flags'])} {c} {pl['expr']})"

    def run_impl(self, pl):
        e = sx_to_expr(loads(pl["expr"]))
        m = make_mapper(pl["flags"], pl["cached"], pl["composite"])
        try:
            res = m(e)
        except RecursionError:
            raise
        except Exception as ex:
            return err_sx(ex)
        return "(" + " ".join(sorted(dumps(expr_to_sx(d)) for d in res)) + ")"

    def oracle(self, pl):
        e = sx_to_expr(loads(pl["expr"]))
        m = make_mapper(pl["flags"], pl["cached"], pl["composite"])
        try:
            got = m(e)
        except Exception:
            return None    # node types the analysis does not handle are reported by raising
        fl = pl["flags"]
        want = scan.dependencies(e, fl["subscripts"], fl["lookups"], fl["calls"], fl["cses"])
        if got != want:
            missing = [str(d) for d in want - got]
            extra = [str(d) for d in got - want]
            return Failure("deps-differ", f"missing {missing} extra {extra} flags {fl}", pl)
        return None

    def shrink(self, pl):
        for s in sx_shrinks(loads(pl["expr"])):
            yield {**pl, "expr": dumps(s)}

    def nontrivial_key(self, pl, model, impl):
        return pl["expr"] + flags_req(pl["flags"]) if len(impl) > 2 else None

    def stats(self, pl, mo, io, acc):
        nt = acc.setdefault("node_types", {})
        for k, v in node_types(sx_to_expr(loads(pl["expr"]))).items():
            nt[k] = nt.get(k, 0) + v
        k = "set" if not io.startswith("(err") else io
        acc.setdefault("outcomes", {})
        acc["outcomes"][k] = acc["outcomes"].get(k, 0) + 1


class CountStream(Stream):
    """node counter and flop counters (plain: one call; CSE-aware: successive calls on one counter)"""
    name = "counts"

    def cases(self, rng, tier):
        n = 1200 if tier == "quick" else 20000
        g = ExprGen(rng, cse=0.2, floats=0.02)
        for i in range(n):
            es = [g.gen(rng.choice(["num", "num", "any", "int"]), rng.randint(1, 5))
                  for _ in range(rng.randint(1, 3))]
            if len(es) > 1 and rng.random() < 0.5:
                es.append(es[0])
            what = ["numnodes", "flops", "flopscse"][i % 3]
            yield {"what": what, "exprs": [dumps(expr_to_sx(e)) for e in es]}

    def request(self, pl):
        if pl["what"] == "numnodes":
            return f"(numnodes {pl['exprs'][0]})"
        aware = "true" if pl["what"] == "flopscse" else "false"
        return f"(flops {aware} ({' '.join(pl['exprs'])}))"

    def _run(self, pl):
        from pymbolic.mapper.analysis import get_num_nodes
        from pymbolic.mapper.flop_counter import CSEAwareFlopCounter, FlopCounter
        es = [sx_to_expr(loads(s)) for s in pl["exprs"]]
        if pl["what"] == "numnodes":
            return [lambda: get_num_nodes(es[0])], es
        if pl["what"] == "flops":
            return [lambda e=e: FlopCounter()(e) for e in es], es
        m = CSEAwareFlopCounter()
        return [lambda e=e: m(e) for e in es], es

    def run_impl(self, pl):
        thunks, _ = self._run(pl)
        outs = []
        for t in thunks:
            try:
                outs.append(str(t()))
            except RecursionError:
                raise
            except Exception as ex:
                outs.append(err_sx(ex))
                break      # the counter instance is discarded after an exception
        if pl["what"] == "numnodes":
            return outs[0]
        return "(" + " ".join(outs) + ")"

    def oracle(self, pl):
        thunks, es = self._run(pl)
        seen = set()
        for t, e in zip(thunks, es):
            try:
                got = t()
            except Exception:
                if pl["what"] == "flopscse":
                    return None
                continue
            if pl["what"] == "numnodes":
                want = len({(type(s), s) for s in scan.subterms(e)})
            elif pl["what"] == "flops":
                want = scan.count_flops(e)
            else:
                want = scan.count_flops(e, seen)
            if got != want:
                return Failure(pl["what"] + "-differs", f"{pl['what']} gives {got}, independent count {want}", pl)
        return None

    def shrink(self, pl):
        ex = pl["exprs"]
        for i in range(len(ex)):
            if len(ex) > 1:
                yield {**pl, "exprs": ex[:i] + ex[i + 1:]}
            for s in sx_shrinks(loads(ex[i])):
                yield {**pl, "exprs": ex[:i] + [dumps(s)] + ex[i + 1:]}

    def nontrivial_key(self, pl, model, impl):
        return pl["what"] + " ".join(pl["exprs"]) if "err" not in impl else None

    def stats(self, pl, mo, io, acc):
        acc[pl["what"]] = acc.get(pl["what"], 0) + 1
        if "err" in io:
            acc["errors"] = acc.get("errors", 0) + 1


PROP = Prop(
    id="C09",
    title="Dependency, node-count and flop analyses are exact",
    lean_targets=["PV.Properties.C09"],
    theorems=[],
    streams=[DepStream(), CountStream()],
    trusted_base=["Lean 4.33 kernel; axioms propext, Classical.choice, Quot.sound only",
                  "harness serialisation; Python set semantics modelled as duplicate-free lists under =="],
    level_text='Lean theorems (unbounded, all flag settings): the dependency analysis returns exactly the occurrences selected by the flags (soundness: every result is an outermost selected subterm; completeness up to Python == on well-formed trees), with all composite flags off it returns exactly the free variables, and evaluation depends only on those (coincidence lemma); the flop counter equals an independent operation count and the CSE-aware counter counts a seen wrapper as 0. Tied to DependencyMapper (plain/cached, composite_leaves), get_num_nodes, FlopCounter, CSEAwareFlopCounter by correspondence.',
    level_note='Trusted: Lean kernel; harness; Python sets modelled as duplicate-free lists under == with left-biased union. Completeness needs well-formed trees (no nan constants, duplicate-free keyword names). Node counting is tied by correspondence and the independent scan only.',
    technique='Lean 4 proofs about the traversal model (Occurs relation, coincidence lemma) + differential correspondence + independent dataclass-field scan',
    design_ref="DESIGN.md §4 C09",
)
