"""C09 — dependency, node-count and flop analyses are exact."""
from __future__ import annotations

import itertools

import pymbolic.primitives as p

from ..core import Failure, Prop, Stream
from ..gen import ExprGen, node_types, size
from ..oracles import scan
from ..sexp import A, dumps, exc_to_sx, expr_to_sx, loads, sx_shrinks, sx_to_expr

FLAGSETS = [dict(subscripts=s, lookups=l, calls=c, cses=cs)
            for s in (True, False) for l in (True, False)
            for c in (True, False, "descend_args") for cs in (True, False)]


def err_sx(ex):
    from pymbolic.mapper import UnsupportedExpressionError
    if isinstance(ex, (UnsupportedExpressionError, NotImplementedError)):
        return "(err Unsupported)"
    if isinstance(ex, ValueError) and "foreign" in str(ex):
        return "(err Foreign)"
    if isinstance(ex, TypeError):
        return "(err TypeError)"
    return f"(err {type(ex).__name__})"


def flags_req(fl):
    c = {True: "yes", False: "no", "descend_args": "descend"}[fl["calls"]]
    b = lambda v: "true" if v else "false"  # noqa: E731
    return f"({b(fl['subscripts'])} {b(fl['lookups'])} {c} {b(fl['cses'])})"


def make_mapper(fl, cached, composite=None):
    from pymbolic.mapper.dependency import CachedDependencyMapper, DependencyMapper
    cls = CachedDependencyMapper if cached else DependencyMapper
    if composite is not None:
        return cls(composite_leaves=composite, include_cses=fl["cses"])
    return cls(include_subscripts=fl["subscripts"], include_lookups=fl["lookups"],
               include_calls=fl["calls"], include_cses=fl["cses"])


class DepStream(Stream):
    name = "dependencies"

    def cases(self, rng, tier):
        n = 1500 if tier == "quick" else 30000
        g = ExprGen(rng, cse=0.15, floats=0.0)
        for i in range(n):
            e = g.gen(rng.choice(["num", "any", "bool", "int"]), rng.randint(1, 5))
            fl = FLAGSETS[i % len(FLAGSETS)] if tier == "quick" else rng.choice(FLAGSETS)
            comp = None
            if i % 11 == 0:
                comp = bool(i % 2)
                fl = dict(fl, subscripts=comp, lookups=comp, calls=comp)
            yield {"expr": dumps(expr_to_sx(e)), "flags": fl, "cached": bool(i % 2),
                   "composite": comp}
        # every flag set on a fixed tree that contains every composite kind nested in each other
        x, f, a, r = (p.Variable(v) for v in "xfar")
        nest = p.Sum((p.Subscript(a, p.Call(f, (x, p.Lookup(r, "u")))),
                      p.Call(f, (p.Subscript(a, x),)),
                      p.CommonSubexpression(p.Lookup(p.Subscript(a, 1), "v")),
                      p.CallWithKwargs(f, (x,), {"k": p.Subscript(a, p.Variable("y"))}),
                      p.Lookup(p.Call(f, (p.Variable("z"),)), "w"),
                      p.Slice((x, None, p.Variable("s")))))
        for fl in FLAGSETS:
            for cached in (False, True):
                yield {"expr": dumps(expr_to_sx(nest)), "flags": fl, "cached": cached,
                       "composite": None}

    def request(self, pl):
        c = "true" if pl["cached"] else "false"
        return f"(deps {flags_req(pl['flags'])} {c} {pl['expr']})"

    def run_impl(self, pl):
        e = sx_to_expr(loads(pl["expr"]))
        m = make_mapper(pl["flags"], pl["cached"], pl["composite"])
        try:
            res = m(e)
        except RecursionError:
            raise
        except Exception as ex:
            return err_sx(ex)
        return "(" + " ".join(sorted(dumps(expr_to_sx(d)) for d in res)) + ")"

    def oracle(self, pl):
        e = sx_to_expr(loads(pl["expr"]))
        m = make_mapper(pl["flags"], pl["cached"], pl["composite"])
        try:
            got = m(e)
        except Exception:
            return None    # node types the analysis does not handle are reported by raising
        fl = pl["flags"]
        want = scan.dependencies(e, fl["subscripts"], fl["lookups"], fl["calls"], fl["cses"])
        if got != want:
            missing = [str(d) for d in want - got]
            extra = [str(d) for d in got - want]
            return Failure("deps-differ", f"missing {missing} extra {extra} flags {fl}", pl)
        return None

    def shrink(self, pl):
        for s in sx_shrinks(loads(pl["expr"])):
            yield {**pl, "expr": dumps(s)}

    def nontrivial_key(self, pl, model, impl):
        return pl["expr"] + flags_req(pl["flags"]) if len(impl) > 2 else None

    def stats(self, pl, mo, io, acc):
        nt = acc.setdefault("node_types", {})
        for k, v in node_types(sx_to_expr(loads(pl["expr"]))).items():
            nt[k] = nt.get(k, 0) + v
        k = "set" if not io.startswith("(err") else io
        acc.setdefault("outcomes", {})
        acc["outcomes"][k] = acc["outcomes"].get(k, 0) + 1


class CountStream(Stream):
    """node counter and flop counters (plain: one call; CSE-aware: successive calls on one counter)"""
    name = "counts"

    def cases(self, rng, tier):
        n = 1200 if tier == "quick" else 20000
        g = ExprGen(rng, cse=0.2, floats=0.02)
        for i in range(n):
            es = [g.gen(rng.choice(["num", "num", "any", "int"]), rng.randint(1, 5))
                  for _ in range(rng.randint(1, 3))]
            if len(es) > 1 and rng.random() < 0.5:
                es.append(es[0])
            what = ["numnodes", "flops", "flopscse"][i % 3]
            yield {"what": what, "exprs": [dumps(expr_to_sx(e)) for e in es]}

    def request(self, pl):
        if pl["what"] == "numnodes":
            return f"(c09count {pl['exprs'][0]})"
        aware = "true" if pl["what"] == "flopscse" else "false"
        return f"(flops {aware} ({' '.join(pl['exprs'])}))"

    def _run(self, pl):
        from pymbolic.mapper.analysis import get_num_nodes
        from pymbolic.mapper.flop_counter import CSEAwareFlopCounter, FlopCounter
        es = [sx_to_expr(loads(s)) for s in pl["exprs"]]
        if pl["what"] == "numnodes":
            return [lambda: get_num_nodes(es[0])], es
        if pl["what"] == "flops":
            return [lambda e=e: FlopCounter()(e) for e in es], es
        m = CSEAwareFlopCounter()
        return [lambda e=e: m(e) for e in es], es

    def run_impl(self, pl):
        thunks, _ = self._run(pl)
        outs = []
        for t in thunks:
            try:
                outs.append(str(t()))
            except RecursionError:
                raise
            except Exception as ex:
                outs.append(err_sx(ex))
                break      # the counter instance is discarded after an exception
        if pl["what"] == "numnodes":
            return outs[0]
        return "(" + " ".join(outs) + ")"

    def oracle(self, pl):
        thunks, es = self._run(pl)
        seen = set()
        for t, e in zip(thunks, es):
            try:
                got = t()
            except Exception:
                if pl["what"] == "flopscse":
                    return None
                continue
            if pl["what"] == "numnodes":
                f = numnodes_failure(e, got, pl)
                if f is not None:
                    return f
                continue
            elif pl["what"] == "flops":
                want = scan.count_flops(e)
            else:
                want = scan.count_flops(e, seen)
            if got != want:
                return Failure(pl["what"] + "-differs", f"{pl['what']} gives {got}, independent count {want}", pl)
        return None

    def shrink(self, pl):
        ex = pl["exprs"]
        for i in range(len(ex)):
            if len(ex) > 1:
                yield {**pl, "exprs": ex[:i] + ex[i + 1:]}
            for s in sx_shrinks(loads(ex[i])):
                yield {**pl, "exprs": ex[:i] + [dumps(s)] + ex[i + 1:]}

    def nontrivial_key(self, pl, model, impl):
        return pl["what"] + " ".join(pl["exprs"]) if "err" not in impl else None

    def stats(self, pl, mo, io, acc):
        acc[pl["what"]] = acc.get(pl["what"], 0) + 1
        if "err" in io:
            acc["errors"] = acc.get("errors", 0) + 1


def numnodes_failure(e, got, pl):
    """The property's sentence "the node counter equals the number of distinct subexpressions",
    read on the real code.  "Distinct" has one meaning when no two subexpressions are confusable
    (then the number of classes under Python `==` alone equals the number of structurally
    different subterms, constant types included) and the count must be exactly that; on
    confusable trees (`1` / `1.0` / `True` below equal parents, `0.0` / `-0.0`, …) every count
    between the coarsest and the finest reading is accepted."""
    coarse, fine = scan.distinct_counts(e)
    if coarse <= got <= fine:
        return None
    if coarse == fine:
        return Failure("numnodes-differs",
                       f"numnodes gives {got}, independent count of distinct subexpressions {fine}", pl)
    return Failure("numnodes-differs",
                   f"numnodes gives {got}, outside every reading of 'distinct': [{coarse}, {fine}]", pl)


# spellings of one number that are `==` in Python but of different type (or sign of zero)
_SPELL = {0: [("Int", 0), ("Bool", False), ("Flt", 0.0), ("Flt", -0.0)],
          1: [("Int", 1), ("Bool", True), ("Flt", 1.0)]}


def _spell(kind, v):
    from ..sexp import _float_parts
    if kind == "Int":
        return [A("Int"), int(v)]
    if kind == "Bool":
        return [A("Bool"), bool(v)]
    return _float_parts(float(v))


def respell(s, rng, prob):
    """the same tree with constants re-spelled inside their `==` class (and the keyword order of
    calls permuted): every node of the result is `==` to the corresponding node of `s`"""
    if isinstance(s, list) and s and isinstance(s[0], A):
        h = s[0]
        if h in ("Int", "Bool", "Flt"):
            if rng.random() >= prob:
                return s
            if h == "Flt":
                if s[3] != 1:
                    return s          # not integral (or nan/inf): no other spelling
                v = int(s[2])
            else:
                v = int(s[1])
            if v in _SPELL:
                return _spell(*rng.choice(_SPELL[v]))
            if abs(v) > 2 ** 40:
                return s
            return _spell(rng.choice(["Int", "Flt"]), v)
        if h == "CallKw":
            idx = list(range(len(s[3])))
            if rng.random() < prob:
                rng.shuffle(idx)
            return [h, respell(s[1], rng, prob), [respell(c, rng, prob) for c in s[2]],
                    [s[3][i] for i in idx], [respell(s[4][i], rng, prob) for i in idx]]
        if h in ("Str", "Var"):
            return s
        return [h] + [respell(c, rng, prob) for c in s[1:]]
    if isinstance(s, list):
        return [respell(c, rng, prob) for c in s]
    return s        # atoms, field strings


class NodeCountStream(Stream):
    """`get_num_nodes` on trees that contain `==`-confusable subterms on purpose (equal parents
    above `1` / `1.0` / `True`, `0` / `0.0` / `False` / `-0.0`, keyword mappings in another order):
    exercises the cache-hit path of `CachedMapper.__call__`.  Two requests per tree: the count, and
    the nodes counted in `post_visit` order (an instrumented `NodeCountMapper` subclass)."""
    name = "nodecount"

    def _tree(self, rng, g):
        r = rng
        ctx = r.choice(["int", "int", "num", "bool", "small", "any"])
        base = expr_to_sx(g.gen(ctx, r.randint(0, 3)))
        k = r.random()
        variants = [respell(base, r, r.choice([0.3, 0.6, 1.0])) for _ in range(r.randint(1, 3))]
        if k < 0.15:
            variants.append(base)                       # a structurally identical repeat as well
        parts = [base] + variants
        if r.random() < 0.3:
            # bury one variant one level deeper, next to a fresh subtree
            other = expr_to_sx(g.gen("int", 1))
            parts[-1] = [A(r.choice(["Sum", "Product", "Max"])), parts[-1], other]
        if r.random() < 0.3:
            r.shuffle(parts)
        shape = r.choice(["nary", "nary", "cmp", "if", "call", "callkw", "shift", "bin",
                          "subscript", "tuple", "slice", "cse", "nested"])
        a, b = parts[0], parts[1]
        c = parts[2] if len(parts) > 2 else respell(base, r, 0.5)
        if shape == "nary":
            return [A(r.choice(["Sum", "Product", "Min", "LogicalOr", "BitwiseXor"])), *parts]
        if shape == "cmp":
            return [A("Comparison"), a, r.choice(["==", "!=", "<"]), b]
        if shape == "if":
            return [A("If"), a, b, c]
        if shape == "call":
            return [A("Call"), [A("Var"), "f"], parts]
        if shape == "callkw":
            return [A("CallKw"), [A("Var"), "f"], [a], ["k", "a"], [b, c]]
        if shape == "shift":
            return [A(r.choice(["LeftShift", "RightShift"])), a, b]
        if shape == "bin":
            return [A(r.choice(["Quotient", "FloorDiv", "Remainder", "Power"])), a, b]
        if shape == "subscript":
            return [A("Subscript"), a, b]
        if shape == "tuple":
            return [A("Tuple"), *parts]
        if shape == "slice":
            sl = [a, A("nil"), b] if r.random() < 0.5 else [A("nil"), a, b]
            return [A("Sum"), [A("Slice"), *sl], [A("Slice"), *[respell(x, r, 0.7) for x in sl]]]
        if shape == "cse":
            pre = r.choice([A("nil"), "cs"])
            return [A("Sum"), [A("CSE"), a, pre, "pymbolic_expression"],
                    [A("CSE"), b, r.choice([pre, pre, "u"]), "pymbolic_expression"], c]
        # nested: equal parents two levels above the confusable constants
        wrap = lambda x: [A("Product"), [A("Sum"), x, [A("Var"), "x"]], [A("Var"), "y"]]  # noqa: E731
        return [A("Sum"), wrap(a), wrap(b), c]

    def cases(self, rng, tier):
        # the witness tree of the theorems first
        fixed = [
            [A("Comparison"), [A("Sum"), _spell("Flt", 2)], "!=", [A("Sum"), _spell("Int", 2)]],
            [A("Sum"), [A("Product"), _spell("Flt", 0.0), [A("Var"), "x"]],
             [A("Product"), _spell("Flt", -0.0), [A("Var"), "x"]], _spell("Int", 0),
             [A("Product"), _spell("Bool", False), [A("Var"), "x"]], _spell("Bool", False)],
            [A("Sum"), _spell("Int", 2), _spell("Flt", 2)],
            [A("Sum"), [A("Flt"), "nan", 0, 0], [A("Flt"), "nan", 0, 0], [A("Flt"), "inf", 0, 0],
             [A("Flt"), "inf", 0, 0], [A("Flt"), "-inf", 0, 0]],
            [A("Sum"), [A("Product"), [A("Flt"), "nan", 0, 0]], [A("Product"), [A("Flt"), "nan", 0, 0]]],
            [A("LeftShift"), [A("Sum"), _spell("Int", 1), [A("Str"), "abc"]],
             [A("Sum"), _spell("Bool", True), [A("Var"), "x"]]],
        ]
        for t in fixed:
            for what in ("count", "keys"):
                yield {"what": what, "expr": dumps(t)}
        n = 700 if tier == "quick" else 12000
        g = ExprGen(rng, cse=0.1, floats=0.1, malformed=0.02)
        for i in range(n):
            t = self._tree(rng, g)
            if rng.random() < 0.03:
                t = [A("Sum"), t, [A("Flt"), "nan", 0, 0], [A("Flt"), "nan", 0, 0]]
            yield {"what": "keys" if i % 2 else "count", "expr": dumps(t)}

    def request(self, pl):
        return f"({'c09keys' if pl['what'] == 'keys' else 'c09count'} {pl['expr']})"

    def run_impl(self, pl):
        from pymbolic.mapper.analysis import NodeCountMapper, get_num_nodes
        e = sx_to_expr(loads(pl["expr"]))
        try:
            if pl["what"] == "count":
                return str(get_num_nodes(e))

            class Recording(NodeCountMapper):
                def __init__(self):
                    super().__init__()
                    self.counted = []

                def post_visit(self, expr):
                    super().post_visit(expr)
                    self.counted.append(expr)

            m = Recording()
            m(e)
            return f"({m.count} ({' '.join(dumps(expr_to_sx(k)) for k in m.counted)}))"
        except RecursionError:
            raise
        except Exception as ex:
            return err_sx(ex)

    def oracle(self, pl):
        from pymbolic.mapper.analysis import get_num_nodes
        e = sx_to_expr(loads(pl["expr"]))
        try:
            got = get_num_nodes(e)
        except Exception:
            return None
        return numnodes_failure(e, got, pl)

    def shrink(self, pl):
        for s in sx_shrinks(loads(pl["expr"])):
            yield {**pl, "expr": dumps(s)}

    def nontrivial_key(self, pl, model, impl):
        return pl["what"] + pl["expr"] if "err" not in impl else None

    def stats(self, pl, mo, io, acc):
        acc[pl["what"]] = acc.get(pl["what"], 0) + 1
        if "err" in io:
            acc["errors"] = acc.get("errors", 0) + 1
            return
        e = sx_to_expr(loads(pl["expr"]))
        coarse, fine = scan.distinct_counts(e)
        got = int(io.split()[0].lstrip("("))
        if coarse < fine:
            acc["confusable_trees"] = acc.get("confusable_trees", 0) + 1
        if got < fine:
            acc["count_below_finest"] = acc.get("count_below_finest", 0) + 1
        try:
            keyed = len({(type(s), s) for s in scan.subterms(e)})
        except TypeError:
            return
        if got != keyed:
            # the cache hit hid a subterm of another constant type: the case the
            # dedup-after-the-walk model got wrong
            acc["count_differs_from_typed_eq_classes"] = acc.get("count_differs_from_typed_eq_classes", 0) + 1


def extract(ctx=None):
    """lean/PV/Generated/Analysis.lean (and Traversal.lean, whose combine / walk tables and node
    classes it builds on) from the live source of dependency.py, flop_counter.py, analysis.py and
    mapper/__init__.py (extract/analysis.py, extract/traversal.py)"""
    from extract.analysis import extract_analysis
    return extract_analysis(ctx)


PROP = Prop(
    id="C09",
    title="Dependency, node-count and flop analyses are exact",
    lean_targets=["PV.Properties.C09"],
    theorems=[],
    extractors=[extract],
    streams=[DepStream(), CountStream(), NodeCountStream()],
    trusted_base=["Lean 4.33 kernel; axioms propext, Classical.choice, Quot.sound only",
                  "harness serialisation; Python set semantics modelled as duplicate-free lists under ==",
                  "extract/analysis.py + extract/traversal.py (ast readers of the map_* handlers, "
                  "__init__, combine, CachedMapper.__call__, the NodeCountMapper hooks; unknown shapes "
                  "are errors) and the meaning PV/Model/AnalysisTable.lean gives the handler language"],
    level_text='Lean theorems (unbounded, all flag settings): the dependency analysis returns exactly the occurrences selected by the flags (soundness: every result is an outermost selected subterm; completeness up to Python == on well-formed trees), with all composite flags off it returns exactly the free variables, and evaluation depends only on those (coincidence lemma); the flop counter equals an independent operation count and the CSE-aware counter counts a seen wrapper as 0; the node counter (an exact model of the cached walk: lookup before dispatch, store after the handler) returns exactly the number of distinct subexpressions whenever no two subterms are confusable under the cache key (type, ==), and on every well-formed tree a number between the count of ==-classes and the count of structurally distinct subterms (both bounds witnessed not to be the count in general). Tied to DependencyMapper (plain/cached, composite_leaves), get_num_nodes, FlopCounter, CSEAwareFlopCounter by correspondence AND by regenerated handler tables (T-gen): every map_* of DependencyMapper / CSECachingMapperMixin / Collector / FlopCounterBase / CSEAwareFlopCounter, combine, DependencyMapper.__init__, the NodeCountMapper hooks, get_num_nodes and the memo protocol of CachedMapper.__call__ are re-read from the source on every run (layers over the C04 combine / walk tables), and deps, flopsG, c09CountWalk are proved to be the unique solutions of the regenerated one-step equations for all expressions, flag settings, seen-sets and caches.',
    level_note='Trusted: Lean kernel; harness; Python sets modelled as duplicate-free lists under == with left-biased union. Completeness needs well-formed trees (no nan constants, duplicate-free keyword names). Node counting: the theorem needs no nan constants; on ==-confusable trees (1 / 1.0 / True below equal parents) the sentence of the property is ambiguous and the oracle accepts any count between the coarsest and the finest reading, while the correspondence (count and counted nodes in post_visit order) stays exact.',
    technique='Lean 4 proofs about the traversal model (Occurs relation, coincidence lemma) + differential correspondence + independent dataclass-field scan',
    design_ref="DESIGN.md §4 C09",
)
