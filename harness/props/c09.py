"""C09 — dependency, node-count and flop analyses are exact."""
from __future__ import annotations

import itertools

import pymbolic.primitives as p

from ..core import Failure, Prop, Stream
from ..gen import ExprGen, node_types, size
from ..oracles import scan
from ..sexp import A, dumps, exc_to_sx, expr_to_sx, loads, sx_shrinks, sx_to_expr

FLAGSETS = [dict(subscripts=s, lookups=l, calls=c, cses=cs)
            for s in (True, False) for l in (True, False)
            for c in (True, False, "descend_args") for cs in (True, False)]


def err_sx(ex):
    from pymbolic.mapper import UnsupportedExpressionError
    if isinstance(ex, (UnsupportedExpressionError, NotImplementedError)):
        return "(err Unsupported)"
    if isinstance(ex, ValueError) and "foreign" in str(ex):
        return "(err Foreign)"
    if isinstance(ex, TypeError):
        return "(err TypeError)"
    return f"(err {type(ex).__name__})"


def flags_req(fl):
    c = {True: "yes", False: "no", "descend_args": "descend"}[fl["calls"]]
    b = lambda v: "true" if v else "false"  # noqa: E731
    return f"({b(fl['subscripts'])} {b(fl['lookups'])} {c} {b(fl['cses'])})"


def make_mapper(fl, cached, composite=None, given=None):
    """`fl`: the EFFECTIVE flags (the reference's); with `composite` set the include_* flags handed
    to the constructor are `given` (any: `composite_leaves` overrides them, also "descend_args")"""
    from pymbolic.mapper.dependency import CachedDependencyMapper, DependencyMapper
    cls = CachedDependencyMapper if cached else DependencyMapper
    if composite is not None and given is not None:
        return cls(include_subscripts=given["subscripts"], include_lookups=given["lookups"],
                   include_calls=given["calls"], include_cses=fl["cses"], composite_leaves=composite)
    if composite is not None:
        return cls(composite_leaves=composite, include_cses=fl["cses"])
    return cls(include_subscripts=fl["subscripts"], include_lookups=fl["lookups"],
               include_calls=fl["calls"], include_cses=fl["cses"])


class DepStream(Stream):
    name = "dependencies"

    def cases(self, rng, tier):
        n = 1500 if tier == "quick" else 30000
        g = ExprGen(rng, cse=0.15, floats=0.0)
        for i in range(n):
            e = g.gen(rng.choice(["num", "any", "bool", "int"]), rng.randint(1, 5))
            fl = FLAGSETS[i % len(FLAGSETS)] if tier == "quick" else rng.choice(FLAGSETS)
            comp = given = None
            if i % 11 == 0 or i % 13 == 0:
                comp = bool(i % 2)
                if i % 13 == 0:
                    given = rng.choice(FLAGSETS)     # explicit include_* flags that get overridden
                fl = dict(fl, subscripts=comp, lookups=comp, calls=comp)
            yield {"expr": dumps(expr_to_sx(e)), "flags": fl, "cached": bool(i % 2),
                   "composite": comp, "given": given}
        # every flag set on a fixed tree that contains every composite kind nested in each other
        x, f, a, r = (p.Variable(v) for v in "xfar")
        nest = p.Sum((p.Subscript(a, p.Call(f, (x, p.Lookup(r, "u")))),
                      p.Call(f, (p.Subscript(a, x),)),
                      p.CommonSubexpression(p.Lookup(p.Subscript(a, 1), "v")),
                      p.CallWithKwargs(f, (x,), {"k": p.Subscript(a, p.Variable("y"))}),
                      p.Lookup(p.Call(f, (p.Variable("z"),)), "w"),
                      p.Slice((x, None, p.Variable("s")))))
        for fl in FLAGSETS:
            for cached in (False, True):
                yield {"expr": dumps(expr_to_sx(nest)), "flags": fl, "cached": cached,
                       "composite": None}
        # `composite_leaves` overrides every explicitly given include_* flag
        for given in FLAGSETS:
            for comp in (True, False):
                eff = dict(given, subscripts=comp, lookups=comp, calls=comp)
                yield {"expr": dumps(expr_to_sx(nest)), "flags": eff, "cached": given["cses"],
                       "composite": comp, "given": given}

    def request(self, pl):
        c = "true" if pl["cached"] else "false"
        return f"(deps {flags_req(pl['flags'])} {c} {pl['expr']})"

    def run_impl(self, pl):
        e = sx_to_expr(loads(pl["expr"]))
        m = make_mapper(pl["flags"], pl["cached"], pl["composite"], pl.get("given"))
        try:
            res = m(e)
        except RecursionError:
            raise
        except Exception as ex:
            return err_sx(ex)
        return "(" + " ".join(sorted(dumps(expr_to_sx(d)) for d in res)) + ")"

    def oracle(self, pl):
        e = sx_to_expr(loads(pl["expr"]))
        m = make_mapper(pl["flags"], pl["cached"], pl["composite"], pl.get("given"))
        try:
            got = m(e)
        except Exception:
            return None    # node types the analysis does not handle are reported by raising
        fl = pl["flags"]
        want = scan.dependencies(e, fl["subscripts"], fl["lookups"], fl["calls"], fl["cses"])
        if got != want:
            missing = [str(d) for d in want - got]
            extra = [str(d) for d in got - want]
            return Failure("deps-differ", f"missing {missing} extra {extra} flags {fl}", pl)
        return None

    def shrink(self, pl):
        for s in sx_shrinks(loads(pl["expr"])):
            yield {**pl, "expr": dumps(s)}

    def nontrivial_key(self, pl, model, impl):
        return pl["expr"] + flags_req(pl["flags"]) if len(impl) > 2 else None

    def stats(self, pl, mo, io, acc):
        nt = acc.setdefault("node_types", {})
        for k, v in node_types(sx_to_expr(loads(pl["expr"]))).items():
            nt[k] = nt.get(k, 0) + v
        k = "set" if not io.startswith("(err") else io
        acc.setdefault("outcomes", {})
        acc["outcomes"][k] = acc["outcomes"].get(k, 0) + 1


class CountStream(Stream):
    """node counter and flop counters (plain: one call; CSE-aware: successive calls on one counter)"""
    name = "counts"

    def cases(self, rng, tier):
        n = 1200 if tier == "quick" else 20000
        g = ExprGen(rng, cse=0.2, floats=0.02)
        for i in range(n):
            es = [g.gen(rng.choice(["num", "num", "any", "int"]), rng.randint(1, 5))
                  for _ in range(rng.randint(1, 3))]
            if len(es) > 1 and rng.random() < 0.5:
                es.append(es[0])
            what = ["numnodes", "flops", "flopscse"][i % 3]
            yield {"what": what, "exprs": [dumps(expr_to_sx(e)) for e in es]}

    def request(self, pl):
        if pl["what"] == "numnodes":
            return f"(c09count {pl['exprs'][0]})"
        aware = "true" if pl["what"] == "flopscse" else "false"
        return f"(flops {aware} ({' '.join(pl['exprs'])}))"

    def _run(self, pl):
        from pymbolic.mapper.analysis import get_num_nodes
        from pymbolic.mapper.flop_counter import CSEAwareFlopCounter, FlopCounter
        es = [sx_to_expr(loads(s)) for s in pl["exprs"]]
        if pl["what"] == "numnodes":
            return [lambda: get_num_nodes(es[0])], es
        if pl["what"] == "flops":
            return [lambda e=e: FlopCounter()(e) for e in es], es
        m = CSEAwareFlopCounter()
        return [lambda e=e: m(e) for e in es], es

    def run_impl(self, pl):
        thunks, _ = self._run(pl)
        outs = []
        for t in thunks:
            try:
                outs.append(str(t()))
            except RecursionError:
                raise
            except Exception as ex:
                outs.append(err_sx(ex))
                break      # the counter instance is discarded after an exception
        if pl["what"] == "numnodes":
            return outs[0]
        return "(" + " ".join(outs) + ")"

    def oracle(self, pl):
        thunks, es = self._run(pl)
        seen = set()
        for t, e in zip(thunks, es):
            try:
                got = t()
            except Exception:
                if pl["what"] == "flopscse":
                    return None
                continue
            if pl["what"] == "numnodes":
                f = numnodes_failure(e, got, pl)
                if f is not None:
                    return f
                continue
            elif pl["what"] == "flops":
                want = scan.count_flops(e)
            else:
                want = scan.count_flops(e, seen)
            if got != want:
                return Failure(pl["what"] + "-differs", f"{pl['what']} gives {got}, independent count {want}", pl)
        return None

    def shrink(self, pl):
        ex = pl["exprs"]
        for i in range(len(ex)):
            if len(ex) > 1:
                yield {**pl, "exprs": ex[:i] + ex[i + 1:]}
            for s in sx_shrinks(loads(ex[i])):
                yield {**pl, "exprs": ex[:i] + [dumps(s)] + ex[i + 1:]}

    def nontrivial_key(self, pl, model, impl):
        return pl["what"] + " ".join(pl["exprs"]) if "err" not in impl else None

    def stats(self, pl, mo, io, acc):
        acc[pl["what"]] = acc.get(pl["what"], 0) + 1
        if "err" in io:
            acc["errors"] = acc.get("errors", 0) + 1


def numnodes_failure(e, got, pl):
    """The property's sentence "the node counter equals the number of distinct subexpressions",
    read on the real code.  "Distinct" has one meaning when no two subexpressions are confusable
    (then the number of classes under Python `==` alone equals the number of structurally
    different subterms, constant types included) and the count must be exactly that; on
    confusable trees (`1` / `1.0` / `True` below equal parents, `0.0` / `-0.0`, …) every count
    between the coarsest and the finest reading is accepted."""
    coarse, fine = scan.distinct_counts(e)
    if coarse <= got <= fine:
        return None
    if coarse == fine:
        return Failure("numnodes-differs",
                       f"numnodes gives {got}, independent count of distinct subexpressions {fine}", pl)
    return Failure("numnodes-differs",
                   f"numnodes gives {got}, outside every reading of 'distinct': [{coarse}, {fine}]", pl)


# spellings of one number that are `==` in Python but of different type (or sign of zero)
_SPELL = {0: [("Int", 0), ("Bool", False), ("Flt", 0.0), ("Flt", -0.0)],
          1: [("Int", 1), ("Bool", True), ("Flt", 1.0)]}


def _spell(kind, v):
    from ..sexp import _float_parts
    if kind == "Int":
        return [A("Int"), int(v)]
    if kind == "Bool":
        return [A("Bool"), bool(v)]
    return _float_parts(float(v))


def respell(s, rng, prob):
    """the same tree with constants re-spelled inside their `==` class (and the keyword order of
    calls permuted): every node of the result is `==` to the corresponding node of `s`"""
    if isinstance(s, list) and s and isinstance(s[0], A):
        h = s[0]
        if h in ("Int", "Bool", "Flt"):
            if rng.random() >= prob:
                return s
            if h == "Flt":
                if s[3] != 1:
                    return s          # not integral (or nan/inf): no other spelling
                v = int(s[2])
            else:
                v = int(s[1])
            if v in _SPELL:
                return _spell(*rng.choice(_SPELL[v]))
            if abs(v) > 2 ** 40:
                return s
            return _spell(rng.choice(["Int", "Flt"]), v)
        if h == "CallKw":
            idx = list(range(len(s[3])))
            if rng.random() < prob:
                rng.shuffle(idx)
            return [h, respell(s[1], rng, prob), [respell(c, rng, prob) for c in s[2]],
                    [s[3][i] for i in idx], [respell(s[4][i], rng, prob) for i in idx]]
        if h in ("Str", "Var"):
            return s
        return [h] + [respell(c, rng, prob) for c in s[1:]]
    if isinstance(s, list):
        return [respell(c, rng, prob) for c in s]
    return s        # atoms, field strings


class NodeCountStream(Stream):
    """`get_num_nodes` on trees that contain `==`-confusable subterms on purpose (equal parents
    above `1` / `1.0` / `True`, `0` / `0.0` / `False` / `-0.0`, keyword mappings in another order):
    exercises the cache-hit path of `CachedMapper.__call__`.  Two requests per tree: the count, and
    the nodes counted in `post_visit` order (an instrumented `NodeCountMapper` subclass)."""
    name = "nodecount"

    def _tree(self, rng, g):
        r = rng
        ctx = r.choice(["int", "int", "num", "bool", "small", "any"])
        base = expr_to_sx(g.gen(ctx, r.randint(0, 3)))
        k = r.random()
        variants = [respell(base, r, r.choice([0.3, 0.6, 1.0])) for _ in range(r.randint(1, 3))]
        if k < 0.15:
            variants.append(base)                       # a structurally identical repeat as well
        parts = [base] + variants
        if r.random() < 0.3:
            # bury one variant one level deeper, next to a fresh subtree
            other = expr_to_sx(g.gen("int", 1))
            parts[-1] = [A(r.choice(["Sum", "Product", "Max"])), parts[-1], other]
        if r.random() < 0.3:
            r.shuffle(parts)
        shape = r.choice(["nary", "nary", "cmp", "if", "call", "callkw", "shift", "bin",
                          "subscript", "tuple", "slice", "cse", "nested"])
        a, b = parts[0], parts[1]
        c = parts[2] if len(parts) > 2 else respell(base, r, 0.5)
        if shape == "nary":
            return [A(r.choice(["Sum", "Product", "Min", "LogicalOr", "BitwiseXor"])), *parts]
        if shape == "cmp":
            return [A("Comparison"), a, r.choice(["==", "!=", "<"]), b]
        if shape == "if":
            return [A("If"), a, b, c]
        if shape == "call":
            return [A("Call"), [A("Var"), "f"], parts]
        if shape == "callkw":
            return [A("CallKw"), [A("Var"), "f"], [a], ["k", "a"], [b, c]]
        if shape == "shift":
            return [A(r.choice(["LeftShift", "RightShift"])), a, b]
        if shape == "bin":
            return [A(r.choice(["Quotient", "FloorDiv", "Remainder", "Power"])), a, b]
        if shape == "subscript":
            return [A("Subscript"), a, b]
        if shape == "tuple":
            return [A("Tuple"), *parts]
        if shape == "slice":
            sl = [a, A("nil"), b] if r.random() < 0.5 else [A("nil"), a, b]
            return [A("Sum"), [A("Slice"), *sl], [A("Slice"), *[respell(x, r, 0.7) for x in sl]]]
        if shape == "cse":
            pre = r.choice([A("nil"), "cs"])
            return [A("Sum"), [A("CSE"), a, pre, "pymbolic_expression"],
                    [A("CSE"), b, r.choice([pre, pre, "u"]), "pymbolic_expression"], c]
        # nested: equal parents two levels above the confusable constants
        wrap = lambda x: [A("Product"), [A("Sum"), x, [A("Var"), "x"]], [A("Var"), "y"]]  # noqa: E731
        return [A("Sum"), wrap(a), wrap(b), c]

    def cases(self, rng, tier):
        # the witness tree of the theorems first
        fixed = [
            [A("Comparison"), [A("Sum"), _spell("Flt", 2)], "!=", [A("Sum"), _spell("Int", 2)]],
            [A("Sum"), [A("Product"), _spell("Flt", 0.0), [A("Var"), "x"]],
             [A("Product"), _spell("Flt", -0.0), [A("Var"), "x"]], _spell("Int", 0),
             [A("Product"), _spell("Bool", False), [A("Var"), "x"]], _spell("Bool", False)],
            [A("Sum"), _spell("Int", 2), _spell("Flt", 2)],
            [A("Sum"), [A("Flt"), "nan", 0, 0], [A("Flt"), "nan", 0, 0], [A("Flt"), "inf", 0, 0],
             [A("Flt"), "inf", 0, 0], [A("Flt"), "-inf", 0, 0]],
            [A("Sum"), [A("Product"), [A("Flt"), "nan", 0, 0]], [A("Product"), [A("Flt"), "nan", 0, 0]]],
            [A("LeftShift"), [A("Sum"), _spell("Int", 1), [A("Str"), "abc"]],
             [A("Sum"), _spell("Bool", True), [A("Var"), "x"]]],
        ]
        for t in fixed:
            for what in ("count", "keys"):
                yield {"what": what, "expr": dumps(t)}
        n = 700 if tier == "quick" else 12000
        g = ExprGen(rng, cse=0.1, floats=0.1, malformed=0.02)
        for i in range(n):
            t = self._tree(rng, g)
            if rng.random() < 0.03:
                t = [A("Sum"), t, [A("Flt"), "nan", 0, 0], [A("Flt"), "nan", 0, 0]]
            yield {"what": "keys" if i % 2 else "count", "expr": dumps(t)}

    def request(self, pl):
        return f"({'c09keys' if pl['what'] == 'keys' else 'c09count'} {pl['expr']})"

    def run_impl(self, pl):
        from pymbolic.mapper.analysis import NodeCountMapper, get_num_nodes
        e = sx_to_expr(loads(pl["expr"]))
        try:
            if pl["what"] == "count":
                return str(get_num_nodes(e))

            class Recording(NodeCountMapper):
                def __init__(self):
                    super().__init__()
                    self.counted = []

                def post_visit(self, expr):
                    super().post_visit(expr)
                    self.counted.append(expr)

            m = Recording()
            m(e)
            return f"({m.count} ({' '.join(dumps(expr_to_sx(k)) for k in m.counted)}))"
        except RecursionError:
            raise
        except Exception as ex:
            return err_sx(ex)

    def oracle(self, pl):
        from pymbolic.mapper.analysis import get_num_nodes
        e = sx_to_expr(loads(pl["expr"]))
        try:
            got = get_num_nodes(e)
        except Exception:
            return None
        return numnodes_failure(e, got, pl)

    def shrink(self, pl):
        for s in sx_shrinks(loads(pl["expr"])):
            yield {**pl, "expr": dumps(s)}

    def nontrivial_key(self, pl, model, impl):
        return pl["what"] + pl["expr"] if "err" not in impl else None

    def stats(self, pl, mo, io, acc):
        acc[pl["what"]] = acc.get(pl["what"], 0) + 1
        if "err" in io:
            acc["errors"] = acc.get("errors", 0) + 1
            return
        e = sx_to_expr(loads(pl["expr"]))
        coarse, fine = scan.distinct_counts(e)
        got = int(io.split()[0].lstrip("("))
        if coarse < fine:
            acc["confusable_trees"] = acc.get("confusable_trees", 0) + 1
        if got < fine:
            acc["count_below_finest"] = acc.get("count_below_finest", 0) + 1
        try:
            keyed = len({(type(s), s) for s in scan.subterms(e)})
        except TypeError:
            return
        if got != keyed:
            # the cache hit hid a subterm of another constant type: the case the
            # dedup-after-the-walk model got wrong
            acc["count_differs_from_typed_eq_classes"] = acc.get("count_differs_from_typed_eq_classes", 0) + 1


# {{{ histories: ONE mapper object is given several expressions in a row

_CTXS = ["num", "num", "any", "bool", "int"]


def _leaf(r):
    return p.Variable(r.choice(["x", "y", "z", "i", "w", "a"]))


def combine_parts(r, parts):
    """one node above `parts` (the first part is the first child visited: the one whose result a
    left fold starts from)"""
    parts = list(parts)
    while len(parts) < 2:
        parts.append(_leaf(r))
    a, b = parts[0], parts[1]
    f = p.Variable(r.choice(["f", "g"]))
    shape = r.choice(["sum", "sum", "product", "product", "quot", "pow", "floordiv", "minmax",
                      "call", "callkw", "subscript", "index", "lookup", "if", "cmp", "cse",
                      "tuple", "logical", "nested"])
    if shape == "sum":
        return p.Sum(tuple(parts))
    if shape == "product":
        return p.Product(tuple(parts))
    if shape == "quot":
        return p.Quotient(a, p.Sum(tuple(parts[1:])) if len(parts) > 2 else b)
    if shape == "pow":
        return p.Power(a, b)
    if shape == "floordiv":
        return p.FloorDiv(a, b)
    if shape == "minmax":
        return r.choice([p.Min, p.Max])(tuple(parts))
    if shape == "call":
        return p.Call(f, tuple(parts))
    if shape == "callkw":
        return p.CallWithKwargs(f, (a,), dict(zip(["k", "a", "l", "zz"], parts[1:])))
    if shape == "subscript":
        return p.Subscript(a, b if len(parts) == 2 else tuple(parts[1:]))
    if shape == "index":
        return p.Subscript(p.Variable("t"), tuple(parts))
    if shape == "lookup":
        return p.Sum((p.Lookup(a, r.choice(["u", "v"])), *parts[1:]))
    if shape == "if":
        return p.If(p.Comparison(a, r.choice(["<", "==", ">="]), b), parts[-1], a)
    if shape == "cmp":
        return p.Comparison(a, r.choice(["<", "!=", "=="]), b)
    if shape == "cse":
        return p.CommonSubexpression(p.Sum(tuple(parts)), r.choice([None, "cs"]))
    if shape == "tuple":
        return tuple(parts)
    if shape == "logical":
        return r.choice([p.LogicalOr, p.LogicalAnd, p.BitwiseXor])(tuple(parts))
    return p.Product((p.Sum((a, _leaf(r))), *parts[1:]))


def history_trees(r, g, n):
    """`n` trees for one history: they are built over a small pool of SHARED parts (subtrees and
    CommonSubexpression wrappers, also wrappers around other parts), a part may be a history entry
    on its own (before or after the trees that contain it), earlier trees come back inside later
    ones and as they are."""
    pool = []
    for _ in range(r.randint(2, 4)):
        e = g.gen(r.choice(_CTXS), r.randint(0, 3))
        if r.random() < 0.45:
            e = p.CommonSubexpression(e, r.choice([None, "cs", "u"]))
        pool.append(e)
    if r.random() < 0.4:
        inner = combine_parts(r, [r.choice(pool), g.gen("num", 1)])
        pool.append(p.CommonSubexpression(inner, r.choice([None, "cs"])))
    trees = []
    for _ in range(n):
        k = r.random()
        if trees and k < 0.12:
            t = r.choice(trees)
        elif k < 0.3:
            t = r.choice(pool)
        else:
            parts = [r.choice(pool) for _ in range(r.randint(1, 2))]
            if trees and r.random() < 0.25:
                parts.append(r.choice(trees))
            for _ in range(r.randint(0, 2)):
                parts.append(g.gen(r.choice(_CTXS), r.randint(0, 2)))
            if r.random() < 0.4:
                r.shuffle(parts)
            t = combine_parts(r, parts)
        trees.append(t)
    return trees


def history_exprs(pl):
    """the trees of a history payload; with `share` structurally equal subtrees of the whole
    history are ONE Python object (caches keyed by identity and caches keyed by `==` both get
    their hits)"""
    es = [sx_to_expr(loads(s)) for s in pl["exprs"]]
    if pl.get("share"):
        from ..sexp import hashcons
        try:
            memo = {}
            shared = [hashcons(e, memo) for e in es]
            if [dumps(expr_to_sx(e)) for e in shared] == list(pl["exprs"]):
                return shared
        except Exception:
            pass
    return es


def render_set(res):
    return "(" + " ".join(sorted(dumps(expr_to_sx(d)) for d in res)) + ")"


def _show(d):
    """printable form that never runs mapper code (malformed trees make `str` raise)"""
    try:
        return str(d)
    except Exception:
        return dumps(expr_to_sx(d))


def _shows(ds):
    return sorted(_show(d) for d in ds)


def _shrink_history(pl, steps_key=None):
    ex = pl["exprs"]
    if steps_key is not None:
        steps = pl[steps_key]
        for i in range(len(steps)):
            if len(steps) > 1:
                yield {**pl, steps_key: steps[:i] + steps[i + 1:]}
        used = sorted({e for _m, e in steps})
        if len(used) < len(ex):        # drop the trees no call refers to
            pos = {e: k for k, e in enumerate(used)}
            yield {**pl, "exprs": [ex[e] for e in used],
                   steps_key: [[m, pos[e]] for m, e in steps]}
            return
    else:
        for i in range(len(ex)):
            if len(ex) > 1:
                yield {**pl, "exprs": ex[:i] + ex[i + 1:]}
        used = range(len(ex))
    if pl.get("share"):
        yield {**pl, "share": False}
    for i in used:
        for s in sx_shrinks(loads(ex[i])):
            yield {**pl, "exprs": ex[:i] + [dumps(s)] + ex[i + 1:]}


class DepHistoryStream(Stream):
    """Sequences (2..6 calls) of trees that share subtrees and CommonSubexpression nodes, given to
    ONE `DependencyMapper` / `CachedDependencyMapper` object (sometimes two objects with different
    flags, interleaved).  The model functions are pure: the model answer of a history is the list
    of the single answers.  The oracle compares every answer with the independent scan computed
    afresh and re-compares every set handed out earlier after each later call (a returned set
    must not change)."""
    name = "deps-history"

    def _mapper_spec(self, rng, i, tier):
        fl = FLAGSETS[i % len(FLAGSETS)] if tier == "quick" else rng.choice(FLAGSETS)
        comp = None
        if rng.random() < 0.1:
            comp = rng.random() < 0.5
            fl = dict(fl, subscripts=comp, lookups=comp, calls=comp)
        return {"flags": fl, "cached": rng.random() < 0.5, "composite": comp}

    def cases(self, rng, tier):
        # every flag set, cached and uncached, on histories over the parts of one fixed tree that
        # nests every composite kind: a sum starting with a part, the part alone, the part next to
        # other siblings, a wrapper, the wrapper's child, everything
        x, y, f, a, r_ = (p.Variable(v) for v in "xyfar")
        parts = [p.Subscript(a, p.Call(f, (x, p.Lookup(r_, "u")))),
                 p.Call(f, (p.Subscript(a, x),)),
                 p.CommonSubexpression(p.Lookup(p.Subscript(a, 1), "v")),
                 p.Lookup(p.Call(f, (p.Variable("z"),)), "w")]
        wrap = p.CommonSubexpression(p.Sum((parts[0], y)))
        fixed = [p.Sum((parts[2], parts[0], x)), parts[2], p.Product((parts[2], y)),
                 p.Sum((wrap, parts[1])), wrap, p.Product((parts[0], parts[3])),
                 p.Quotient(x, y), p.Power(x, p.Variable("w")), parts[0]]
        fixed_sx = [dumps(expr_to_sx(e)) for e in fixed]
        windows = [[0, 1, 2], [3, 4, 5, 8], [6, 7, 0, 6]]
        for fl in FLAGSETS:
            for cached in (False, True):
                for win in windows:
                    yield {"exprs": fixed_sx, "share": cached,
                           "mappers": [{"flags": fl, "cached": cached, "composite": None}],
                           "steps": [[0, e] for e in win]}
        n = 700 if tier == "quick" else 12000
        g = ExprGen(rng, cse=0.15, floats=0.0)
        for i in range(n):
            length = rng.randint(2, 6)
            trees = history_trees(rng, g, length)
            mappers = [self._mapper_spec(rng, i, tier)]
            if rng.random() < 0.25:
                mappers.append(self._mapper_spec(rng, i + 7, tier))
            steps = [[rng.randrange(len(mappers)), k] for k in range(length)]
            if length < 6 and rng.random() < 0.3:
                steps.append([rng.randrange(len(mappers)), rng.randrange(length)])
            yield {"exprs": [dumps(expr_to_sx(e)) for e in trees], "share": rng.random() < 0.5,
                   "mappers": mappers, "steps": steps}

    def request(self, pl):
        out = []
        for m, e in pl["steps"]:
            sp = pl["mappers"][m]
            c = "true" if sp["cached"] else "false"
            out.append(f"({flags_req(sp['flags'])} {c} {pl['exprs'][e]})")
        return f"(deps-hist ({' '.join(out)}))"

    def _setup(self, pl):
        es = history_exprs(pl)
        ms = [make_mapper(sp["flags"], sp["cached"], sp["composite"]) for sp in pl["mappers"]]
        return es, ms

    def run_impl(self, pl):
        es, ms = self._setup(pl)
        outs, held = [], []
        for m, e in pl["steps"]:
            try:
                res = ms[m](es[e])
            except RecursionError:
                raise
            except Exception as ex:
                outs.append(err_sx(ex))
                continue
            outs.append(render_set(res))
            held.append((len(outs) - 1, res))
        changed = [str(i) for i, res in held if render_set(res) != outs[i]]
        out = "(" + " ".join(outs) + ")"
        if changed:
            out += f" (changed-later {' '.join(changed)})"
        return out

    def agree(self, model, impl, pl):
        if model == impl:
            return "ok"
        if "(noclaim)" in model:
            return "trivial"
        if "changed-later" in impl:
            return "diff"
        # sets are compared as Python compares them (`==` on the elements): a memoized answer may
        # be the answer computed for another spelling of an equal tree (`t[1]` / `t[True]`)
        try:
            mo, io = loads(model), loads(impl)
            if len(mo) != len(io):
                return "diff"
            for a, b in zip(mo, io):
                a_err = bool(a) and a[0] == "err"
                b_err = bool(b) and b[0] == "err"
                if a_err or b_err:
                    if dumps(a) != dumps(b):
                        return "diff"
                elif {sx_to_expr(t) for t in a} != {sx_to_expr(t) for t in b}:
                    return "diff"
            return "ok"
        except Exception:
            return "diff"

    def oracle(self, pl):
        es, ms = self._setup(pl)
        held = []
        for n, (m, e) in enumerate(pl["steps"]):
            sp = pl["mappers"][m]
            kind = "cached" if sp["cached"] else "plain"
            expr = es[e]
            try:
                got = ms[m](expr)
            except Exception:
                got = None  # node types the analysis does not handle are reported by raising
            if got is not None:
                fl = sp["flags"]
                want = scan.dependencies(expr, fl["subscripts"], fl["lookups"], fl["calls"],
                                         fl["cses"])
                if got != want:
                    try:
                        fresh = make_mapper(fl, sp["cached"], sp["composite"])(expr)
                    except Exception:
                        fresh = None
                    key = "deps-differ" if fresh != want else f"deps-history-differ-{kind}"
                    return Failure(key, f"call {n} of the history (mapper {m}, {kind}) on "
                                   f"{_show(expr)}: missing {_shows(want - got)} extra "
                                   f"{_shows(got - want)} flags {fl}; a fresh "
                                   f"mapper gives {None if fresh is None else _shows(fresh)}",
                                   pl)
                held.append((n, kind, got, frozenset(want)))
            for n0, kind0, got0, want0 in held:
                if got0 != want0:
                    return Failure(f"deps-result-changed-later-{kind0}",
                                   f"the set returned by call {n0} changed during call {n}: now "
                                   f"{_shows(got0)}, was {_shows(want0)}", pl)
        return None

    def shrink(self, pl):
        yield from _shrink_history(pl, "steps")
        if len(pl["mappers"]) > 1:
            for keep in range(len(pl["mappers"])):
                yield {**pl, "mappers": [pl["mappers"][keep]],
                       "steps": [[0, e] for m, e in pl["steps"] if m == keep]}

    def nontrivial_key(self, pl, model, impl):
        if impl.count("(err") == len(pl["steps"]):
            return None
        return self.request(pl) + str(pl.get("share"))

    def stats(self, pl, mo, io, acc):
        acc["calls"] = acc.get("calls", 0) + len(pl["steps"])
        if len(pl["mappers"]) > 1:
            acc["two_mappers"] = acc.get("two_mappers", 0) + 1
        if pl.get("share"):
            acc["shared_objects"] = acc.get("shared_objects", 0) + 1
        if "(err" in io:
            acc["with_errors"] = acc.get("with_errors", 0) + 1
        for sp in pl["mappers"]:
            k = "cached" if sp["cached"] else "plain"
            acc[k] = acc.get(k, 0) + 1


class CountHistoryStream(Stream):
    """Histories for the counters: ONE `FlopCounter` (memoizing) / ONE `CSEAwareFlopCounter` (its
    seen-set is per instance on purpose: a wrapper seen in an earlier call of THAT object counts 0
    later — the reference threads one seen-set per object the same way) / ONE `NodeCountMapper`
    (its cache is per instance: `.count` after the i-th call is the number of distinct
    subexpressions of everything THAT object walked so far) / `get_num_nodes` called repeatedly (a
    fresh mapper per call: no answer may depend on the calls before).  Sometimes two objects of
    the class are interleaved on the same trees (nothing may leak from one object to the other).
    A counter object is discarded after it raised."""
    name = "counts-history"
    KINDS = ["flops", "flopscse", "nodecount", "numnodes"]

    def cases(self, rng, tier):
        n = 600 if tier == "quick" else 10000
        g = ExprGen(rng, cse=0.2, floats=0.02)
        for i in range(n):
            what = self.KINDS[i % 4]
            length = rng.randint(2, 6)
            trees = history_trees(rng, g, length)
            objs = 2 if what != "numnodes" and rng.random() < 0.3 else 1
            steps = [[rng.randrange(objs), k] for k in range(length)]
            if length < 6 and rng.random() < 0.3:
                steps.append([rng.randrange(objs), rng.randrange(length)])
            if objs == 2 and len(steps) < 6:
                # the tree one object has just counted, given to the other object
                m, e = rng.choice(steps)
                steps.append([1 - m, e])
            yield {"what": what, "share": rng.random() < 0.5, "objects": objs, "steps": steps,
                   "exprs": [dumps(expr_to_sx(e)) for e in trees]}

    def request(self, pl):
        groups = " ".join("(" + " ".join(pl["exprs"][e] for m, e in pl["steps"] if m == k) + ")"
                          for k in range(pl["objects"]))
        if pl["what"] in ("flops", "flopscse"):
            return f"(c09flops-hist {'true' if pl['what'] == 'flopscse' else 'false'} ({groups}))"
        return f"(c09count-hist {'true' if pl['what'] == 'nodecount' else 'false'} ({groups}))"

    def _objects(self, pl):
        """one callable per counter object; whether an object is discarded after an exception"""
        from pymbolic.mapper.analysis import NodeCountMapper, get_num_nodes
        from pymbolic.mapper.flop_counter import CSEAwareFlopCounter, FlopCounter
        what = pl["what"]
        if what == "numnodes":
            return [get_num_nodes], False
        if what == "nodecount":
            def counter():
                m = NodeCountMapper()

                def call(e):
                    m(e)
                    return m.count
                return call
            return [counter() for _ in range(pl["objects"])], True
        cls = FlopCounter if what == "flops" else CSEAwareFlopCounter
        return [cls() for _ in range(pl["objects"])], True

    def run_impl(self, pl):
        es = history_exprs(pl)
        objs, discard = self._objects(pl)
        outs = [[] for _ in objs]
        dead = set()
        for m, e in pl["steps"]:
            if m in dead:
                continue
            try:
                outs[m].append(str(objs[m](es[e])))
            except RecursionError:
                raise
            except Exception as ex:
                outs[m].append(err_sx(ex))
                if discard:
                    dead.add(m)      # the counter instance is discarded after an exception
        return "(" + " ".join("(" + " ".join(o) + ")" for o in outs) + ")"

    def oracle(self, pl):
        from pymbolic.mapper.flop_counter import CSEAwareFlopCounter, FlopCounter
        es = history_exprs(pl)
        objs, discard = self._objects(pl)
        what = pl["what"]
        seen = [set() for _ in objs]        # the reference's seen-set of each object
        walked = [[] for _ in objs]         # the trees each object has been given
        answers = {}
        dead = set()
        for n, (m, ei) in enumerate(pl["steps"]):
            if m in dead:
                continue
            e = es[ei]
            try:
                got = objs[m](e)
            except Exception:
                if discard:
                    dead.add(m)
                continue
            walked[m].append(e)
            if what == "numnodes":
                f = numnodes_failure(e, got, pl)
                if f is not None:
                    return f
                prev = answers.setdefault(ei, got)
                if prev != got:
                    return Failure("numnodes-history-differs",
                                   f"call {n}: get_num_nodes gives {got} for a tree it counted "
                                   f"as {prev} before", pl)
                continue
            if what == "nodecount":
                coarse, fine = scan.distinct_counts(tuple(walked[m]))
                # the tuple of the trees walked so far is itself not one of them
                coarse, fine = coarse - 1, fine - 1
                if not coarse <= got <= fine:
                    return Failure("nodecount-history-differs",
                                   f"after call {n} NodeCountMapper object {m} has count {got}; "
                                   f"distinct subexpressions of the trees it walked so far: "
                                   f"{fine if coarse == fine else [coarse, fine]}", pl)
                continue
            try:
                want = scan.count_flops(e) if what == "flops" else scan.count_flops(e, seen[m])
            except TypeError:
                return None     # an unhashable wrapper: the reference's seen-set is undefined
            if got != want:
                cls = FlopCounter if what == "flops" else CSEAwareFlopCounter
                try:
                    fresh_ok = cls()(e) == (scan.count_flops(e) if what == "flops"
                                            else scan.count_flops(e, set()))
                except Exception:
                    fresh_ok = True
                key = f"{what}-history-differs" if fresh_ok else f"{what}-differs"
                return Failure(key, f"call {n} ({cls.__name__} object {m}): {got}, independent "
                               f"count {want}", pl)
        return None

    def shrink(self, pl):
        yield from _shrink_history(pl, "steps")
        if pl["objects"] > 1:
            for keep in range(pl["objects"]):
                yield {**pl, "objects": 1,
                       "steps": [[0, e] for m, e in pl["steps"] if m == keep]}

    def nontrivial_key(self, pl, model, impl):
        return self.request(pl) + json_steps(pl) if "(err" not in impl.split(")")[0] else None

    def stats(self, pl, mo, io, acc):
        acc[pl["what"]] = acc.get(pl["what"], 0) + 1
        acc["calls"] = acc.get("calls", 0) + len(pl["steps"])
        if pl["objects"] > 1:
            acc["two_objects"] = acc.get("two_objects", 0) + 1
        if "err" in io:
            acc["with_errors"] = acc.get("with_errors", 0) + 1


def json_steps(pl):
    return str(pl["steps"]) + str(pl.get("share"))


# }}}


# {{{ falsy operands: expression objects whose Python truth value is False

def falsy_trees(rng, n, g=None):
    """`n` (family, tree, loop-variable-or-None) triples over the three families of
    harness/falsy.py: a falsy operand in a slot of a slice (hosted where slices occur), a falsy
    operand as a child of every other node kind, and block accesses written in a loop variable
    (specialised afterwards by structural substitution)."""
    from .. import falsy as fz
    for i in range(n):
        names = fz.Names(rng, rng.choice([0.8, 0.8, 1.0, 0.4]))
        k = i % 3
        if k == 0:
            length, pos = rng.choice(fz.slice_patterns())
            sl = fz.slice_with(rng, names, fz.falsy_operand(rng, names), length, pos)
            family, t, loop = "slice-slot", fz.host_slice(rng, names, sl), None
        elif k == 1:
            family, t, loop = "child", fz.place(rng, names, fz.falsy_operand(rng, names)), None
        else:
            loop = rng.choice(["i", "j", "blk"])
            family, t = "block-access", fz.block_access(rng, names, p.Variable(loop))
        if g is not None and rng.random() < 0.35:
            parts = [t, g.gen(rng.choice(_CTXS), rng.randint(0, 2))]
            if rng.random() < 0.5:
                parts.reverse()
            t = combine_parts(rng, parts)
        yield family, t, loop


def specialise(rng, sx, loop):
    """the tree with the loop variable replaced, structurally, by a constant (mostly a zero in
    one of its Python spellings; sometimes a non-zero constant: the control)"""
    from .. import falsy as fz
    if loop is None:
        return sx
    value = rng.choice([0, 0, 0, 0, False, 0.0, -0.0, 1, 2])
    return fz.sx_substitute(sx, loop, expr_to_sx(value))


def _twin(expr_sx_text):
    from .. import falsy as fz
    return dumps(fz.truthy_twin(loads(expr_sx_text)))


def _eval_env(e):
    """small positive integers for every variable, tuples for those subscripted"""
    env = {}
    for s in scan.subterms(e):
        if isinstance(s, p.Variable):
            env.setdefault(s.name, 1 + (len(env) % 3))
    for s in scan.subterms(e):
        if isinstance(s, p.Subscript) and isinstance(s.aggregate, p.Variable):
            env[s.aggregate.name] = list(range(12))
    return env


class FalsyDepStream(DepStream):
    """The dependency analysis on trees that contain FALSY expression objects (`0*n`, `0 // k`,
    `Sum((0*n,))`, ... with variables of their own: what substitution without constant folding
    leaves behind) in every slot of slices - where `None` means "omitted" and a present part must
    be told from an absent one by `is not None`, not by truthiness - and in every child position
    of every other node kind; every flag set, cached and uncached, `composite_leaves`.  Model side
    and reference (`oracles/scan.py`) as in the `dependencies` stream.  A failure whose truthy
    twin (zero constants replaced by 7) passes is keyed `deps-falsy-operand-skipped`.  With all
    composite kinds off and an environment in the payload the clause "outside of which evaluation
    never needs a value" is checked by running the expression compiled with exactly the reported
    variables as arguments: a NameError for a variable of the tree is
    `deps-insufficient-for-evaluation`."""
    name = "deps-falsy-operands"

    def cases(self, rng, tier):
        from .. import falsy as fz
        off = dict(subscripts=False, lookups=False, calls=False, cses=False)
        descend = [fl for fl in FLAGSETS if not fl["subscripts"]]
        # every falsy shape in every slot of every slice length, under each host that the
        # analysis can descend into
        i = 0
        for shape in sorted(set(fz.FALSY_SHAPES)):
            for length, pos in fz.slice_patterns():
                for host in ["bare", "subscript", "index-tuple", "call-arg", "cse"]:
                    names = fz.Names(rng, 1.0)
                    op = fz.falsy_operand(rng, names, 2, shape)
                    t = fz.host_slice(rng, names, fz.slice_with(rng, names, op, length, pos), host)
                    fl = descend[i % len(descend)]
                    if host == "call-arg":
                        fl = dict(fl, calls=[False, "descend_args"][i % 2])
                    if host == "cse":
                        fl = dict(fl, cses=False)
                    i += 1
                    yield {"expr": dumps(expr_to_sx(t)), "flags": fl, "cached": bool(i % 2),
                           "composite": None, "family": "slice-slot"}
        n = 1200 if tier == "quick" else 24000
        g = ExprGen(rng, cse=0.1, floats=0.0, malformed=0.0, foreign=False)
        for i, (family, t, loop) in enumerate(falsy_trees(rng, n, g)):
            sx = specialise(rng, expr_to_sx(t), loop)
            fl = FLAGSETS[(i // 3) % len(FLAGSETS)] if tier == "quick" else rng.choice(FLAGSETS)
            comp = None
            k = rng.random()
            if k < 0.3:
                fl = rng.choice(descend)
            elif k < 0.4:
                comp = rng.random() < 0.3
                fl = dict(fl, subscripts=comp, lookups=comp, calls=comp)
            pl = {"expr": dumps(sx), "flags": fl, "cached": rng.random() < 0.5,
                  "composite": comp, "family": family}
            if family == "block-access" and rng.random() < 0.5:
                pl.update(flags=off, composite=rng.choice([None, False]),
                          env=_eval_env(sx_to_expr(sx)))
            yield pl

    def _evaluation_failure(self, pl):
        import pymbolic
        e = sx_to_expr(loads(pl["expr"]))
        try:
            got = make_mapper(pl["flags"], pl["cached"], pl["composite"])(e)
            names = sorted(v.name for v in got)
        except Exception:
            return None
        occurring = {s.name for s in scan.subterms(e) if isinstance(s, p.Variable)}
        env = pl["env"]
        import warnings
        try:
            with warnings.catch_warnings():
                warnings.simplefilter("ignore")     # `3[...]` in generated code: SyntaxWarning
                code = pymbolic.compile(e, names)
                code(*[env[nm] for nm in names])
        except NameError as ex:
            missing = getattr(ex, "name", None)
            if missing in occurring and missing not in names:
                return Failure("deps-insufficient-for-evaluation",
                               f"evaluating {_show(e)} with values for exactly the reported "
                               f"variables {names} needs a value for {missing!r}", pl)
        except Exception:
            pass
        return None

    def oracle(self, pl):
        if pl.get("env") is not None and not any(pl["flags"].values()):
            f = self._evaluation_failure(pl)
            if f is not None:
                return f
        f = DepStream.oracle(self, pl)
        if f is None:
            return None
        twin = _twin(pl["expr"])
        if (twin != pl["expr"] and self._only_below_falsy_missing(pl)
                and DepStream.oracle(self, {**pl, "expr": twin}) is None):
            f.key = "deps-falsy-operand-skipped"
            f.detail += " (correct on the twin tree whose zero constants are replaced by 7)"
        return f

    def _only_below_falsy_missing(self, pl):
        """nothing spurious is reported, and everything missing lies below a falsy operand"""
        from .. import falsy as fz
        e = sx_to_expr(loads(pl["expr"]))
        fl = pl["flags"]
        try:
            got = make_mapper(fl, pl["cached"], pl["composite"], pl.get("given"))(e)
        except Exception:
            return False
        want = scan.dependencies(e, fl["subscripts"], fl["lookups"], fl["calls"], fl["cses"])
        below = []
        for s in fz.falsy_subterms(e):
            below.extend(scan.subterms(s))
        return got <= want and all(any(d == b for b in below) for d in want - got)

    def shrink(self, pl):
        if pl.get("env") is not None:
            yield {k: v for k, v in pl.items() if k != "env"}
        for s in sx_shrinks(loads(pl["expr"])):
            yield {**pl, "expr": dumps(s)}

    def stats(self, pl, mo, io, acc):
        from .. import falsy as fz
        DepStream.stats(self, pl, mo, io, acc)
        fam = acc.setdefault("families", {})
        fam[pl.get("family", "?")] = fam.get(pl.get("family", "?"), 0) + 1
        e = sx_to_expr(loads(pl["expr"]))
        fs = fz.falsy_subterms(e)
        if fs:
            acc["trees_with_falsy_operand"] = acc.get("trees_with_falsy_operand", 0) + 1
            try:
                if any(bool(s) for s in fs):       # the harness' rule vs the classes' __bool__
                    acc["falsy_rule_disagrees"] = acc.get("falsy_rule_disagrees", 0) + 1
            except Exception:
                pass
        if any(isinstance(s, p.Slice) and any(isinstance(c, p.Expression) and fz.is_falsy(c)
                                               for c in s.children)
               for s in scan.subterms(e)):
            acc["falsy_slice_bound"] = acc.get("falsy_slice_bound", 0) + 1
        if pl.get("env") is not None:
            acc["evaluated"] = acc.get("evaluated", 0) + 1


class FalsyCountStream(CountStream):
    """node counter and flop counters on the trees of `deps-falsy-operands` (a counter that skips
    a falsy operand misses the nodes / operations below it).  Reference and model side as in the
    `counts` stream; a failure whose truthy twin passes is keyed `<what>-falsy-operand-skipped`."""
    name = "counts-falsy-operands"

    def cases(self, rng, tier):
        n = 450 if tier == "quick" else 9000
        for i, (_family, t, loop) in enumerate(falsy_trees(rng, n)):
            sx = dumps(specialise(rng, expr_to_sx(t), loop))
            exprs = [sx]
            if rng.random() < 0.3:
                exprs.append(sx if rng.random() < 0.5 else _twin(sx))
            yield {"what": ["numnodes", "flops", "flopscse"][(i // 3) % 3], "exprs": exprs}

    def oracle(self, pl):
        f = CountStream.oracle(self, pl)
        if f is None:
            return None
        twin = [_twin(s) for s in pl["exprs"]]
        if twin != pl["exprs"] and CountStream.oracle(self, {**pl, "exprs": twin}) is None:
            f.key = f"{pl['what']}-falsy-operand-skipped"
        return f

# }}}


def extract(ctx=None):
    """lean/PV/Generated/Analysis.lean (and Traversal.lean, whose combine / walk tables and node
    classes it builds on) from the live source of dependency.py, flop_counter.py, analysis.py and
    mapper/__init__.py (extract/analysis.py, extract/traversal.py)"""
    from extract.analysis import extract_analysis
    return extract_analysis(ctx)


PROP = Prop(
    id="C09",
    title="Dependency, node-count and flop analyses are exact",
    lean_targets=["PV.Properties.C09", "PV.Properties.C09History", "PV.Properties.C09Falsy"],
    theorems=[],
    extractors=[extract],
    streams=[DepStream(), CountStream(), NodeCountStream(), DepHistoryStream(),
             CountHistoryStream(), FalsyDepStream(), FalsyCountStream()],
    trusted_base=["Lean 4.33 kernel; axioms propext, Classical.choice, Quot.sound only",
                  "harness serialisation; Python set semantics modelled as duplicate-free lists under ==",
                  "extract/analysis.py + extract/traversal.py (ast readers of the map_* handlers, "
                  "__init__, combine, CachedMapper.__call__, the NodeCountMapper hooks; unknown shapes "
                  "are errors) and the meaning PV/Model/AnalysisTable.lean gives the handler language"],
    level_text='Lean theorems (unbounded, all flag settings): the dependency analysis returns exactly the occurrences selected by the flags (soundness: every result is an outermost selected subterm; completeness up to Python == on well-formed trees), with all composite flags off it returns exactly the free variables, and evaluation depends only on those (coincidence lemma); the flop counter equals an independent operation count and the CSE-aware counter counts a seen wrapper as 0; the node counter (an exact model of the cached walk: lookup before dispatch, store after the handler) returns exactly the number of distinct subexpressions whenever no two subterms are confusable under the cache key (type, ==), and on every well-formed tree a number between the count of ==-classes and the count of structurally distinct subterms (both bounds witnessed not to be the count in general). Tied to DependencyMapper (plain/cached, composite_leaves), get_num_nodes, FlopCounter, CSEAwareFlopCounter by correspondence AND by regenerated handler tables (T-gen): every map_* of DependencyMapper / CSECachingMapperMixin / Collector / FlopCounterBase / CSEAwareFlopCounter, combine, DependencyMapper.__init__, the NodeCountMapper hooks, get_num_nodes and the memo protocol of CachedMapper.__call__ are re-read from the source on every run (layers over the C04 combine / walk tables), and deps, flopsG, c09CountWalk are proved to be the unique solutions of the regenerated one-step equations for all expressions, flag settings, seen-sets and caches.',
    level_note='Trusted: Lean kernel; harness; Python sets modelled as duplicate-free lists under == with left-biased union. Completeness needs well-formed trees (no nan constants, duplicate-free keyword names). Node counting: the theorem needs no nan constants; on ==-confusable trees (1 / 1.0 / True below equal parents) the sentence of the property is ambiguous and the oracle accepts any count between the coarsest and the finest reading, while the correspondence (count and counted nodes in post_visit order) stays exact.',
    technique='Lean 4 proofs about the traversal model (Occurs relation, coincidence lemma) + differential correspondence + independent dataclass-field scan',
    design_ref="DESIGN.md §4 C09",
)
