"""Worker of the C19 `rational-py2` streams: runs the `Rational` methods of the Python-2-reading
copy of the tree under test (see harness/c19_py2.py) on Python ints.

    python -m harness.c19_py2_worker          (PYTHONPATH = <shadow dir>:<verif>)

stdin: one JSON request per line
    {"fn": "Rational.__add__", "self": OBJ, "other": ARG}      ARG: ["i", k] | OBJ | null
    {"fn": "Rational.__init__" | "primitives.quotient", "args": [ARG, ARG]}
    OBJ: ["raw", n, d]  fields set directly (any ints, no constructor)
         ["ctor", n, d] built by `Rational(n, d)`
stdout: one JSON reply per line: ["i", k] | ["r", n, d] | ["raise", Kind] | ["other", repr]
"""
from __future__ import annotations

import json
import os
import sys
import warnings

warnings.simplefilter("ignore")


def build(a):
    from pymbolic.rational import Rational
    if a is None:
        return None
    if a[0] == "i":
        return int(a[1])
    if a[0] == "raw":
        r = Rational.__new__(Rational)
        r.Numerator = int(a[1])
        r.Denominator = int(a[2])
        return r
    if a[0] == "ctor":
        return Rational(int(a[1]), int(a[2]))
    raise ValueError(a)


def canon(v):
    from pymbolic.rational import Rational
    if isinstance(v, bool):
        return ["other", repr(v)]
    if isinstance(v, int):
        return ["i", v]
    if isinstance(v, Rational) and type(v.Numerator) is int and type(v.Denominator) is int:
        return ["r", v.Numerator, v.Denominator]
    return ["other", repr(v)[:200]]


def run(req):
    from pymbolic.rational import Rational
    import pymbolic.primitives as prim
    fn = req["fn"]
    if fn == "Rational.__init__":
        return Rational(*[build(a) for a in req["args"]])
    if fn == "primitives.quotient":
        return prim.quotient(*[build(a) for a in req["args"]])
    cls, meth = fn.split(".")
    assert cls == "Rational"
    self = build(req["self"])
    # the function the class itself defines (`__div__` is not reachable through an operator)
    f = Rational.__dict__[meth]
    if req.get("other") is None:
        return f(self)
    return f(self, build(req["other"]))


def main():
    shadow = os.environ.get("C19_PY2_SHADOW", "")
    import pymbolic
    import pymbolic.rational
    import pymbolic.traits
    here = os.path.realpath(pymbolic.__file__)
    ok = bool(shadow) and all(
        os.path.realpath(m.__file__).startswith(os.path.realpath(shadow) + os.sep)
        for m in (pymbolic, pymbolic.rational, pymbolic.traits))
    print(json.dumps({"ok": ok, "file": here}), flush=True)
    if not ok:
        return
    for line in sys.stdin:
        line = line.strip()
        if not line:
            continue
        try:
            req = json.loads(line)
            try:
                out = canon(run(req))
            except (ArithmeticError, RuntimeError, AttributeError, TypeError, KeyError,
                    AssertionError) as ex:
                out = ["raise", type(ex).__name__]
        except Exception as ex:     # noqa: BLE001  (a broken request: never a silent pass)
            out = ["harness-error", type(ex).__name__, str(ex)[:200]]
        print(json.dumps(out), flush=True)


if __name__ == "__main__":
    main()
