"""C19: the `Rational` arithmetic of the tree under test under the PYTHON-2 READING of `/`.

`pymbolic/rational.py` and `traits.EuclideanRingTraits.lcm` were written for Python 2, where
`int / int` is floor division.  Under Python 3 every arithmetic method of a `Rational` raises
`AttributeError` (the fields are floats, `FieldTraits` has no `gcd`); the arithmetic of the bodies
can therefore only be observed under the reading they were written for.

`shadow_dir()` copies the `pymbolic` package THAT IS IMPORTED IN THIS PROCESS (the tree under
test: /repo or the worktree named by PYTHONPATH) into a temporary directory and rewrites the
syntax trees of `rational.py` and `traits.py`: every `ast.Div` (binary operator or augmented
assignment) becomes `ast.FloorDiv` — the same map the Lean side applies to the regenerated table
(`C19Table.py2`, lean/PV/Model/RationalOps.lean).  Nothing else is touched.

`Py2Worker` runs `harness.c19_py2_worker` with that directory in front of `sys.path`: one JSON
request per line, one JSON reply per line.
"""
from __future__ import annotations

import ast
import atexit
import json
import os
import shutil
import subprocess
import sys
import tempfile

VERIF = os.path.dirname(os.path.dirname(os.path.abspath(__file__)))
PY2_FILES = ("rational.py", "traits.py")

_shadow = None
_worker = None


class _Div2FloorDiv(ast.NodeTransformer):
    def __init__(self):
        self.count = 0

    def visit_BinOp(self, n):
        self.generic_visit(n)
        if isinstance(n.op, ast.Div):
            self.count += 1
            n.op = ast.FloorDiv()
        return n

    def visit_AugAssign(self, n):
        self.generic_visit(n)
        if isinstance(n.op, ast.Div):
            self.count += 1
            n.op = ast.FloorDiv()
        return n


def py2_source(src):
    """-> (source with every `/` read as `//`, number of sites)"""
    tree = ast.parse(src)
    tr = _Div2FloorDiv()
    tree = tr.visit(tree)
    ast.fix_missing_locations(tree)
    return ast.unparse(tree) + "\n", tr.count


def shadow_dir():
    """directory that holds the Python-2-reading copy of the imported `pymbolic` package"""
    global _shadow
    if _shadow is not None:
        return _shadow
    import pymbolic
    src_pkg = os.path.dirname(os.path.realpath(pymbolic.__file__))
    root = tempfile.mkdtemp(prefix="c19py2_")
    atexit.register(shutil.rmtree, root, True)
    dst_pkg = os.path.join(root, "pymbolic")
    shutil.copytree(src_pkg, dst_pkg, ignore=shutil.ignore_patterns("__pycache__", "*.pyc"))
    sites = {}
    for fn in PY2_FILES:
        path = os.path.join(dst_pkg, fn)
        with open(path) as f:
            new, count = py2_source(f.read())
        with open(path, "w") as f:
            f.write(new)
        sites[fn] = count
    _shadow = (root, src_pkg, sites)
    return _shadow


class Py2Worker:
    def __init__(self):
        root, src_pkg, sites = shadow_dir()
        env = dict(os.environ)
        env["PYTHONPATH"] = root + os.pathsep + VERIF
        env["C19_PY2_SHADOW"] = root
        self.proc = subprocess.Popen(
            [sys.executable, "-m", "harness.c19_py2_worker"], cwd=VERIF, env=env,
            stdin=subprocess.PIPE, stdout=subprocess.PIPE, stderr=subprocess.DEVNULL, text=True)
        hello = json.loads(self.proc.stdout.readline())
        if not hello.get("ok"):
            raise RuntimeError(f"c19 py2 worker: {hello}")
        self.sites = sites
        self.src_pkg = src_pkg

    def ask(self, req):
        self.proc.stdin.write(json.dumps(req) + "\n")
        self.proc.stdin.flush()
        line = self.proc.stdout.readline()
        if not line:
            raise RuntimeError("c19 py2 worker died")
        return json.loads(line)

    def close(self):
        try:
            self.proc.stdin.close()
            self.proc.wait(timeout=5)
        except Exception:
            self.proc.kill()


def worker():
    global _worker
    if _worker is None or _worker.proc.poll() is not None:
        _worker = Py2Worker()
        atexit.register(_worker.close)
    return _worker
