"""Type-directed random generators for pymbolic expressions and environments.

Every random choice derives from the `random.Random` passed in, so a seed replays exactly.
Contexts: "num" (number-valued), "int" (integer-valued), "small" (small integer: exponents, shift
counts), "bool", "any".  Mostly well-typed; `malformed` raises the rate of ill-typed children,
empty n-ary nodes, unknown variables and unsupported node types.
"""
from __future__ import annotations

import random
from fractions import Fraction

import pymbolic.primitives as p

from .sexp import Func, Record

NUM_VARS = ["x", "y", "z"]
INT_VARS = ["i", "j"]
SMALL_VARS = ["n", "m"]
BOOL_VARS = ["b", "c"]
TUP_VARS = ["t"]
FUNC_VARS = ["f", "g"]
REC_VARS = ["r"]
UNKNOWN = ["w"]


def box_values():
    """The exhaustive value box of DESIGN §3.2."""
    vals = list(range(-4, 5))
    vals += [2**63 - 1, 2**63, 2**63 + 1, -(2**63) - 1, -(2**63), -(2**63) + 1]
    vals += [True, False]
    vals += [Fraction(1, 2), Fraction(-1, 2), Fraction(3, 2), Fraction(-3, 2), Fraction(7, 3),
             Fraction(2, 1), Fraction(0, 1), Fraction(-7, 3)]
    return vals


def rand_env(rng: random.Random, big=False):
    def num():
        k = rng.random()
        if k < 0.45:
            return rng.randint(-4, 4)
        if k < 0.85:
            return Fraction(rng.randint(-6, 6), rng.randint(1, 4))
        if k < 0.9:
            return rng.choice([True, False])
        if big:
            return rng.choice([2**63 - 1, -(2**63), 10**20 + 7, Fraction(10**18 + 1, 3)])
        return rng.randint(-9, 9)
    env = {}
    for v in NUM_VARS:
        env[v] = num()
    for v in INT_VARS:
        env[v] = rng.randint(-6, 6) if not big or rng.random() < 0.7 else rng.choice([2**40, -(2**33) + 1])
    for v in SMALL_VARS:
        env[v] = rng.randint(-3, 4)
    for v in BOOL_VARS:
        env[v] = rng.random() < 0.5
    env["t"] = tuple(num() for _ in range(rng.randint(1, 3)))
    env["f"] = Func("f")
    env["g"] = Func("g")
    env["r"] = Record(u=num(), v=rng.randint(-3, 3))
    return env


class ExprGen:
    def __init__(self, rng: random.Random, malformed=0.03, floats=0.03, extra_nodes=True,
                 cse=0.08, lists=True, foreign=True):
        self.rng = rng
        self.malformed = malformed
        self.floats = floats
        self.extra_nodes = extra_nodes
        self.cse = cse
        self.lists = lists
        self.foreign = foreign

    # leaves
    def leaf(self, ctx):
        r = self.rng
        if r.random() < self.malformed:
            ctx = r.choice(["num", "int", "small", "bool", "any", "unknown", "func"])
        if ctx == "unknown":
            return p.Variable(r.choice(UNKNOWN))
        if ctx == "func":
            return p.Variable(r.choice(FUNC_VARS))
        if ctx == "num":
            k = r.random()
            if k < 0.5:
                return p.Variable(r.choice(NUM_VARS))
            if k < 0.5 + self.floats:
                return r.choice([0.5, -1.5, 2.0, 1e10, 0.0])
            if k < 0.9:
                return r.randint(-5, 5)
            return p.Variable(r.choice(INT_VARS + BOOL_VARS))
        if ctx == "int":
            k = r.random()
            if k < 0.5:
                return p.Variable(r.choice(INT_VARS))
            if k < 0.85:
                return r.randint(-6, 6)
            if k < 0.95:
                return p.Variable(r.choice(BOOL_VARS))
            return r.choice([True, False])
        if ctx == "small":
            if r.random() < 0.5:
                return p.Variable(r.choice(SMALL_VARS))
            return r.randint(-3, 4)
        if ctx == "bool":
            k = r.random()
            if k < 0.6:
                return p.Variable(r.choice(BOOL_VARS))
            if k < 0.8:
                return r.choice([True, False])
            return p.Variable(r.choice(NUM_VARS + INT_VARS))
        # any
        k = r.random()
        if k < 0.2:
            return p.Variable(r.choice(TUP_VARS + REC_VARS + FUNC_VARS))
        return self.leaf(r.choice(["num", "int", "bool"]))

    def children(self, ctx, depth, lo=1, hi=3):
        r = self.rng
        n = r.randint(lo, hi)
        if r.random() < self.malformed:
            n = 0
        return tuple(self.gen(ctx, depth - 1) for _ in range(n))

    def gen(self, ctx="num", depth=4):
        r = self.rng
        if depth <= 0 or r.random() < 0.18:
            return self.leaf(ctx)
        if r.random() < self.malformed:
            ctx = r.choice(["num", "int", "bool", "any"])
        if r.random() < self.cse:
            return p.CommonSubexpression(self.gen(ctx, depth - 1),
                                         r.choice([None, "cs", "u"]),
                                         r.choice([p.cse_scope.EVALUATION, p.cse_scope.EXPRESSION]))
        d = depth - 1
        if ctx == "small":
            k = r.random()
            if k < 0.6:
                return self.leaf("small")
            if k < 0.8:
                return p.Sum((self.leaf("small"), self.leaf("small")))
            return p.If(self.gen("bool", d), self.leaf("small"), self.leaf("small"))
        if ctx == "num":
            k = r.choice(["sum", "sum", "prod", "prod", "quot", "floordiv", "rem", "pow", "if",
                          "minmax", "int", "subscript", "lookup", "call"])
            if k == "sum":
                return p.Sum(self.children("num", depth))
            if k == "prod":
                return p.Product(self.children("num", depth))
            if k == "quot":
                return p.Quotient(self.gen("num", d), self.gen("num", d))
            if k == "floordiv":
                return p.FloorDiv(self.gen("num", d), self.gen("num", d))
            if k == "rem":
                return p.Remainder(self.gen("num", d), self.gen("num", d))
            if k == "pow":
                return p.Power(self.gen("num", d), self.gen("small", 1))
            if k == "if":
                return p.If(self.gen("bool", d), self.gen("num", d), self.gen("num", d))
            if k == "minmax":
                return r.choice([p.Min, p.Max])(self.children("num", depth))
            if k == "int":
                return self.gen("int", depth)
            if k == "subscript":
                return p.Subscript(p.Variable("t"), self.gen("small", 1))
            if k == "lookup":
                return p.Lookup(p.Variable("r"), r.choice(["u", "v", "u", "zz"]))
            if k == "call":
                return self.gen("any", depth)
        if ctx == "int":
            k = r.choice(["sum", "prod", "lshift", "rshift", "bnot", "bor", "bxor", "band",
                          "floordiv", "rem", "if", "pow"])
            if k == "sum":
                return p.Sum(self.children("int", depth))
            if k == "prod":
                return p.Product(self.children("int", depth))
            if k == "lshift":
                return p.LeftShift(self.gen("int", d), self.gen("small", 1))
            if k == "rshift":
                return p.RightShift(self.gen("int", d), self.gen("small", 1))
            if k == "bnot":
                return p.BitwiseNot(self.gen("int", d))
            if k in ("bor", "bxor", "band"):
                cls = {"bor": p.BitwiseOr, "bxor": p.BitwiseXor, "band": p.BitwiseAnd}[k]
                return cls(self.children(r.choice(["int", "int", "bool"]), depth))
            if k == "floordiv":
                return p.FloorDiv(self.gen("int", d), self.gen("int", d))
            if k == "rem":
                return p.Remainder(self.gen("int", d), self.gen("int", d))
            if k == "if":
                return p.If(self.gen("bool", d), self.gen("int", d), self.gen("int", d))
            if k == "pow":
                return p.Power(self.gen("int", d), r.randint(0, 3))
        if ctx == "bool":
            k = r.choice(["cmp", "cmp", "lnot", "lor", "land", "if"])
            if k == "cmp":
                return p.Comparison(self.gen("num", d),
                                    r.choice(["==", "!=", "<", "<=", ">", ">="]),
                                    self.gen("num", d))
            if k == "lnot":
                return p.LogicalNot(self.gen("bool", d))
            if k == "lor":
                return p.LogicalOr(self.children(r.choice(["bool", "bool", "num"]), depth))
            if k == "land":
                return p.LogicalAnd(self.children(r.choice(["bool", "bool", "num"]), depth))
            if k == "if":
                return p.If(self.gen("bool", d), self.gen("bool", d), self.gen("bool", d))
        # any
        k = r.choice(["call", "callkw", "tuple", "list", "num", "bool", "extra"])
        if k == "call":
            return p.Call(p.Variable(r.choice(FUNC_VARS)), self.children("any", depth, 0, 3))
        if k == "callkw":
            names = r.sample(["k", "l", "a", "zz"], r.randint(1, 3))
            return p.CallWithKwargs(p.Variable(r.choice(FUNC_VARS)),
                                    self.children("num", depth, 0, 2),
                                    {nm: self.gen("num", d) for nm in names})
        if k == "tuple":
            return tuple(self.children("num", depth, 0, 3))
        if k == "list":
            if not self.lists:
                return tuple(self.children("num", depth, 0, 3))
            return list(self.children("num", depth, 0, 3))
        if k == "extra" and self.extra_nodes:
            kk = r.choice(["slice", "subst", "deriv", "wild", "dot", "star", "fs", "nan", "str",
                           "none"])
            if kk == "slice":
                return p.Slice(tuple(self.gen("small", 1) for _ in range(r.randint(0, 3))))
            if kk == "subst":
                return p.Substitution(self.gen("num", d), ("x",), (self.gen("num", d),))
            if kk == "deriv":
                return p.Derivative(self.gen("num", d), ("x",))
            if kk == "wild":
                return p.Wildcard()
            if kk == "dot":
                return p.DotWildcard("a")
            if kk == "star":
                return p.StarWildcard("a")
            if kk == "fs":
                return p.FunctionSymbol()
            if kk == "nan":
                return p.NaN()
            if not self.foreign:
                return p.NaN()
            if kk == "str":
                return "abc"
            return None
        return self.gen(r.choice(["num", "bool", "int"]), depth)


def size(e) -> int:
    """Number of nodes (independent of pymbolic's own counters)."""
    import dataclasses
    if isinstance(e, p.Expression):
        n = 1
        if dataclasses.is_dataclass(e):
            for f in dataclasses.fields(e):
                n += size(getattr(e, f.name)) if not isinstance(getattr(e, f.name), str) else 0
        return n
    if isinstance(e, (tuple, list)):
        return 1 + sum(size(c) for c in e)
    if isinstance(e, dict) or hasattr(e, "items"):
        return sum(size(c) for c in e.values())
    return 1


def depth(e) -> int:
    import dataclasses
    if isinstance(e, p.Expression) and dataclasses.is_dataclass(e):
        ds = [depth(getattr(e, f.name)) for f in dataclasses.fields(e)
              if not isinstance(getattr(e, f.name), str)]
        return 1 + max(ds, default=0)
    if isinstance(e, (tuple, list)):
        return 1 + max((depth(c) for c in e), default=0)
    if hasattr(e, "items"):
        return max((depth(c) for c in e.values()), default=0)
    return 1


def node_types(e, acc=None):
    import dataclasses
    if acc is None:
        acc = {}
    nm = type(e).__name__
    acc[nm] = acc.get(nm, 0) + 1
    if isinstance(e, p.Expression) and dataclasses.is_dataclass(e):
        for f in dataclasses.fields(e):
            v = getattr(e, f.name)
            if not isinstance(v, str):
                node_types(v, acc) if not hasattr(v, "items") else [node_types(c, acc) for c in v.values()]
    elif isinstance(e, (tuple, list)):
        for c in e:
            node_types(c, acc)
    return acc
