"""Shared helpers for the text-syntax properties (C06, C07, C13): real lexer → wire tokens,
printable-fragment generators, independent flattening."""
from __future__ import annotations

import itertools

import pymbolic.primitives as p

from .sexp import A, dumps, q


def lex_tokens(s: str):
    """Tokens of the REAL lexer (pytools.lex with Parser.lex_table) in wire format, or None when
    the lexer rejects the string / a numeric literal has a letter tag."""
    import pytools.lex
    from pymbolic.parser import Parser, _whitespace
    try:
        lexed = pytools.lex.lex(Parser.lex_table, s)
    except Exception:
        return None
    out = []
    for tag, text, _idx in lexed:
        if tag is _whitespace:
            continue
        if tag == "int":
            out.append(f"(int {int(text)})")
        elif tag == "float":
            try:
                v = float(text.replace("d", "e").replace("D", "e"))
            except ValueError:
                return None
            if v != v or v in (float("inf"), float("-inf")):
                return None
            n, d = v.as_integer_ratio()
            out.append(f"(flt {q(repr(v))} {n} {d})")
        elif tag == "imaginary":
            out.append(f"(imag {q(text)})")
        elif tag == "identifier":
            out.append(f"(id {q(text)})")
        elif tag == "True":
            out.append("true")
        elif tag == "False":
            out.append("false")
        else:
            out.append(f"(sym {q(text)})")
    return out


def flatten_assoc(e):
    """Independent 'flatten nested sums and products' (no neutral-element dropping)."""
    import dataclasses
    if isinstance(e, tuple):
        return tuple(flatten_assoc(c) for c in e)
    if isinstance(e, list):
        return [flatten_assoc(c) for c in e]
    if not isinstance(e, p.Expression) or not dataclasses.is_dataclass(e):
        return e
    if isinstance(e, (p.Sum, p.Product)):
        out = []
        for c in e.children:
            c = flatten_assoc(c)
            if type(c) is type(e):
                out.extend(c.children)
            else:
                out.append(c)
        return type(e)(tuple(out))
    kw = {}
    for f in dataclasses.fields(e):
        v = getattr(e, f.name)
        if isinstance(v, tuple) and f.name in ("children", "parameters", "values"):
            kw[f.name] = tuple(None if c is None else flatten_assoc(c) for c in v)
        elif hasattr(v, "items"):
            kw[f.name] = {k: flatten_assoc(c) for k, c in v.items()}
        elif isinstance(v, (p.Expression, tuple, list)):
            kw[f.name] = flatten_assoc(v)
        else:
            kw[f.name] = v
    return type(e)(**kw)


# {{{ printable fragment

LEAVES = [p.Variable("a"), p.Variable("b"), 1, -2, 2.5, True]

def _agg(a):
    """callee / aggregate position: a numeric literal there is outside the text syntax
    ("1.u", "2(x)" are not Python either)"""
    return a if isinstance(a, p.Expression) else p.Variable("n")


BINARY = {
    "Quotient": lambda a, b: p.Quotient(a, b), "FloorDiv": lambda a, b: p.FloorDiv(a, b),
    "Remainder": lambda a, b: p.Remainder(a, b), "Power": lambda a, b: p.Power(a, b),
    "LeftShift": lambda a, b: p.LeftShift(a, b), "RightShift": lambda a, b: p.RightShift(a, b),
    "Sum": lambda a, b: p.Sum((a, b)), "Product": lambda a, b: p.Product((a, b)),
    "BitwiseOr": lambda a, b: p.BitwiseOr((a, b)), "BitwiseXor": lambda a, b: p.BitwiseXor((a, b)),
    "BitwiseAnd": lambda a, b: p.BitwiseAnd((a, b)), "LogicalOr": lambda a, b: p.LogicalOr((a, b)),
    "LogicalAnd": lambda a, b: p.LogicalAnd((a, b)),
    "Comparison<": lambda a, b: p.Comparison(a, "<", b),
    "Comparison==": lambda a, b: p.Comparison(a, "==", b),
    "Call": lambda a, b: p.Call(_agg(a), (b,)), "Subscript": lambda a, b: p.Subscript(_agg(a), b),
    "CallKw": lambda a, b: p.CallWithKwargs(_agg(a), (), {"k": b}),
    "IfThen": lambda a, b: p.If(p.Variable("c"), a, b), "IfCond": lambda a, b: p.If(a, b, p.Variable("c")),
    "Tuple": lambda a, b: (a, b), "Slice": lambda a, b: p.Subscript(p.Variable("v"), p.Slice((a, b))),
}
UNARY = {
    "BitwiseNot": lambda a: p.BitwiseNot(a), "LogicalNot": lambda a: p.LogicalNot(a),
    "Lookup": lambda a: p.Lookup(a if isinstance(a, (p.Expression, tuple)) else p.Variable("n"), "u"), "Neg": lambda a: p.Product((-1, a)),
    "Sum1": lambda a: p.Sum((a,)), "Tuple1": lambda a: (a,),
}


def two_level():
    """every (parent, child position, child) combination over the constructor alphabet"""
    x, y = p.Variable("x"), p.Variable("y")
    inner = [f(x, y) for f in BINARY.values()] + [f(x) for f in UNARY.values()] + LEAVES
    for pn, pf in BINARY.items():
        for c in inner:
            yield pn + ":L", pf(c, p.Variable("z"))
            yield pn + ":R", pf(p.Variable("z"), c)
    for pn, pf in UNARY.items():
        for c in inner:
            yield pn, pf(c)


def three_level(rng, n):
    x, y = p.Variable("x"), p.Variable("y")
    fs = list(BINARY.values())
    us = list(UNARY.values())
    for _ in range(n):
        def lvl(d):
            if d == 0:
                return rng.choice(LEAVES + [x, y])
            if rng.random() < 0.25:
                return rng.choice(us)(lvl(d - 1))
            return rng.choice(fs)(lvl(d - 1), lvl(d - 1))
        yield lvl(3)


class SyntaxGen:
    """random deep trees of the printable fragment, with negative and non-integer constants"""

    def __init__(self, rng):
        self.rng = rng

    def leaf(self):
        r = self.rng
        k = r.random()
        if k < 0.5:
            return p.Variable(r.choice(["x", "y", "z", "foo", "a1"]))
        if k < 0.75:
            return r.randint(-9, 9)
        if k < 0.9:
            return r.choice([0.5, -1.5, 2.0, 1e20, 1e-5, -0.25, 3.75])
        return r.choice([True, False])

    def gen(self, depth):
        r = self.rng
        if depth <= 0 or r.random() < 0.15:
            return self.leaf()
        g = lambda: self.gen(depth - 1)  # noqa: E731
        k = r.choice(["sum", "sum", "prod", "prod", "quot", "floordiv", "rem", "pow", "lshift",
                      "rshift", "bnot", "bor", "bxor", "band", "lnot", "lor", "land", "cmp", "if",
                      "call", "callkw", "subscript", "lookup", "neg", "tupleidx", "sliceidx"])
        n = r.randint(1, 3)
        if k == "sum":
            return p.Sum(tuple(g() for _ in range(n)))
        if k == "prod":
            return p.Product(tuple(g() for _ in range(n)))
        if k == "quot":
            return p.Quotient(g(), g())
        if k == "floordiv":
            return p.FloorDiv(g(), g())
        if k == "rem":
            return p.Remainder(g(), g())
        if k == "pow":
            return p.Power(g(), g())
        if k == "lshift":
            return p.LeftShift(g(), g())
        if k == "rshift":
            return p.RightShift(g(), g())
        if k == "bnot":
            return p.BitwiseNot(g())
        if k == "bor":
            return p.BitwiseOr(tuple(g() for _ in range(n)))
        if k == "bxor":
            return p.BitwiseXor(tuple(g() for _ in range(n)))
        if k == "band":
            return p.BitwiseAnd(tuple(g() for _ in range(n)))
        if k == "lnot":
            return p.LogicalNot(g())
        if k == "lor":
            return p.LogicalOr(tuple(g() for _ in range(n)))
        if k == "land":
            return p.LogicalAnd(tuple(g() for _ in range(n)))
        if k == "cmp":
            return p.Comparison(g(), r.choice(["==", "!=", "<", "<=", ">", ">="]), g())
        if k == "if":
            return p.If(g(), g(), g())
        if k == "call":
            return p.Call(p.Variable(r.choice(["f", "g"])), tuple(g() for _ in range(r.randint(0, 3))))
        if k == "callkw":
            names = r.sample(["k", "l", "m"], r.randint(1, 2))
            return p.CallWithKwargs(p.Variable("f"), tuple(g() for _ in range(r.randint(0, 2))),
                                    {nm: g() for nm in names})
        if k == "subscript":
            return p.Subscript(_agg(g()) if r.random() < 0.3 else p.Variable("v"), g())
        if k == "lookup":
            return p.Lookup(_agg(g()) if r.random() < 0.3 else p.Variable("v"), r.choice(["u", "w"]))
        if k == "neg":
            return p.Product((-1, g()))
        if k == "tupleidx":
            return p.Subscript(p.Variable("v"), tuple(g() for _ in range(r.randint(2, 3))))
        parts = [None if r.random() < 0.3 else g() for _ in range(r.randint(1, 3))]
        return p.Subscript(p.Variable("v"), p.Slice(tuple(parts)))

# }}}


# {{{ lexer model streams (C06/C07): strings on the wire, real lexer answers, generators

def codes(s: str) -> str:
    """a string as a list of code points (the wire protocol is line based; the lexer must see
    newlines, tabs, quotes and non-ASCII text)"""
    return "(" + " ".join(str(ord(c)) for c in s) + ")"


def real_lex_raw(s: str) -> str:
    """canonical answer of the REAL `pytools.lex.lex(Parser.lex_table, s)`: every item (tag, text),
    whitespace included, or the index of the InvalidTokenError"""
    import pytools.lex
    from pymbolic.parser import Parser
    try:
        lexed = pytools.lex.lex(Parser.lex_table, s)
    except pytools.lex.InvalidTokenError as e:
        return f"(err InvalidTokenError {e.index})"
    return "(ok (" + " ".join(f"({t} {codes(x)})" for t, x, _i in lexed) + "))"


def real_lex_tokens(s: str) -> str:
    """canonical answer for the token list the parser starts from: what `Parser.__call__` /
    `parse_terminal` make of the lexed items (whitespace dropped, `int(text)`, `parse_float(text)`)"""
    import pytools.lex
    from pymbolic.parser import Parser, _whitespace
    try:
        lexed = pytools.lex.lex(Parser.lex_table, s)
    except pytools.lex.InvalidTokenError as e:
        return f"(err InvalidTokenError {e.index})"
    out = []
    for tag, text, _idx in lexed:
        if tag is _whitespace:
            continue
        if tag == "int":
            try:
                out.append(f"(int {int(text)})")
            except ValueError:
                return "(noclaim int-too-long)"
        elif tag == "float":
            try:
                v = Parser().parse_float(text)
            except ValueError:
                return "(err FloatValueError)"
            if v != v or v in (float("inf"), float("-inf")):
                return "(noclaim nonfinite)"
            n, d = v.as_integer_ratio()
            out.append(f"(flt {q(repr(v))} {n} {d})")
        elif tag == "imaginary":
            return "(err AssertionError)"
        elif tag == "identifier":
            out.append(f"(id {q(text)})")
        elif tag == "True":
            out.append("true")
        elif tag == "False":
            out.append("false")
        else:
            out.append(f"(sym {q(text)})")
    return "(ok (" + " ".join(out) + "))"


LEX_NAMES = ["x", "y", "foo", "a1", "_t", "order", "android", "nothing", "iffy", "elsewhere", "T",
             "Tru", "Fals", "$a", "@b", "x_1", "e", "E5", "d", "j", "e5", "and_", "or2", "If",
             "true", "NaN", "inf", "min", "i", "n", "ifx", "notx", "else_", "__", "$", "@",
             "Truex", "Falsey", "True_", "False1", "Trueish"]


def rand_float(rng):
    import struct
    k = rng.random()
    if k < 0.35:
        return rng.choice([0.5, 1.5, 2.0, 1e20, 1e-5, 0.25, 3.75, 1e16, 1e15, 1e22, 0.1, 1e-7,
                           123456.789, 5e-324, 1.7976931348623157e308, 2.5e-10, 1e100, 0.0001,
                           0.00001, 4.35, 9007199254740993.0, 1.5e300, 2.2250738585072014e-308])
    if k < 0.7:
        while True:
            v = struct.unpack("d", struct.pack("Q", rng.getrandbits(63)))[0]
            if v == v and v != float("inf"):
                return v
    return rng.random() * 10 ** rng.randint(-12, 25)


class LexGen(SyntaxGen):
    """printable trees with names over the whole identifier alphabet, arbitrary finite float
    constants (every `repr` spelling) and numeric literals in aggregate position"""

    def leaf(self):
        r = self.rng
        k = r.random()
        if k < 0.45:
            return p.Variable(r.choice(LEX_NAMES))
        if k < 0.65:
            return r.choice([r.randint(-9, 9), r.randint(-10 ** 6, 10 ** 6), 10 ** r.randint(1, 40)])
        if k < 0.9:
            v = rand_float(r)
            return -v if r.random() < 0.25 else v
        return r.choice([True, False])

    def gen(self, depth):
        r = self.rng
        if depth > 0 and r.random() < 0.12:
            g = self.gen(depth - 1)
            k = r.random()
            if k < 0.4:
                return p.Lookup(g, r.choice(LEX_NAMES))
            if k < 0.6:
                return p.Call(g if isinstance(g, p.Expression) else p.Variable("f"), (self.gen(depth - 1),))
            if k < 0.8:
                return p.CallWithKwargs(p.Variable("f"), (), {r.choice(LEX_NAMES): g})
            return p.Subscript(g if isinstance(g, p.Expression) else p.Variable("v"), self.gen(depth - 1))
        return super().gen(depth)


def tidy(e):
    """move a generated tree towards the proved fragment: one-operand n-ary nodes are replaced by
    the operand, bitwise/logical nodes keep two operands, short slices get a second part, slices do
    not end in an omitted part"""
    import dataclasses
    if isinstance(e, tuple):
        return tuple(tidy(c) for c in e)
    if not isinstance(e, p.Expression) or not dataclasses.is_dataclass(e):
        return e
    if isinstance(e, (p.Sum, p.Product)):
        cs = tuple(tidy(c) for c in e.children)
        return cs[0] if len(cs) == 1 else type(e)(cs)
    if isinstance(e, (p.BitwiseOr, p.BitwiseXor, p.BitwiseAnd, p.LogicalOr, p.LogicalAnd)):
        cs = tuple(tidy(c) for c in e.children)
        return cs[0] if len(cs) == 1 else type(e)(cs[:2])
    if isinstance(e, p.Slice):
        cs = [None if c is None else tidy(c) for c in e.children]
        if len(cs) < 2:
            cs = cs + [p.Variable("n")]
        if cs[-1] is None:
            cs[-1] = p.Variable("n")
        return p.Slice(tuple(cs))
    kw = {}
    for f in dataclasses.fields(e):
        v = getattr(e, f.name)
        if isinstance(v, tuple) and f.name in ("children", "parameters", "values"):
            kw[f.name] = tuple(None if c is None else tidy(c) for c in v)
        elif hasattr(v, "items"):
            kw[f.name] = {k: tidy(c) for k, c in v.items()}
        elif isinstance(v, (p.Expression, tuple)):
            kw[f.name] = tidy(v)
        else:
            kw[f.name] = v
    return type(e)(**kw)


LEX_ALPHABET = (list("0123456789") * 3 + list("eEdDjxa_@$T") + list(".+-*/<>=!&|~^()[],: \n\t%") * 2
                + ["and", "or", "not", "if", "else", "True", "False", "é", "#", "\r", "1e5", "1.5", "2.",
                   "**", "//", "<<", ">>", "<=", ">=", "==", "!=", "Ω", "٣", "x", " ", "\x0b", "'", '"',
                   "\\", "1e+5", "e-3", ".5", "ª", "０"])


def lex_strings(rng, tier):
    """strings for the lexer streams: printed expressions, perturbed printed strings, random strings
    over the token alphabet, numeric literals in every spelling, malformed and non-ASCII text,
    and all short strings over a small alphabet"""
    import itertools as it
    nq = tier == "quick"
    g = LexGen(rng)
    for _ in range(700 if nq else 8000):
        e = g.gen(rng.randint(1, 6))
        try:
            s = str(e) if isinstance(e, p.Expression) else None
        except Exception:
            s = None
        if s is None:
            continue
        yield s, "printed"
        k = rng.random()
        if k < 0.5 and len(s) > 2:
            i = rng.randrange(len(s))
            yield s[:i] + s[i + 1:], "perturbed"
        elif k < 0.8:
            i = rng.randrange(len(s) + 1)
            yield s[:i] + rng.choice(LEX_ALPHABET) + s[i:], "perturbed"
        else:
            yield s.replace(" ", ""), "perturbed"
    for _ in range(1800 if nq else 40000):
        yield "".join(rng.choice(LEX_ALPHABET) for _ in range(rng.randint(0, 12))), "random"
    for _ in range(600 if nq else 12000):
        # numeric literals: digits, dot, exponent, tags
        parts = [rng.choice(["", "0", "1", "12", "007", str(rng.randint(0, 10 ** rng.randint(0, 20)))]),
                 rng.choice(["", ".", ".", "..", "." + str(rng.randint(0, 10 ** rng.randint(0, 20)))]),
                 rng.choice(["", "", "e", "E", "d", "D", "e+", "e-", "E+", "d-"]) +
                 rng.choice(["", "", "5", "05", str(rng.randint(0, 400)), str(rng.randint(0, 20))]),
                 rng.choice(["", "", "", "j", "x", "L", "f0", "_", " ", "if", ".u", ".5", "e5"])]
        yield "".join(parts), "numeric"
    for v in ([repr(rand_float(rng)) for _ in range(400 if nq else 8000)]):
        yield v, "repr"
    for s in ["", " ", "\n", "\t \n", "a  b", "a\rb", "1if x", "1 if x", "x.5", "x .5", "1..2", "1.u", "2.5.u",
              "Truex", "True.x", "True$x", "True@", "Falsey", "True1", "True_", "TrueFalse", "True False", "and", "andy", "and$x", "and@", "not(x)", "notx", "if", "else1", "1e5é", "andé",
              "1j", "1.5j", "1e5j", ".5j", "1e5_", "1e5x_", "1.5e3x", "1.5e+x", "1e", "1e+", "1.e", "12ab34",
              "!x", "!=x", "=!", "<<=", ">>>", "<>", "**=", "***", "////", "a.b.c", "...", "$a@1", "@", "$",
              "1e400", "1e-400", "0." + "0" * 400 + "1", "9" * 30, "1" * 400 + ".5", "1e0000000000000000005",
              "0e999999999999", "5e-324", "2.4703282292062327e-324", "2.4703282292062328e-324",
              "1.7976931348623158e308", "1.7976931348623159e308", "x" * 300, "é", "aé", "1٣",
              "a b", "１２", "0x10", "1_000", "1__", "0b1", "1e5.5", "1.5.5", "1.5e5e5", "2d3D4"]:
        yield s, "edge"
    alpha = ["1", ".", "e", "+", "a", " ", "*", "=", "<", "j"]
    for n in range(1, 4 if nq else 5):
        for t in it.product(alpha, repeat=n):
            yield "".join(t), "exhaustive"

# }}}


# {{{ slices OUTSIDE a subscript's own index list (C06)
#
# The text syntax has slices as expressions in their own right: the printer writes a slice bare
# wherever the enclosing precedence is PREC_NONE (call argument, keyword value, tuple / list
# element, subscript index, the whole text) and parenthesised everywhere else, and the parser reads
# a colon in every one of those places.  What FOLLOWS the slice in the text (`)`, `,`, `]`, `=`-less
# keyword boundary, an operator, the end of the input) differs from context to context, and for a
# slice with an omitted last bound that follower comes directly after the colon.

def slice_shapes(maxlen=3):
    """every pattern of present / omitted bounds (True = present) of 2..maxlen parts that the text
    can express: a slice ending in TWO omitted parts prints like the slice one part shorter
    (known finding `slice-trailing-omitted`), so those are left to the subscript cases"""
    for n in range(2, maxlen + 1):
        for pat in itertools.product((True, False), repeat=n):
            if not pat[-1] and not pat[-2]:
                continue
            yield pat


def make_slice(pat, bounds):
    """the slice with the given presence pattern; `bounds` supplies the present parts in order"""
    it = iter(bounds)
    return p.Slice(tuple(next(it) if present else None for present in pat))


def slice_contexts():
    """(tag, hole -> tree): every place of the text syntax an expression can stand in, with
    different followers of the hole in the printed text (first / middle / last argument, keyword
    value first / last, tuple and list element, index element, operand of every operator on either
    side, branch / condition of a conditional, callee, aggregate)"""
    c, d, f, g = p.Variable("c"), p.Variable("d"), p.Variable("f"), p.Variable("g")
    out = []
    for name, fn in BINARY.items():
        if name == "Slice":
            continue        # a slice as a bound of a slice: nested_slice_cases
        out.append((name + ":L", lambda s, fn=fn: fn(s, c)))
        out.append((name + ":R", lambda s, fn=fn: fn(c, s)))
    for name, fn in UNARY.items():
        out.append((name, lambda s, fn=fn: fn(s)))
    out += [
        ("top", lambda s: s),
        ("Call:only", lambda s: p.Call(f, (s,))),
        ("Call:first", lambda s: p.Call(f, (s, c))),
        ("Call:middle", lambda s: p.Call(f, (c, s, d))),
        ("Call:last", lambda s: p.Call(f, (c, d, s))),
        ("Call:callee", lambda s: p.Call(s, (c,))),
        ("Call:callee-noargs", lambda s: p.Call(s, ())),
        ("CallKw:only", lambda s: p.CallWithKwargs(f, (), {"k": s})),
        ("CallKw:after-positional", lambda s: p.CallWithKwargs(f, (c,), {"k": s})),
        ("CallKw:first-kw", lambda s: p.CallWithKwargs(f, (c,), {"k": s, "l": d})),
        ("CallKw:last-kw", lambda s: p.CallWithKwargs(f, (), {"k": d, "l": s})),
        ("CallKw:positional", lambda s: p.CallWithKwargs(f, (s,), {"k": d})),
        ("CallKw:last-positional", lambda s: p.CallWithKwargs(f, (c, s), {"k": d})),
        ("Tuple:first3", lambda s: (s, c, d)),
        ("Tuple:middle", lambda s: (c, s, d)),
        ("Tuple:last3", lambda s: (c, d, s)),
        ("Tuple:nested-last", lambda s: ((c, s), d)),
        ("Tuple:nested-only", lambda s: ((s,),)),
        ("Call:tuple-arg-last", lambda s: p.Call(f, ((c, s),))),
        ("Call:tuple-arg-first", lambda s: p.Call(f, ((s, c), d))),
        ("List:only", lambda s: [s]),
        ("List:first", lambda s: [s, c]),
        ("List:last", lambda s: [c, s]),
        ("Index:only", lambda s: p.Subscript(g, s)),
        ("Index:first", lambda s: p.Subscript(g, (s, c))),
        ("Index:middle", lambda s: p.Subscript(g, (c, s, d))),
        ("Index:last", lambda s: p.Subscript(g, (c, s))),
        ("Index:of-call-last", lambda s: p.Subscript(g, p.Call(f, (c, s)))),
        ("Index:of-tuple-last", lambda s: p.Subscript(g, ((c, s), d))),
        ("Subscript:aggregate", lambda s: p.Subscript(s, c)),
        ("Subscript:aggregate-tuple-index", lambda s: p.Subscript(s, (c, d))),
        ("If:else", lambda s: p.If(c, d, s)),
        ("Lookup:twice", lambda s: p.Lookup(p.Lookup(s, "u"), "w")),
        ("Sum:middle", lambda s: p.Sum((c, s, d))),
        ("Product:middle", lambda s: p.Product((c, s, d))),
        ("Neg:of-call", lambda s: p.Product((-1, p.Call(f, (s,))))),
        ("Power:exponent-of-call", lambda s: p.Power(c, p.Call(f, (d, s)))),
    ]
    return out


SLICE_BOUNDS = [p.Variable("a"), p.Variable("b"), p.Variable("e"), 1, -2, 2.5, True,
                p.Sum((p.Variable("a"), 1)), p.Product((-1, p.Variable("b"))),
                p.Power(p.Variable("a"), 2), p.Call(p.Variable("h"), (p.Variable("a"),)),
                p.Comparison(p.Variable("a"), "<", p.Variable("b")),
                p.Subscript(p.Variable("v"), p.Variable("b")), p.LogicalNot(p.Variable("a")),
                p.Call(p.Variable("h"), (p.Slice((p.Variable("a"), None)),)),
                p.Subscript(p.Variable("v"), p.Slice((None, p.Variable("b"), None)))]


def slice_context_cases(rng, tier):
    """(tag, tree): every expressible slice shape in every context (plain variable bounds), then
    every context with a random shape and random small bounds, then contexts nested in contexts"""
    ctxs = slice_contexts()
    shapes = list(slice_shapes(3 if tier == "quick" else 4))
    names = [p.Variable(n) for n in ("a", "b", "e", "m")]
    for pat in shapes:
        s = make_slice(pat, names)
        code = "".join("x" if t else "_" for t in pat)
        for tag, ctx in ctxs:
            yield f"slice-context:{tag}:{code}", ctx(s)

    def rand_slice():
        pat = rng.choice(shapes)
        return make_slice(pat, [rng.choice(SLICE_BOUNDS) for _ in pat])

    for tag, ctx in ctxs:
        for _ in range(2 if tier == "quick" else 12):
            yield f"slice-context:{tag}:bounds", ctx(rand_slice())
    # two slices next to each other (the follower of the first is the separator, of the second the
    # closing bracket), and a context inside a context
    c, f, g = p.Variable("c"), p.Variable("f"), p.Variable("g")
    for _ in range(40 if tier == "quick" else 600):
        s1, s2 = rand_slice(), rand_slice()
        yield "slice-context:pair", rng.choice([
            lambda: p.Call(f, (s1, s2)), lambda: (s1, s2), lambda: p.Subscript(g, (s1, s2)),
            lambda: p.CallWithKwargs(f, (s1,), {"k": s2}), lambda: p.Sum((s1, s2)),
            lambda: p.CallWithKwargs(f, (), {"k": s1, "l": s2}), lambda: [s1, s2],
            lambda: p.If(s1, c, s2), lambda: p.Comparison(s1, "==", s2)])()
    # a list is an expression of the text syntax only at the top (inside a node it is not even
    # hashable): no list context inside another context
    inner = [tc for tc in ctxs if not tc[0].startswith("List")]
    for _ in range(500 if tier == "quick" else 12000):
        (t1, c1), (t2, c2) = rng.choice(ctxs), rng.choice(inner)
        yield f"slice-context:{t1}/{t2}", c1(c2(rand_slice()))


def expr_positions(e, path=()):
    """paths of all the places in `e` where an expression of the text syntax stands (callee,
    aggregate, operands, arguments, keyword values, tuple / list elements, index, present slice
    bounds); names, operator strings and omitted slice bounds are not places"""
    import dataclasses
    yield path
    if isinstance(e, (tuple, list)):
        for i, ch in enumerate(e):
            yield from expr_positions(ch, path + (i,))
        return
    if not isinstance(e, p.Expression) or not dataclasses.is_dataclass(e):
        return
    for fld in dataclasses.fields(e):
        v = getattr(e, fld.name)
        if isinstance(v, (tuple, list)) and fld.name in ("children", "parameters", "values", "index"):
            if fld.name == "index":
                yield from expr_positions(v, path + (fld.name,))
                continue
            for i, ch in enumerate(v):
                if ch is not None:
                    yield from expr_positions(ch, path + (fld.name, i))
        elif hasattr(v, "items"):
            for k, ch in v.items():
                yield from expr_positions(ch, path + (fld.name, k))
        elif isinstance(v, p.Expression) or (fld.name in ("aggregate", "function", "index", "child",
                                                          "condition", "then", "else_", "left", "right",
                                                          "numerator", "denominator", "base", "exponent",
                                                          "shiftee", "shift", "dividend", "divisor")
                                             and not isinstance(v, str)):
            yield from expr_positions(v, path + (fld.name,))


def replace_at(e, path, new):
    """`e` with the place `path` (of `expr_positions`) holding `new`"""
    import dataclasses
    if not path:
        return new
    k, rest = path[0], path[1:]
    if isinstance(e, tuple):
        return tuple(replace_at(ch, rest, new) if i == k else ch for i, ch in enumerate(e))
    if isinstance(e, list):
        return [replace_at(ch, rest, new) if i == k else ch for i, ch in enumerate(e)]
    v = getattr(e, k)
    if isinstance(v, (tuple, list)) and k != "index":
        i, rest = rest[0], rest[1:]
        nv = type(v)(replace_at(ch, rest, new) if j == i else ch for j, ch in enumerate(v))
    elif hasattr(v, "items"):
        key, rest = rest[0], rest[1:]
        nv = {kk: (replace_at(ch, rest, new) if kk == key else ch) for kk, ch in v.items()}
    else:
        nv = replace_at(v, rest, new)
    return dataclasses.replace(e, **{k: nv})


def under_slice(e, path):
    """is the place `path` inside a bound of a slice (at any depth)?"""
    cur = e
    i = 0
    while i < len(path):
        if isinstance(cur, p.Slice):
            return True
        k = path[i]
        if isinstance(cur, (tuple, list)):
            cur = cur[k]
            i += 1
            continue
        v = getattr(cur, k)
        if (isinstance(v, (tuple, list)) and k != "index") or hasattr(v, "items"):
            cur = v[path[i + 1]]
            i += 2
        else:
            cur = v
            i += 1
    return False


def slices_anywhere(rng, n, maxlen=3):
    """random deep trees of the printable fragment with ONE place (any: chosen uniformly among all
    places of the tree outside slice bounds) holding a slice of a random expressible shape with
    random bounds.  Two thirds of the host trees are `tidy` (no one-operand n-ary nodes, two-operand
    bitwise / logical nodes, closed slices of their own), so that the known findings about those
    shapes do not hide the slice."""
    g = SyntaxGen(rng)
    shapes = list(slice_shapes(maxlen))
    for i in range(n):
        e = g.gen(rng.randint(1, 5))
        if i % 3:
            e = tidy(e)
        places = [pt for pt in expr_positions(e) if not under_slice(e, pt)]
        pt = rng.choice(places)
        pat = rng.choice(shapes)
        bounds = [g.gen(rng.randint(0, 2)) if rng.random() < 0.4 else g.leaf() for _ in pat]
        if i % 3:
            bounds = [tidy(b) for b in bounds]
        yield replace_at(e, pt, make_slice(pat, bounds))


def nested_slice_cases():
    """a slice as a bound of a slice (printed without parentheses: known finding Slice>Slice)"""
    a, b, c, v = p.Variable("a"), p.Variable("b"), p.Variable("c"), p.Variable("v")
    inner = [p.Slice((a, b)), p.Slice((a, None)), p.Slice((None, b))]
    for s in inner:
        for outer in (p.Slice((s, c)), p.Slice((c, s)), p.Slice((None, s)), p.Slice((c, None, s))):
            yield outer
            yield p.Subscript(v, outer)
            yield p.Call(v, (outer,))

# }}}
