"""Shared helpers for the text-syntax properties (C06, C07, C13): real lexer → wire tokens,
printable-fragment generators, independent flattening."""
from __future__ import annotations

import itertools

import pymbolic.primitives as p

from .sexp import A, dumps, q


def lex_tokens(s: str):
    """Tokens of the REAL lexer (pytools.lex with Parser.lex_table) in wire format, or None when
    the lexer rejects the string / a numeric literal has a letter tag."""
    import pytools.lex
    from pymbolic.parser import Parser, _whitespace
    try:
        lexed = pytools.lex.lex(Parser.lex_table, s)
    except Exception:
        return None
    out = []
    for tag, text, _idx in lexed:
        if tag is _whitespace:
            continue
        if tag == "int":
            out.append(f"(int {int(text)})")
        elif tag == "float":
            try:
                v = float(text.replace("d", "e").replace("D", "e"))
            except ValueError:
                return None
            if v != v or v in (float("inf"), float("-inf")):
                return None
            n, d = v.as_integer_ratio()
            out.append(f"(flt {q(repr(v))} {n} {d})")
        elif tag == "imaginary":
            out.append(f"(imag {q(text)})")
        elif tag == "identifier":
            out.append(f"(id {q(text)})")
        elif tag == "True":
            out.append("true")
        elif tag == "False":
            out.append("false")
        else:
            out.append(f"(sym {q(text)})")
    return out


def flatten_assoc(e):
    """Independent 'flatten nested sums and products' (no neutral-element dropping)."""
    import dataclasses
    if isinstance(e, tuple):
        return tuple(flatten_assoc(c) for c in e)
    if isinstance(e, list):
        return [flatten_assoc(c) for c in e]
    if not isinstance(e, p.Expression) or not dataclasses.is_dataclass(e):
        return e
    if isinstance(e, (p.Sum, p.Product)):
        out = []
        for c in e.children:
            c = flatten_assoc(c)
            if type(c) is type(e):
                out.extend(c.children)
            else:
                out.append(c)
        return type(e)(tuple(out))
    kw = {}
    for f in dataclasses.fields(e):
        v = getattr(e, f.name)
        if isinstance(v, tuple) and f.name in ("children", "parameters", "values"):
            kw[f.name] = tuple(None if c is None else flatten_assoc(c) for c in v)
        elif hasattr(v, "items"):
            kw[f.name] = {k: flatten_assoc(c) for k, c in v.items()}
        elif isinstance(v, (p.Expression, tuple, list)):
            kw[f.name] = flatten_assoc(v)
        else:
            kw[f.name] = v
    return type(e)(**kw)


# {{{ printable fragment

LEAVES = [p.Variable("a"), p.Variable("b"), 1, -2, 2.5, True]

def _agg(a):
    """callee / aggregate position: a numeric literal there is outside the text syntax
    ("1.u", "2(x)" are not Python either)"""
    return a if isinstance(a, p.Expression) else p.Variable("n")


BINARY = {
    "Quotient": lambda a, b: p.Quotient(a, b), "FloorDiv": lambda a, b: p.FloorDiv(a, b),
    "Remainder": lambda a, b: p.Remainder(a, b), "Power": lambda a, b: p.Power(a, b),
    "LeftShift": lambda a, b: p.LeftShift(a, b), "RightShift": lambda a, b: p.RightShift(a, b),
    "Sum": lambda a, b: p.Sum((a, b)), "Product": lambda a, b: p.Product((a, b)),
    "BitwiseOr": lambda a, b: p.BitwiseOr((a, b)), "BitwiseXor": lambda a, b: p.BitwiseXor((a, b)),
    "BitwiseAnd": lambda a, b: p.BitwiseAnd((a, b)), "LogicalOr": lambda a, b: p.LogicalOr((a, b)),
    "LogicalAnd": lambda a, b: p.LogicalAnd((a, b)),
    "Comparison<": lambda a, b: p.Comparison(a, "<", b),
    "Comparison==": lambda a, b: p.Comparison(a, "==", b),
    "Call": lambda a, b: p.Call(_agg(a), (b,)), "Subscript": lambda a, b: p.Subscript(_agg(a), b),
    "CallKw": lambda a, b: p.CallWithKwargs(_agg(a), (), {"k": b}),
    "IfThen": lambda a, b: p.If(p.Variable("c"), a, b), "IfCond": lambda a, b: p.If(a, b, p.Variable("c")),
    "Tuple": lambda a, b: (a, b), "Slice": lambda a, b: p.Subscript(p.Variable("v"), p.Slice((a, b))),
}
UNARY = {
    "BitwiseNot": lambda a: p.BitwiseNot(a), "LogicalNot": lambda a: p.LogicalNot(a),
    "Lookup": lambda a: p.Lookup(a if isinstance(a, (p.Expression, tuple)) else p.Variable("n"), "u"), "Neg": lambda a: p.Product((-1, a)),
    "Sum1": lambda a: p.Sum((a,)), "Tuple1": lambda a: (a,),
}


def two_level():
    """every (parent, child position, child) combination over the constructor alphabet"""
    x, y = p.Variable("x"), p.Variable("y")
    inner = [f(x, y) for f in BINARY.values()] + [f(x) for f in UNARY.values()] + LEAVES
    for pn, pf in BINARY.items():
        for c in inner:
            yield pn + ":L", pf(c, p.Variable("z"))
            yield pn + ":R", pf(p.Variable("z"), c)
    for pn, pf in UNARY.items():
        for c in inner:
            yield pn, pf(c)


def three_level(rng, n):
    x, y = p.Variable("x"), p.Variable("y")
    fs = list(BINARY.values())
    us = list(UNARY.values())
    for _ in range(n):
        def lvl(d):
            if d == 0:
                return rng.choice(LEAVES + [x, y])
            if rng.random() < 0.25:
                return rng.choice(us)(lvl(d - 1))
            return rng.choice(fs)(lvl(d - 1), lvl(d - 1))
        yield lvl(3)


class SyntaxGen:
    """random deep trees of the printable fragment, with negative and non-integer constants"""

    def __init__(self, rng):
        self.rng = rng

    def leaf(self):
        r = self.rng
        k = r.random()
        if k < 0.5:
            return p.Variable(r.choice(["x", "y", "z", "foo", "a1"]))
        if k < 0.75:
            return r.randint(-9, 9)
        if k < 0.9:
            return r.choice([0.5, -1.5, 2.0, 1e20, 1e-5, -0.25, 3.75])
        return r.choice([True, False])

    def gen(self, depth):
        r = self.rng
        if depth <= 0 or r.random() < 0.15:
            return self.leaf()
        g = lambda: self.gen(depth - 1)  # noqa: E731
        k = r.choice(["sum", "sum", "prod", "prod", "quot", "floordiv", "rem", "pow", "lshift",
                      "rshift", "bnot", "bor", "bxor", "band", "lnot", "lor", "land", "cmp", "if",
                      "call", "callkw", "subscript", "lookup", "neg", "tupleidx", "sliceidx"])
        n = r.randint(1, 3)
        if k == "sum":
            return p.Sum(tuple(g() for _ in range(n)))
        if k == "prod":
            return p.Product(tuple(g() for _ in range(n)))
        if k == "quot":
            return p.Quotient(g(), g())
        if k == "floordiv":
            return p.FloorDiv(g(), g())
        if k == "rem":
            return p.Remainder(g(), g())
        if k == "pow":
            return p.Power(g(), g())
        if k == "lshift":
            return p.LeftShift(g(), g())
        if k == "rshift":
            return p.RightShift(g(), g())
        if k == "bnot":
            return p.BitwiseNot(g())
        if k == "bor":
            return p.BitwiseOr(tuple(g() for _ in range(n)))
        if k == "bxor":
            return p.BitwiseXor(tuple(g() for _ in range(n)))
        if k == "band":
            return p.BitwiseAnd(tuple(g() for _ in range(n)))
        if k == "lnot":
            return p.LogicalNot(g())
        if k == "lor":
            return p.LogicalOr(tuple(g() for _ in range(n)))
        if k == "land":
            return p.LogicalAnd(tuple(g() for _ in range(n)))
        if k == "cmp":
            return p.Comparison(g(), r.choice(["==", "!=", "<", "<=", ">", ">="]), g())
        if k == "if":
            return p.If(g(), g(), g())
        if k == "call":
            return p.Call(p.Variable(r.choice(["f", "g"])), tuple(g() for _ in range(r.randint(0, 3))))
        if k == "callkw":
            names = r.sample(["k", "l", "m"], r.randint(1, 2))
            return p.CallWithKwargs(p.Variable("f"), tuple(g() for _ in range(r.randint(0, 2))),
                                    {nm: g() for nm in names})
        if k == "subscript":
            return p.Subscript(_agg(g()) if r.random() < 0.3 else p.Variable("v"), g())
        if k == "lookup":
            return p.Lookup(_agg(g()) if r.random() < 0.3 else p.Variable("v"), r.choice(["u", "w"]))
        if k == "neg":
            return p.Product((-1, g()))
        if k == "tupleidx":
            return p.Subscript(p.Variable("v"), tuple(g() for _ in range(r.randint(2, 3))))
        parts = [None if r.random() < 0.3 else g() for _ in range(r.randint(1, 3))]
        return p.Subscript(p.Variable("v"), p.Slice(tuple(parts)))

# }}}
