"""S-expression wire format shared with the Lean driver (lean/PV/Model/Sexp.lean)."""
from __future__ import annotations

from fractions import Fraction


def q(s: str) -> str:
    return '"' + s.replace("\\", "\\\\").replace('"', '\\"') + '"'


class Atom(str):
    """A bare atom (distinguished from a quoted string)."""
    __slots__ = ()


def dumps(x) -> str:
    """x: nested lists of Atom / str (quoted) / int / bool."""
    if isinstance(x, Atom):
        return str(x)
    if isinstance(x, bool):
        return "true" if x else "false"
    if isinstance(x, int):
        return str(x)
    if isinstance(x, str):
        return q(x)
    if isinstance(x, (list, tuple)):
        return "(" + " ".join(dumps(y) for y in x) + ")"
    raise TypeError(f"cannot dump {x!r}")


def loads(text: str):
    """Parse one S-expression; strings come back as str, atoms as Atom."""
    pos = 0
    n = len(text)
    stack = [[]]
    while pos < n:
        c = text[pos]
        if c in " \t\r\n":
            pos += 1
        elif c == "(":
            stack.append([])
            pos += 1
        elif c == ")":
            top = stack.pop()
            stack[-1].append(top)
            pos += 1
        elif c == '"':
            pos += 1
            buf = []
            while text[pos] != '"':
                if text[pos] == "\\":
                    pos += 1
                buf.append(text[pos])
                pos += 1
            pos += 1
            stack[-1].append("".join(buf))
        else:
            start = pos
            while pos < n and text[pos] not in ' \t\r\n()"':
                pos += 1
            stack[-1].append(Atom(text[start:pos]))
    assert len(stack) == 1 and len(stack[0]) == 1, text
    return stack[0][0]


A = Atom

# {{{ pymbolic expressions

def _float_parts(x: float):
    import math
    if math.isnan(x) or math.isinf(x):
        return [A("Flt"), repr(x), 0, 0]
    n, d = x.as_integer_ratio()
    return [A("Flt"), repr(x), n, d]


_NARY = ("Sum", "Product", "BitwiseOr", "BitwiseXor", "BitwiseAnd", "LogicalOr",
         "LogicalAnd", "Min", "Max")
_BIN = {"Quotient": ("numerator", "denominator"), "FloorDiv": ("numerator", "denominator"),
        "Remainder": ("numerator", "denominator"), "Power": ("base", "exponent"),
        "LeftShift": ("shiftee", "shift"), "RightShift": ("shiftee", "shift")}
_UN = ("BitwiseNot", "LogicalNot")


class Unencodable(Exception):
    pass


def expr_to_sx(e):
    import pymbolic.primitives as p
    if e is None:
        return A("nil")
    if isinstance(e, bool):
        return [A("Bool"), e]
    if isinstance(e, int):
        return [A("Int"), int(e)]
    if isinstance(e, float):
        return _float_parts(e)
    if isinstance(e, str):
        return [A("Str"), e]
    if isinstance(e, tuple):
        return [A("Tuple"), *[expr_to_sx(c) for c in e]]
    if isinstance(e, list):
        return [A("List"), *[expr_to_sx(c) for c in e]]
    name = type(e).__name__
    if type(e).__module__ != "pymbolic.primitives":
        raise Unencodable(type(e))
    if name == "Variable":
        return [A("Var"), e.name]
    if name in _NARY:
        return [A(name), *[expr_to_sx(c) for c in e.children]]
    if name in _BIN:
        a, b = _BIN[name]
        return [A(name), expr_to_sx(getattr(e, a)), expr_to_sx(getattr(e, b))]
    if name in _UN:
        return [A(name), expr_to_sx(e.child)]
    if name == "Comparison":
        return [A("Comparison"), expr_to_sx(e.left), e.operator, expr_to_sx(e.right)]
    if name == "If":
        return [A("If"), expr_to_sx(e.condition), expr_to_sx(e.then), expr_to_sx(e.else_)]
    if name == "Call":
        return [A("Call"), expr_to_sx(e.function), [expr_to_sx(c) for c in e.parameters]]
    if name == "CallWithKwargs":
        return [A("CallKw"), expr_to_sx(e.function), [expr_to_sx(c) for c in e.parameters],
                list(e.kw_parameters.keys()),
                [expr_to_sx(c) for c in e.kw_parameters.values()]]
    if name == "Subscript":
        return [A("Subscript"), expr_to_sx(e.aggregate), expr_to_sx(e.index)]
    if name == "Lookup":
        return [A("Lookup"), expr_to_sx(e.aggregate), e.name]
    if name == "CommonSubexpression":
        return [A("CSE"), expr_to_sx(e.child),
                A("nil") if e.prefix is None else e.prefix, e.scope]
    if name == "Substitution":
        return [A("Substitution"), expr_to_sx(e.child), list(e.variables),
                [expr_to_sx(c) for c in e.values]]
    if name == "Derivative":
        return [A("Derivative"), expr_to_sx(e.child), list(e.variables)]
    if name == "Slice":
        return [A("Slice"), *[expr_to_sx(c) for c in e.children]]
    if name == "NaN":
        return [A("NaN")]
    if name == "Wildcard":
        return [A("Wildcard")]
    if name == "DotWildcard":
        return [A("DotWildcard"), e.name]
    if name == "StarWildcard":
        return [A("StarWildcard"), e.name]
    if name == "FunctionSymbol":
        return [A("FunctionSymbol")]
    raise Unencodable(type(e))


def sx_to_expr(s):
    import pymbolic.primitives as p
    if isinstance(s, Atom):
        if s == "nil":
            return None
        raise ValueError(s)
    h = s[0]
    if h == "Int":
        return int(s[1])
    if h == "Bool":
        return s[1] == "true"
    if h == "Flt":
        return float(s[1])
    if h == "Str":
        return s[1]
    if h == "Var":
        return p.Variable(s[1])
    if h == "Tuple":
        return tuple(sx_to_expr(c) for c in s[1:])
    if h == "List":
        return [sx_to_expr(c) for c in s[1:]]
    if h in _NARY:
        return getattr(p, h)(tuple(sx_to_expr(c) for c in s[1:]))
    if h in _BIN or h in _UN:
        return getattr(p, h)(*[sx_to_expr(c) for c in s[1:]])
    if h == "Comparison":
        return p.Comparison(sx_to_expr(s[1]), s[2], sx_to_expr(s[3]))
    if h == "If":
        return p.If(*[sx_to_expr(c) for c in s[1:]])
    if h == "Call":
        return p.Call(sx_to_expr(s[1]), tuple(sx_to_expr(c) for c in s[2]))
    if h == "CallKw":
        return p.CallWithKwargs(sx_to_expr(s[1]), tuple(sx_to_expr(c) for c in s[2]),
                                dict(zip(s[3], [sx_to_expr(c) for c in s[4]])))
    if h == "Subscript":
        return p.Subscript(sx_to_expr(s[1]), sx_to_expr(s[2]))
    if h == "Lookup":
        return p.Lookup(sx_to_expr(s[1]), s[2])
    if h == "CSE":
        from pymbolic.primitives import CommonSubexpression
        pref = None if isinstance(s[2], Atom) else s[2]
        return CommonSubexpression(sx_to_expr(s[1]), pref, s[3])
    if h == "Substitution":
        return p.Substitution(sx_to_expr(s[1]), tuple(s[2]), tuple(sx_to_expr(c) for c in s[3]))
    if h == "Derivative":
        return p.Derivative(sx_to_expr(s[1]), tuple(s[2]))
    if h == "Slice":
        return p.Slice(tuple(sx_to_expr(c) for c in s[1:]))
    if h == "NaN":
        return p.NaN()
    if h == "Wildcard":
        return p.Wildcard()
    if h == "DotWildcard":
        return p.DotWildcard(s[1])
    if h == "StarWildcard":
        return p.StarWildcard(s[1])
    if h == "FunctionSymbol":
        return p.FunctionSymbol()
    raise ValueError(h)

# }}}


# {{{ values

class App:
    """Result of calling an environment function: an uninterpreted constructor."""
    __slots__ = ("f", "args", "kw")

    def __init__(self, f, args, kw):
        self.f, self.args, self.kw = f, tuple(args), dict(kw)

    def __eq__(self, other):
        return (type(other) is App and self.f == other.f and self.args == other.args
                and self.kw == other.kw)

    def __hash__(self):
        return hash((self.f, self.args, tuple(sorted(self.kw.items(), key=lambda kv: kv[0]))))

    def __repr__(self):
        return f"App({self.f!r}, {self.args!r}, {self.kw!r})"


class Func:
    """An environment function; counts its calls."""
    def __init__(self, name):
        self.name = name
        self.calls = []

    def __call__(self, *args, **kw):
        r = App(self.name, args, kw)
        self.calls.append(r)
        return r

    def __eq__(self, other):
        return type(other) is Func and other.name == self.name

    def __hash__(self):
        return hash(("Func", self.name))


class Record:
    """An object with attributes."""
    def __init__(self, **fields):
        self.__dict__.update(fields)

    def __eq__(self, other):
        return type(other) is Record and self.__dict__ == other.__dict__

    def __hash__(self):
        return hash(tuple(self.__dict__))


def value_to_sx(v):
    if isinstance(v, bool):
        return [A("bool"), v]
    if isinstance(v, int):
        return [A("int"), int(v)]
    if isinstance(v, Fraction):
        return [A("frac"), v.numerator, v.denominator]
    if isinstance(v, (float, complex)):
        return [A("inexact")]
    if v is None:
        return [A("none")]
    if isinstance(v, str):
        return [A("str"), v]
    if isinstance(v, tuple):
        return [A("tup"), *[value_to_sx(c) for c in v]]
    if isinstance(v, list):
        return [A("lst"), *[value_to_sx(c) for c in v]]
    if isinstance(v, Func):
        return [A("func"), v.name]
    if isinstance(v, App):
        return [A("app"), v.f, [value_to_sx(c) for c in v.args],
                [[k, value_to_sx(w)] for k, w in sorted(v.kw.items())]]
    if isinstance(v, Record):
        return [A("rec"), list(v.__dict__.keys()), [value_to_sx(c) for c in v.__dict__.values()]]
    try:
        import numpy as np
        if isinstance(v, np.bool_):
            return [A("bool"), bool(v)]
        if isinstance(v, np.integer):
            return [A("int"), int(v)]
        if isinstance(v, np.floating):
            return [A("inexact")]
    except ImportError:
        pass
    return [A("other"), type(v).__name__]


def exc_to_sx(ex):
    from pymbolic.mapper import UnsupportedExpressionError
    from pymbolic.mapper.evaluator import UnknownVariableError
    if isinstance(ex, UnknownVariableError):
        return [A("err"), A("UnknownVariable"), str(ex.args[0]) if ex.args else ""]
    if isinstance(ex, UnsupportedExpressionError):
        return [A("err"), A("UnsupportedExpression")]
    if isinstance(ex, ZeroDivisionError):
        return [A("err"), A("ZeroDivision")]
    if isinstance(ex, NotImplementedError):
        return [A("err"), A("NotImplemented")]
    if isinstance(ex, TypeError):
        return [A("err"), A("TypeError")]
    if isinstance(ex, ValueError):
        if "invalid foreign object" in str(ex):
            return [A("err"), A("Foreign")]
        return [A("err"), A("ValueError")]
    if isinstance(ex, IndexError):
        return [A("err"), A("IndexError")]
    if isinstance(ex, AttributeError):
        return [A("err"), A("AttributeError")]
    if isinstance(ex, KeyError):
        return [A("err"), A("KeyError")]
    if isinstance(ex, OverflowError):
        return [A("err"), A("OverflowError")]
    if isinstance(ex, AssertionError):
        return [A("err"), A("AssertionError")]
    return [A("err"), A("Other"), type(ex).__name__]


def env_to_sx(env: dict):
    return [[A(k), value_to_sx(v)] for k, v in env.items()]

# }}}


def sx_to_value(s):
    h = s[0]
    if h == "int":
        return int(s[1])
    if h == "bool":
        return s[1] == "true"
    if h == "frac":
        return Fraction(int(s[1]), int(s[2]))
    if h == "none":
        return None
    if h == "str":
        return s[1]
    if h == "tup":
        return tuple(sx_to_value(c) for c in s[1:])
    if h == "lst":
        return [sx_to_value(c) for c in s[1:]]
    if h == "func":
        return Func(s[1])
    if h == "rec":
        return Record(**dict(zip(s[1], [sx_to_value(c) for c in s[2]])))
    if h == "app":
        return App(s[1], [sx_to_value(c) for c in s[2]], {k: sx_to_value(v) for k, v in s[3]})
    if h == "inexact":
        return float("nan")
    raise ValueError(h)


def sx_to_env(s):
    return {str(k): sx_to_value(v) for k, v in s}


# {{{ generic structure helpers on expression S-expressions

_LISTY = {"Call": (2,), "CallKw": (2, 4), "Substitution": (3,)}
_NOCHILD = {"Int", "Bool", "Flt", "Str", "Var", "NaN", "Wildcard", "DotWildcard", "StarWildcard",
            "FunctionSymbol"}


def sx_children(s):
    """[(path, child)] for the direct expression children of an expression S-expression;
    a path is a tuple of list indices."""
    if isinstance(s, Atom) or not isinstance(s, list):
        return []
    h = s[0]
    if h in _NOCHILD:
        return []
    res = []
    if h in ("Call", "CallKw"):
        res.append(((1,), s[1]))
        for li in _LISTY[h]:
            for i, c in enumerate(s[li]):
                res.append(((li, i), c))
    elif h == "Substitution":
        res.append(((1,), s[1]))
        for i, c in enumerate(s[3]):
            res.append(((3, i), c))
    elif h == "Derivative":
        res.append(((1,), s[1]))
    elif h == "Comparison":
        res += [((1,), s[1]), ((3,), s[3])]
    elif h == "Lookup":
        res.append(((1,), s[1]))
    elif h == "CSE":
        res.append(((1,), s[1]))
    else:
        for i, c in enumerate(s[1:], 1):
            res.append(((i,), c))
    return res


def sx_replace(s, path, new):
    if not path:
        return new
    s = list(s)
    s[path[0]] = sx_replace(s[path[0]], path[1:], new)
    return s


def sx_delete(s, path):
    s = list(s)
    if len(path) == 1:
        del s[path[0]]
    else:
        s[path[0]] = sx_delete(s[path[0]], path[1:])
    return s


_VARIADIC = {"Sum", "Product", "BitwiseOr", "BitwiseXor", "BitwiseAnd", "LogicalOr", "LogicalAnd",
             "Min", "Max", "Tuple", "List"}


def sx_shrinks(s, depth=0):
    """Smaller expression S-expressions: hoist a child, drop an n-ary child, replace a child by a
    small leaf, recurse."""
    if isinstance(s, Atom) or not isinstance(s, list):
        return
    kids = sx_children(s)
    for _path, c in kids:
        if not isinstance(c, Atom):
            yield c
    if s[0] in _VARIADIC and len(s) > 2:
        for i in range(1, len(s)):
            yield s[:i] + s[i + 1:]
    if s[0] in ("Call", "CallKw") and len(s[2]) > 0:
        for i in range(len(s[2])):
            yield sx_delete(s, (2, i))
    for path, c in kids:
        if isinstance(c, list) and c[0] not in _NOCHILD:
            for leaf in ([A("Int"), 1], [A("Var"), "x"]):
                yield sx_replace(s, path, leaf)
    if depth < 6:
        for path, c in kids:
            for c2 in sx_shrinks(c, depth + 1):
                yield sx_replace(s, path, c2)

# }}}


def hashcons(e, memo=None):
    """Rebuild `e` so that structurally equal subtrees are ONE shared object (the sharing-heavy
    mode of the generators: `x*x` written with the same `x` object twice)."""
    import dataclasses

    import pymbolic.primitives as p
    if memo is None:
        memo = {}
    if isinstance(e, tuple):
        new = tuple(hashcons(c, memo) for c in e)
    elif isinstance(e, list):
        return [hashcons(c, memo) for c in e]
    elif isinstance(e, p.Expression) and dataclasses.is_dataclass(e):
        kw = {}
        for f in dataclasses.fields(e):
            v = getattr(e, f.name)
            if isinstance(v, (tuple, p.Expression)):
                kw[f.name] = hashcons(v, memo)
            elif hasattr(v, "items"):
                kw[f.name] = {k: hashcons(c, memo) for k, c in v.items()}
            else:
                kw[f.name] = v
        new = type(e)(**kw)
    else:
        return e
    try:
        key = dumps(expr_to_sx(new))
    except Exception:
        return new
    return memo.setdefault(key, new)
