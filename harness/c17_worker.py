"""Producer / consumer process of the C17 cross-process runs.

    python [-O] -m harness.c17_worker producer <job.json> <out.json>
    python [-O] -m harness.c17_worker consumer <job.json> <out.json> <producer-out.json>...

The job lists histories (pool of objects as S-expressions + operations), digest expressions and
compiled-expression cases; see harness/props/c17.py.  The producer builds every pool from source,
runs the producer half of each history and writes the pickles; each consumer (another interpreter
process: other PYTHONHASHSEED / -O) builds the pools from source again, loads the pickles of every
producer and runs the consumer half, and evaluates the property's own statement on every pickle.
"""
from __future__ import annotations

import base64
import json
import pickle
import sys
import warnings
from fractions import Fraction

warnings.simplefilter("ignore")

from .c17_classes import (bits, digest_hex, has_list, obj_to_sx, rebuild, sx_to_obj)  # noqa: E402
from .sexp import dumps, loads, sx_to_expr  # noqa: E402


def tf(b):
    assert isinstance(b, bool), b
    return "true" if b else "false"


def run_ops(pool, blobs, ops, blobinfo):
    """the operations of one half of a history on the REAL objects; one reply string per op"""
    outs = []
    for op in ops:
        try:
            k = op[0]
            if k == "hash":
                o = pool[op[1]]
                h = hash(o)
                fresh = h == hash(rebuild(o))
                outs.append(f"(hash {tf(fresh)} {bits(o)})")
            elif k == "eq":
                a, b = pool[op[1]], pool[op[2]]
                r = a == b
                outs.append(f"(eq {tf(r)} {bits(a)} {bits(b)})")
            elif k == "member":
                x, y = pool[op[1]], pool[op[2]]
                r1 = x in {y}
                r2 = x in {y: 1}
                r = tf(r1) if r1 == r2 else "set-dict-mismatch"
                outs.append(f"(member {r} {bits(x)} {bits(y)})")
            elif k == "pickle":
                o = pool[op[1]]
                blob = pickle.dumps(o, op[2])
                blobs.append(blob)
                blobinfo.append({"src": dumps(obj_to_sx(o)), "prehashed": "1" in bits(o),
                                 "proto": op[2], "leak": b"_hash_value" in blob})
                outs.append("(pickled)")
            elif k == "unpickle":
                u = pickle.loads(blobs[op[1]])
                pool.append(u)
                outs.append(f"(unpickled {dumps(obj_to_sx(u))} {bits(u)})")
            else:
                outs.append("(bad)")
        except RecursionError:
            raise
        except Exception as ex:
            outs.append(f"(exc {type(ex).__name__})")
            break
    return outs


def facts_for_blob(blob, info):
    """The property's statement for one pickle, in THIS process: failing clauses (list of str)."""
    bad = []
    src = loads(info["src"])
    if info["leak"]:
        bad.append("pickle-mentions-_hash_value")
    u = pickle.loads(blob)
    if "1" in bits(u):
        bad.append("unpickled-carries-cached-hash")
    if dumps(obj_to_sx(u)) != info["src"]:
        bad.append("fields-differ")
    local = sx_to_obj(src)                # built from source here
    if has_list(local):
        return bad                        # unhashable (Python list inside): no hash clauses
    if not (u == local):
        bad.append("unpickled-ne-local")
    if not (local == pickle.loads(blob)):
        bad.append("local-ne-unpickled")
    if hash(pickle.loads(blob)) != hash(sx_to_obj(src)):
        bad.append("hash-differs-from-local")
    if pickle.loads(blob) not in {sx_to_obj(src)}:
        bad.append("not-found-in-set")
    if sx_to_obj(src) not in {pickle.loads(blob): 1}:
        bad.append("local-not-found-in-dict")
    d = {sx_to_obj(src): "v"}
    if d.get(pickle.loads(blob)) != "v":
        bad.append("dict-get-misses")
    return bad


def outcome(fn, args):
    try:
        v = fn(*args)
    except RecursionError:
        raise
    except Exception as ex:
        return "err:" + type(ex).__name__
    return repr(v)


def compiled_producer(item):
    import pymbolic
    e = sx_to_expr(loads(item["expr"]))
    if item["prehash"]:
        hash(e)
    c = pymbolic.compile(e, list(item["vars"]))
    args = [[Fraction(a, b) for a, b in tup] for tup in item["args"]]
    nargs = c._code.__code__.co_argcount
    res = [outcome(c, a[:nargs]) for a in args]
    blob = pickle.dumps(c, item["proto"])
    return {"blob": base64.b64encode(blob).decode(), "results": res,
            "argnames": list(c._code.__code__.co_varnames[:nargs]),
            "leak": b"_hash_value" in blob}


def compiled_consumer(item, prod):
    import pymbolic
    bad = []
    blob = base64.b64decode(prod["blob"])
    if prod["leak"]:
        bad.append("pickle-mentions-_hash_value")
    c2 = pickle.loads(blob)
    e = sx_to_expr(loads(item["expr"]))
    local = pymbolic.compile(e, list(item["vars"]))
    reply = (f"(compiled {dumps(obj_to_sx(c2._Expression))} "
             f"({' '.join(dumps(v.name) for v in c2._Variables)}) {bits(c2._Expression)})")
    args = [[Fraction(a, b) for a, b in tup] for tup in item["args"]]
    n2 = c2._code.__code__.co_argcount
    names2 = list(c2._code.__code__.co_varnames[:n2])
    namesl = list(local._code.__code__.co_varnames[:local._code.__code__.co_argcount])
    if names2 != namesl or names2 != prod["argnames"]:
        bad.append("argument-order-differs")
    r2 = [outcome(c2, a[:n2]) for a in args]
    rl = [outcome(local, a[:n2]) for a in args]
    if r2 != rl:
        bad.append("unpickled-behaves-unlike-local")
    if r2 != prod["results"]:
        bad.append("unpickled-behaves-unlike-original")
    if not has_list(e):
        if not (c2._Expression == e) or hash(c2._Expression) != hash(e):
            bad.append("source-expression-ne-local")
        if c2._Expression not in {e}:
            bad.append("source-expression-not-found-in-set")
    if bad:
        compiled_consumer.note = (f"; positional arguments: producer {prod['argnames']}, unpickled here "
                                  f"{names2}, compiled from source here {namesl}; results on the same "
                                  f"argument tuples: producer {prod['results']}, unpickled {r2}, local {rl}")
    else:
        compiled_consumer.note = ""
    return reply, bad


def sharing_producer(item):
    """one structure built with shared subexpression objects (harness/c17_sharing.py), its
    persistent key here, and its pickle (pickle's memo keeps the sharing)"""
    from . import c17_sharing as S
    sx = loads(item["expr"])
    o = S.build(sx, item["route"], item["seed"], item.get("extra"))
    if o is None:
        return {"na": True}
    if item["prehash"] and not has_list(o):
        hash(o)
    blob = pickle.dumps(o, item["proto"])
    return {"na": False, "key": digest_hex(o), "tree_key": digest_hex(sx_to_expr(sx)),
            "blob": base64.b64encode(blob).decode(), "shared": S.n_shared(o),
            "leak": b"_hash_value" in blob}


def sharing_consumer(item, prod):
    """C17 for one pickle of an object with shared subexpressions, in THIS process: it is equal to
    the expression built from source here (a tree), has its hash, finds it - and, having the same
    structure, has the same persistent key, which is also the key the producer computed"""
    from . import c17_sharing as S
    if prod.get("na"):
        return []
    bad = []
    sx = loads(item["expr"])
    local = sx_to_expr(sx)                       # built from source here: no sharing
    klocal = digest_hex(local)
    u = pickle.loads(base64.b64decode(prod["blob"]))
    if prod["leak"]:
        bad.append("pickle-mentions-_hash_value")
    if S.structure(u) != item["expr"]:
        bad.append("fields-differ")
    if prod["tree_key"] != klocal:
        bad.append("digest-differs-across-processes")
    if digest_hex(u) != klocal or prod["key"] != klocal:
        bad.append("digest-depends-on-object-sharing")
    again = S.build(sx, item["route"], item["seed"], item.get("extra"))
    if again is not None and digest_hex(again) != klocal:
        bad.append("digest-depends-on-object-sharing")
    if not has_list(local):
        if not (u == local) or not (local == u):
            bad.append("unpickled-ne-local")
        if hash(u) != hash(local):
            bad.append("hash-differs-from-local")
        if u not in {local} or {local: "v"}.get(u) != "v":
            bad.append("not-found-in-set")
    return bad


def process_info():
    return {"hash_x": hash("x"), "hash_randomization": sys.flags.hash_randomization,
            "optimize": sys.flags.optimize, "debug": __debug__}


def main(argv):
    role, jobfile, outfile = argv[:3]
    with open(jobfile) as f:
        job = json.load(f)
    res = {"info": process_info()}
    res["digests"] = [digest_hex(sx_to_expr(loads(s))) for s in job["digests"]]
    if role == "producer":
        hist = []
        for h in job["histories"]:
            pool = [sx_to_obj(loads(s)) for s in h["pool"]]
            blobs, info = [], []
            outs = run_ops(pool, blobs, h["ops1"], info)
            hist.append({"out": outs, "blobs": [base64.b64encode(b).decode() for b in blobs],
                         "info": info})
        res["histories"] = hist
        res["compiled"] = [compiled_producer(it) for it in job["compiled"]]
        res["sharing"] = [sharing_producer(it) for it in job.get("sharing", [])]
    else:
        res["per_producer"] = []
        for pf in argv[3:]:
            with open(pf) as f:
                prod = json.load(f)
            hist = []
            for h, ph in zip(job["histories"], prod["histories"]):
                pool = [sx_to_obj(loads(s)) for s in h["pool"]]
                blobs = [base64.b64decode(b) for b in ph["blobs"]]
                outs = run_ops(pool, list(blobs), h["ops2"], [])
                bad = []
                for k, (b, info) in enumerate(zip(blobs, ph["info"])):
                    try:
                        fb = facts_for_blob(b, info)
                    except RecursionError:
                        raise
                    except Exception as ex:
                        fb = [f"exception-{type(ex).__name__}"]
                    bad += [f"{x}@blob{k}" for x in fb]
                hist.append({"out": outs, "bad": bad})
            comp = []
            for it, pc in zip(job["compiled"], prod["compiled"]):
                compiled_consumer.note = ""
                try:
                    reply, bad = compiled_consumer(it, pc)
                except RecursionError:
                    raise
                except Exception as ex:
                    reply, bad = f"(exc {type(ex).__name__})", [f"exception-{type(ex).__name__}"]
                comp.append({"reply": reply, "bad": bad, "note": compiled_consumer.note})
            shr = []
            for it, ps in zip(job.get("sharing", []), prod.get("sharing", [])):
                try:
                    bad = sharing_consumer(it, ps)
                except RecursionError:
                    raise
                except Exception as ex:
                    bad = [f"exception-{type(ex).__name__}"]
                shr.append({"bad": bad})
            res["per_producer"].append({"histories": hist, "compiled": comp, "sharing": shr})
    with open(outfile, "w") as f:
        json.dump(res, f)


if __name__ == "__main__":
    main(sys.argv[1:])
