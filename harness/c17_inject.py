"""C17 — what the persistent-hash feed determines: reference definitions (written from the
statement of `PV.C17.digest_injective_partial`, not from the code under test) and the pair
generator of the `digest-injective` stream.

  erase(e)        the tree with every never-fed field removed (Lean: `c17Erase`)
  tok_class(s)    how a token at the start of a node reads (Lean: `c17TokClass`)
  common_sep(a,b) is there a rank discipline under which both trees are separable (`c17CommonSep`)
  first_difference(a, b)  WHY two different trees can share a feed: the first place, in feed
                  order, where the erased trees differ
"""
from __future__ import annotations

import copy

import pymbolic.primitives as p

from .sexp import A, Atom, sx_children, sx_replace

NARY = ("Sum", "Product", "BitwiseOr", "BitwiseXor", "BitwiseAnd", "LogicalOr", "LogicalAnd",
        "Min", "Max")
BIN = ("Quotient", "FloorDiv", "Remainder", "Power", "LeftShift", "RightShift")
UN = ("BitwiseNot", "LogicalNot")
HEADS = NARY + BIN + UN + (
    "Comparison", "If", "Call", "CallWithKwargs", "Subscript", "Lookup", "CommonSubexpression",
    "Substitution", "Derivative", "Slice", "NaN", "Wildcard", "DotWildcard", "StarWildcard",
    "FunctionSymbol", "tuple", "list")
NUMCH = set("0123456789-")


def tok_class(s: str) -> str:
    if s and all(c in NUMCH for c in s):
        return "int"
    if s in ("True", "False"):
        return "bool"
    if s in HEADS:
        return "head:" + s
    if (s and s[0] in NUMCH) or s in ("inf", "nan"):
        return "float"
    return "name"


# {{{ erased trees: (class name, fed label or None, [children in FEED order])

def erase(e):
    if isinstance(e, bool):
        return ("bool", repr(e), [])
    if isinstance(e, int):
        return ("int", repr(e), [])
    if isinstance(e, float):
        return ("float", repr(e), [])
    if e is None or isinstance(e, str):
        return ("foreign", repr(e), [])
    if isinstance(e, tuple):
        return ("tuple", None, [erase(c) for c in e])
    if isinstance(e, list):
        return ("list", None, [erase(c) for c in e])
    n = type(e).__name__
    if n == "Variable":
        return (n, e.name, [])
    if n in NARY:
        return (n, None, [erase(c) for c in e.children])
    if n in ("LeftShift", "RightShift"):
        return (n, None, [erase(e.shift), erase(e.shiftee)])
    if n in ("Quotient", "FloorDiv", "Remainder"):
        return (n, None, [erase(e.numerator), erase(e.denominator)])
    if n == "Power":
        return (n, None, [erase(e.base), erase(e.exponent)])
    if n in UN:
        return (n, None, [erase(e.child)])
    if n == "Comparison":
        return (n, e.operator, [erase(e.left), erase(e.right)])
    if n == "If":
        return (n, None, [erase(e.condition), erase(e.then), erase(e.else_)])
    if n == "Call":
        return (n, None, [erase(e.function)] + [erase(c) for c in e.parameters])
    if n == "CallWithKwargs":
        return (n, (len(e.parameters),),
                [erase(e.function)] + [erase(c) for c in e.parameters]
                + [erase(c) for c in e.kw_parameters.values()])
    if n == "Subscript":
        return (n, None, [erase(e.aggregate), erase(e.index)])
    if n in ("Lookup",):
        return (n, None, [erase(e.aggregate)])
    if n in ("CommonSubexpression", "Derivative"):
        return (n, None, [erase(e.child)])
    if n == "Substitution":
        return (n, None, [erase(e.child)] + [erase(c) for c in e.values])
    if n == "Slice":
        return (n, None, [erase(c) for c in e.children if c is not None])
    if n in ("NaN", "Wildcard", "DotWildcard", "StarWildcard", "FunctionSymbol"):
        return (n, None, [])
    raise ValueError(f"erase: unknown node {n}")


def first_token(t):
    """the byte string a node of the erased tree starts with, per the property's anchor
    (class name; variables and constants: the bare name / repr)"""
    cls, label, _ = t
    if cls in ("Variable", "int", "bool", "float", "foreign"):
        return label
    return cls


def first_difference(a, b):
    """a, b erased trees, a != b.  The first place in feed order where they differ:
    'leaf-token'  different classes that start with the same token (a leaf carries no class name)
    'arity'       same class and label, different numbers of children
    'label'       different tokens — cannot share a feed
    """
    if a[0] != b[0]:
        return "leaf-token" if first_token(a) == first_token(b) else "label"
    if a[1] != b[1]:
        if a[0] == "CallWithKwargs":
            return "arity"
        return "label"
    if len(a[2]) != len(b[2]):
        return "arity"
    for x, y in zip(a[2], b[2]):
        if x != y:
            return first_difference(x, y)
    raise AssertionError("first_difference of equal trees")

# }}}


# {{{ separable under a common rank discipline

def demands(e, out, toks):
    """rank demands (key, n) in preorder and whether every leaf token reads as what it is"""
    if isinstance(e, bool) or isinstance(e, int) or e is None or isinstance(e, str):
        return
    if isinstance(e, float):
        toks.append(tok_class(repr(e)) == "float")
        return
    if isinstance(e, (tuple, list)):
        out.append(("tuple" if isinstance(e, tuple) else "list", len(e)))
        for c in e:
            demands(c, out, toks)
        return
    n = type(e).__name__
    if n == "Variable":
        toks.append(tok_class(e.name) == "name")
    elif n in NARY:
        out.append((n, len(e.children)))
        for c in e.children:
            demands(c, out, toks)
    elif n == "Call":
        out.append(("Call", len(e.parameters)))
        for c in (e.function, *e.parameters):
            demands(c, out, toks)
    elif n == "CallWithKwargs":
        out.append(("CallWithKwargs", len(e.parameters)))
        out.append(("CallWithKwargs.kw", len(e.kw_parameters)))
        for c in (e.function, *e.parameters, *e.kw_parameters.values()):
            demands(c, out, toks)
    elif n == "Substitution":
        out.append(("Substitution", len(e.values)))
        for c in (e.child, *e.values):
            demands(c, out, toks)
    elif n == "Slice":
        out.append(("Slice", sum(1 for c in e.children if c is not None)))
        for c in e.children:
            demands(c, out, toks)
    else:
        import dataclasses
        for f in dataclasses.fields(e):
            v = getattr(e, f.name)
            if f.name in ("name", "operator", "prefix", "scope", "variables", "data_type"):
                continue
            demands(v, out, toks)


def common_sep(a, b) -> bool:
    out, toks = [], []
    demands(a, out, toks)
    demands(b, out, toks)
    ar = {}
    for k, n in out:
        if ar.setdefault(k, n) != n:
            return False
    return all(toks)

# }}}


# {{{ pair generator (S-expression level)

def all_paths(s, path=()):
    """[(path, node)] of every expression node, preorder"""
    res = [(path, s)]
    for pth, c in sx_children(s):
        if isinstance(c, list):
            res += all_paths(c, path + pth)
    return res


def sx_get(s, path):
    for i in path:
        s = s[i]
    return s


_NAMES = ["x", "y", "z", "i", "j", "f", "g", "q", "ab", "bc", "c"]
_OPS = ["==", "!=", "<", "<=", ">", ">="]


def _variadic_lists(node):
    """paths (relative) of the child LISTS of a variadic node: [(prefix path, start, stop)]"""
    h = node[0]
    if h in NARY or h in ("Tuple", "List"):
        return [((), 1, len(node))]
    if h == "Call":
        return [((2,), 0, len(node[2]))]
    if h == "Substitution":
        return [((3,), 0, len(node[3]))]
    return []


def mutate(rng, s):
    """-> (kind, a, b) S-expressions, or None.  `b` differs from `a` in ONE respect."""
    nodes = all_paths(s)
    kind = rng.choice(["rename", "const", "cmpop", "class", "swap", "unfed", "unfed", "regroup",
                       "regroup", "splice", "leaf"])
    rng.shuffle(nodes)
    for path, n in nodes:
        h = n[0]
        if kind == "rename" and h == "Var":
            new = rng.choice([x for x in _NAMES if x != n[1]])
            return kind, s, sx_replace(s, path, [A("Var"), new])
        if kind == "const" and h in ("Int", "Bool", "Flt"):
            if h == "Int":
                new = [A("Int"), int(n[1]) + rng.choice([1, -1, 10])]
            elif h == "Bool":
                new = rng.choice([[A("Bool"), not (n[1] is True or n[1] == "true")], [A("Int"), 7]])
            else:
                new = rng.choice([[A("Flt"), "0.25", 1, 4], [A("Int"), 2]])
            return kind, s, sx_replace(s, path, new)
        if kind == "cmpop" and h == "Comparison":
            new = list(n)
            new[2] = rng.choice([o for o in _OPS if o != n[2]])
            return kind, s, sx_replace(s, path, new)
        if kind == "class" and (h in NARY or h in BIN or h in UN):
            fam = NARY if h in NARY else BIN if h in BIN else UN
            new = [A(rng.choice([x for x in fam if x != h]))] + list(n[1:])
            return kind, s, sx_replace(s, path, new)
        if kind == "swap":
            kids = [(pth, c) for pth, c in sx_children(n) if isinstance(c, list)]
            if len(kids) >= 2:
                (p1, c1), (p2, c2) = rng.sample(kids, 2)
                if c1 != c2:
                    new = sx_replace(sx_replace(n, p1, c2), p2, c1)
                    return kind, s, sx_replace(s, path, new)
        if kind == "unfed":
            new = None
            if h == "Lookup":
                new = [n[0], n[1], n[2] + "_"]
            elif h == "CSE":
                new = [n[0], n[1], "pfx" if isinstance(n[2], Atom) else A("nil"), n[3]]
            elif h == "Derivative":
                new = [n[0], n[1], list(n[2]) + ["v"]]
            elif h == "Substitution" and n[2]:
                new = [n[0], n[1], [n[2][0] + "_"] + list(n[2][1:]), n[3]]
            elif h == "CallKw" and n[3]:
                new = [n[0], n[1], n[2], [n[3][0] + "_"] + list(n[3][1:]), n[4]]
                if len(set(new[3])) != len(new[3]):
                    new = None
            elif h in ("DotWildcard", "StarWildcard"):
                new = [n[0], n[1] + "_"]
            elif h == "Slice" and len(n) >= 2:
                new = [n[0], A("nil")] + list(n[1:]) if len(n) < 4 else None
            if new is not None:
                return kind, s, sx_replace(s, path, new)
        if kind == "regroup":
            # [.., C(c1..ck), D, ..] -> [.., C(c1..ck, D), ..]: the preorder feed is unchanged
            for pre, lo, hi in _variadic_lists(n):
                lst = sx_get(n, pre) if pre else n
                idx = [i for i in range(lo, hi - 1)
                       if isinstance(lst[i], list) and lst[i][0] in NARY]
                if idx:
                    i = rng.choice(idx)
                    inner = list(lst[i]) + [lst[i + 1]]
                    newl = list(lst[:i]) + [inner] + list(lst[i + 2:])
                    new = sx_replace(n, pre, newl) if pre else newl
                    return kind, s, sx_replace(s, path, new)
        if kind == "splice":
            # two adjacent leaves of the same kind: move a character across the piece boundary
            kids = sx_children(n)
            for (p1, c1), (p2, c2) in zip(kids, kids[1:]):
                if (isinstance(c1, list) and isinstance(c2, list) and c1[0] == "Var"
                        and c2[0] == "Var" and h not in ("LeftShift", "RightShift", "Comparison")):
                    u, v, w = (rng.choice("abcxyz") for _ in range(3))
                    a = sx_replace(sx_replace(n, p1, [A("Var"), u + v]), p2, [A("Var"), w])
                    b = sx_replace(sx_replace(n, p1, [A("Var"), u]), p2, [A("Var"), v + w])
                    return kind, sx_replace(s, path, a), sx_replace(s, path, b)
                if (isinstance(c1, list) and isinstance(c2, list) and c1[0] == "Int"
                        and c2[0] == "Int" and h not in ("LeftShift", "RightShift", "Comparison")):
                    u, v, w = (rng.choice("123456789") for _ in range(3))
                    a = sx_replace(sx_replace(n, p1, [A("Int"), int(u + v)]), p2, [A("Int"), int(w)])
                    b = sx_replace(sx_replace(n, p1, [A("Int"), int(u)]), p2, [A("Int"), int(v + w)])
                    return kind, sx_replace(s, path, a), sx_replace(s, path, b)
        if kind == "leaf":
            if h == "Int":
                return kind, s, sx_replace(s, path, [A("Var"), str(int(n[1]))])
            if h == "Bool":
                return kind, s, sx_replace(s, path, [A("Var"), "True" if n[1] in (True, "true") else "False"])
            if h in ("NaN", "Wildcard", "FunctionSymbol"):
                return kind, s, sx_replace(s, path, [A("Var"), h])
            if h in NARY and len(n) == 1:
                return kind, s, sx_replace(s, path, [A("Var"), h])
    return None


def shrink_pair(a, b):
    """smaller pairs: corresponding children that differ"""
    if isinstance(a, Atom) or isinstance(b, Atom) or not isinstance(a, list) or not isinstance(b, list):
        return
    ka, kb = dict(sx_children(a)), dict(sx_children(b))
    for pth, ca in ka.items():
        cb = kb.get(pth)
        if cb is not None and ca != cb and isinstance(ca, list) and isinstance(cb, list):
            yield copy.deepcopy(ca), copy.deepcopy(cb)

# }}}


def keybuilder_key(e) -> str:
    """the persistent key as a pytools `KeyBuilder` hash object computes it (the documented use of
    the mapper: `PersistentHashWalkMapper(key_builder.new_hash())(expr)`)"""
    import warnings

    from pymbolic.mapper.persistent_hash import PersistentHashWalkMapper
    from pytools.persistent_dict import KeyBuilder
    h = KeyBuilder().new_hash()
    with warnings.catch_warnings():
        warnings.simplefilter("ignore")
        PersistentHashWalkMapper(h)(e)
    return h.hexdigest()


def known_pairs():
    """(key, a, b): the concrete collisions recorded in known_findings.C17.jsonl"""
    a, b, c, f, x = (p.Variable(n) for n in "abcfx")
    return [
        ("persistent-hash-collision:arity",
         p.Call(f, (p.Sum((a, b)), c)), p.Call(f, (p.Sum((a, b, c)),))),
        ("persistent-hash-collision:concatenation", p.Sum((1, 23)), p.Sum((12, 3))),
        ("persistent-hash-collision:concatenation",
         p.Power(p.Variable("a"), p.Variable("bc")), p.Power(p.Variable("ab"), p.Variable("c"))),
        ("persistent-hash-collision:unfed-field", p.Lookup(x, "a"), p.Lookup(x, "b")),
        ("persistent-hash-collision:unfed-field",
         p.Derivative(x, ("a",)), p.Derivative(x, ("b",))),
        ("persistent-hash-collision:unfed-field",
         p.CallWithKwargs(f, (), {"k": x}), p.CallWithKwargs(f, (), {"j": x})),
        ("persistent-hash-collision:leaf-token", p.Sum((p.Variable("1"), x)), p.Sum((1, x))),
        ("persistent-hash-collision:leaf-token", p.Variable("NaN"), p.NaN()),
    ]
