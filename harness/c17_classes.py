"""C17 support code importable by the check AND by the producer/consumer subprocesses
(`python -m harness.c17_worker`): user node types, a legacy init-arg subclass, and the generic
object <-> S-expression conversion used on both sides of a pickle.

Generic object wire format (mirrors `PV.Pickle.Obj`, lean/PV/Model/Pickle.lean):

    obj ::= (atom <const>) | (tuple obj*) | (list obj*) | (dict (key*) (obj*))
          | (inst "ClassName" dataclass|legacysub|legacy (obj*))
    const ::= (Int n) | (Bool true|false) | (Flt "repr" num den) | (Str "s") | nil

Fields of an instance are read generically: `dataclasses.fields` for expr_dataclass classes,
`__getinitargs__()` for legacy classes.  Nothing here depends on hash values, dict/set order or
object identity.
"""
from __future__ import annotations

import dataclasses
import warnings
from collections.abc import Mapping

import pymbolic.primitives as p
from pymbolic.primitives import Expression, Variable, expr_dataclass

from .sexp import A, Atom, expr_to_sx, sx_to_expr

# {{{ user node types

@expr_dataclass()
class Norm(Expression):
    """a user node type with an expression child and a plain-int field"""
    child: object
    order: int


@expr_dataclass()
class Labelled(Expression):
    """a user node type with a string field, a tuple of children and a keyword mapping"""
    label: str
    children: tuple
    options: Mapping

    def __post_init__(self):
        from immutabledict import immutabledict
        if not isinstance(self.options, immutabledict):
            object.__setattr__(self, "options", immutabledict(self.options))


@expr_dataclass()
class Annotated(Expression):
    """a user node type with a field declared `compare=False` in the MIDDLE of the field list and a
    defaulted field after it: whatever the generated methods make of the flag, every field must
    survive copying / pickling under its own name"""
    child: object
    note: str = dataclasses.field(compare=False)
    scope: str = "s"


@expr_dataclass()
class Unit(Expression):
    """a user node type without fields"""


class LegacyPair(Expression):
    """a legacy (pre-dataclass) node type: subclass of Expression with init_arg_names /
    __getinitargs__; uses Expression.__eq__/__hash__/__getstate__/__setstate__"""
    init_arg_names = ("left", "right")

    def __init__(self, left, right):
        self.left = left
        self.right = right

    def __getinitargs__(self):
        return (self.left, self.right)

    mapper_method = "map_legacy_pair"


class LegacyVar(Variable):
    """a legacy subclass of a class that is now a dataclass (extra init arg): goes through the
    generated methods' non-dataclass paths"""
    init_arg_names = ("name", "tag")

    def __init__(self, name, tag):
        object.__setattr__(self, "name", name)
        object.__setattr__(self, "tag", tag)

    def __getinitargs__(self):
        return (self.name, self.tag)

    mapper_method = "map_legacy_var"


USER_CLASSES = {c.__name__: c for c in (Norm, Labelled, Annotated, Unit, LegacyPair, LegacyVar)}

# }}}


def class_by_name(name: str):
    if name in USER_CLASSES:
        return USER_CLASSES[name]
    cls = getattr(p, name)
    assert isinstance(cls, type) and issubclass(cls, Expression), name
    return cls


def kind_of(cls) -> str:
    if "_is_expr_dataclass" in cls.__dict__:
        return "dataclass"
    if cls.__eq__ is Expression.__eq__:
        return "legacy"
    return "legacysub"


def fields_of(o) -> tuple:
    cls = type(o)
    if "_is_expr_dataclass" in cls.__dict__:
        return tuple(getattr(o, f.name) for f in dataclasses.fields(o))
    with warnings.catch_warnings():
        warnings.simplefilter("ignore")
        return tuple(o.__getinitargs__())


class Unencodable(Exception):
    pass


def obj_to_sx(o):
    """fields only; never looks at `_hash_value`"""
    if o is None or isinstance(o, (bool, int, float, str)):
        return [A("atom"), expr_to_sx(o)]
    if isinstance(o, tuple):
        return [A("tuple"), *[obj_to_sx(c) for c in o]]
    if isinstance(o, list):
        return [A("list"), *[obj_to_sx(c) for c in o]]
    if isinstance(o, Mapping):
        return [A("dict"), list(o.keys()), [obj_to_sx(c) for c in o.values()]]
    if isinstance(o, Expression):
        return [A("inst"), type(o).__name__, A(kind_of(type(o))), [obj_to_sx(c) for c in fields_of(o)]]
    raise Unencodable(type(o))


def sx_to_obj(s):
    """build the object from source (constructor calls): a fresh tree, no slot set"""
    h = s[0]
    if h == "atom":
        return sx_to_expr(s[1])
    if h == "tuple":
        return tuple(sx_to_obj(c) for c in s[1:])
    if h == "list":
        return [sx_to_obj(c) for c in s[1:]]
    if h == "dict":
        return dict(zip(s[1], [sx_to_obj(c) for c in s[2]]))
    if h == "inst":
        cls = class_by_name(s[1])
        return cls(*[sx_to_obj(c) for c in s[3]])
    raise ValueError(h)


def rebuild(o):
    """a fresh object with the same fields, built from source (through the wire format)"""
    from .sexp import dumps, loads
    return sx_to_obj(loads(dumps(obj_to_sx(o))))


def bits(o) -> str:
    """'b' + one digit per Expression instance in preorder: is `_hash_value` in its __dict__?"""
    out = []

    def rec(o):
        if isinstance(o, (tuple, list)):
            for c in o:
                rec(c)
        elif isinstance(o, Mapping):
            for c in o.values():
                rec(c)
        elif isinstance(o, Expression):
            out.append("1" if "_hash_value" in o.__dict__ else "0")
            for c in fields_of(o):
                rec(c)

    rec(o)
    return "b" + "".join(out)


def has_list(o) -> bool:
    if isinstance(o, list):
        return True
    if isinstance(o, tuple):
        return any(has_list(c) for c in o)
    if isinstance(o, Mapping):
        return any(has_list(c) for c in o.values())
    if isinstance(o, Expression):
        return any(has_list(c) for c in fields_of(o))
    return False


# {{{ persistent digest

class Recorder:
    """a key_hash that records what it is fed"""
    def __init__(self):
        self.chunks = []

    def update(self, b):
        self.chunks.append(bytes(b).decode("utf8"))


def digest_stream(e):
    """the strings PersistentHashWalkMapper feeds to its key_hash for `e`"""
    from pymbolic.mapper.persistent_hash import PersistentHashWalkMapper
    with warnings.catch_warnings():
        warnings.simplefilter("ignore")
        r = Recorder()
        PersistentHashWalkMapper(r)(e)
    return r.chunks


def digest_hex(e) -> str:
    """sha256 persistent key, or 'err:<ExceptionType>'"""
    import hashlib
    from pymbolic.mapper.persistent_hash import PersistentHashWalkMapper
    with warnings.catch_warnings():
        warnings.simplefilter("ignore")
        h = hashlib.sha256()
        try:
            PersistentHashWalkMapper(h)(e)
        except RecursionError:
            raise
        except Exception as ex:
            return "err:" + type(ex).__name__
    return h.hexdigest()

# }}}
