"""Two more oracle-only streams of harness/props/c04.py (C04 — mapper dispatch and the stock
traversals reach every node correctly).

`array-traversal`   numpy arrays of EVERY rank (0-d, 1-d, n-d, axes of length 0 and 1, object and
                    numeric dtype, arrays inside arrays) anywhere in a tree, through the stock
                    traversals: the walk visits the array and then every ENTRY once (nothing else),
                    the identity mapper keeps shape / positions / objects, the combine / collector
                    mappers fold in every entry once, all with the extra arguments unchanged
`user-nodes`        user node classes hanging off EVERY base class the library offers — the abstract
                    ones (`Expression`, `AlgebraicLeaf`, `Leaf`, `QuotientBase`) and concrete nodes
                    — one to three levels deep, crossed with the stock traversals (plain and
                    memoizing) and with the subsets of handlers a user's mapper subclass implements:
                    the nearest implemented handler is the one called, a node type that nothing
                    handles is REPORTED BY RAISING wherever it sits in the tree, a node type derived
                    from a library node is treated as that node

The references are plain recursions over dataclass fields / array indices (`kids`); no mapper code
is involved in them.
"""
from __future__ import annotations

import dataclasses
import itertools
import json
import warnings

import pymbolic.primitives as p

from .core import Failure, Stream
from .oracles import scan
from .sexp import q

ARG_SETS = [((), {}), ((7,), {"flag": "k"}), ((1, "two"), {}), ((), {"kw": (3,), "other": "o"})]


# {{{ trees from JSON specs (arrays, lists, tuples, the usual nodes, a slot for a user node)

OPS = ["<", "<=", "==", ">"]


def build(spec, slot=None, ren=None):
    """spec -> object.  `slot`: what `["slot"]` stands for; `ren`: {variable name: new name}"""
    import numpy as np
    k = spec[0]
    b = lambda s_: build(s_, slot, ren)        # noqa: E731
    if k == "v":
        return p.Variable((ren or {}).get(spec[1], spec[1]))
    if k == "i":
        return spec[1]
    if k == "slot":
        return slot
    if k == "sum":
        return p.Sum(tuple(b(c) for c in spec[1]))
    if k == "prod":
        return p.Product(tuple(b(c) for c in spec[1]))
    if k == "min":
        return p.Min(tuple(b(c) for c in spec[1]))
    if k == "and":
        return p.LogicalAnd(tuple(b(c) for c in spec[1]))
    if k == "pow":
        return p.Power(b(spec[1]), b(spec[2]))
    if k == "quot":
        return p.Quotient(b(spec[1]), b(spec[2]))
    if k == "call":
        return p.Call(b(spec[1]), tuple(b(c) for c in spec[2]))
    if k == "callkw":
        return p.CallWithKwargs(b(spec[1]), tuple(b(c) for c in spec[2]),
                                {n: b(c) for n, c in spec[3]})
    if k == "sub":
        return p.Subscript(b(spec[1]), b(spec[2]))
    if k == "if":
        return p.If(b(spec[1]), b(spec[2]), b(spec[3]))
    if k == "cmp":
        return p.Comparison(b(spec[1]), spec[2], b(spec[3]))
    if k == "cse":
        return p.CommonSubexpression(b(spec[1]))
    if k == "deriv":
        return p.Derivative(b(spec[1]), ("t",))
    if k == "slice":
        return p.Slice(tuple(None if c is None else b(c) for c in spec[1]))
    if k == "tup":
        return tuple(b(c) for c in spec[1])
    if k == "lst":
        return [b(c) for c in spec[1]]
    if k == "arr":
        a = np.empty(tuple(spec[1]), dtype=object)
        for idx, c in zip(itertools.product(*[range(n) for n in spec[1]]), spec[2]):
            a[idx] = b(c)
        return a
    if k == "narr":
        return np.array(spec[2], dtype=np.int64).reshape(tuple(spec[1]))
    raise ValueError(k)


def spec_kids(spec):
    """[(path step, child spec)] of a spec"""
    k = spec[0]
    if k in ("v", "i", "slot", "narr"):
        return []
    if k in ("sum", "prod", "min", "and", "tup", "lst"):
        return [((1, i), c) for i, c in enumerate(spec[1])]
    if k == "slice":
        return [((1, i), c) for i, c in enumerate(spec[1]) if c is not None]
    if k == "arr":
        return [((2, i), c) for i, c in enumerate(spec[2])]
    if k == "call":
        return [((1,), spec[1])] + [((2, i), c) for i, c in enumerate(spec[2])]
    if k == "callkw":
        return ([((1,), spec[1])] + [((2, i), c) for i, c in enumerate(spec[2])]
                + [((3, i, 1), c) for i, (_n, c) in enumerate(spec[3])])
    if k == "cmp":
        return [((1,), spec[1]), ((3,), spec[3])]
    return [((i,), c) for i, c in enumerate(spec) if i and isinstance(c, list)]


def spec_put(spec, step, new):
    out = list(spec)
    if len(step) == 1:
        out[step[0]] = new
    elif len(step) == 2:
        inner = list(out[step[0]])
        inner[step[1]] = new
        out[step[0]] = inner
    else:
        inner = [list(x) for x in out[step[0]]]
        inner[step[1]][step[2]] = new
        out[step[0]] = inner
    return out


def spec_subtrees(spec):
    out = []
    for _st, c in spec_kids(spec):
        out.append(c)
        out.extend(spec_subtrees(c))
    return out


def spec_simplifications(spec):
    """the spec with ONE non-leaf descendant replaced by a variable"""
    for st, c in spec_kids(spec):
        if c[0] not in ("v", "i", "slot"):
            yield spec_put(spec, st, ["v", "x"])
        for s2 in spec_simplifications(c):
            yield spec_put(spec, st, s2)


def spec_has(spec, kinds):
    return spec[0] in kinds or any(spec_has(c, kinds) for _s, c in spec_kids(spec))


def spec_count(spec, kind):
    return (spec[0] == kind) + sum(spec_count(c, kind) for _s, c in spec_kids(spec))


def shrink_shapes(spec):
    """an array with one axis shortened by one (its trailing entries along that axis dropped)"""
    if spec[0] == "arr":
        shape = spec[1]
        idxs = list(itertools.product(*[range(n) for n in shape]))
        for ax, n in enumerate(shape):
            if n > 0:
                keep = [c for idx, c in zip(idxs, spec[2]) if idx[ax] != n - 1]
                yield ["arr", shape[:ax] + [n - 1] + shape[ax + 1:], keep]
        if shape:
            # one axis of length 1 removed
            for ax, n in enumerate(shape):
                if n == 1:
                    yield ["arr", shape[:ax] + shape[ax + 1:], spec[2]]
    for st, c in spec_kids(spec):
        for s2 in shrink_shapes(c):
            yield spec_put(spec, st, s2)

# }}}


# {{{ the references: children, walk order, leaves, variables, structural sameness

def kids(n):
    """the children of a node, from its dataclass fields; the entries of an array, by index"""
    import numpy as np
    if isinstance(n, np.ndarray):
        return [n[idx] for idx in itertools.product(*[range(k) for k in n.shape])]
    return scan.children(n)


def is_container(n):
    import numpy as np
    return isinstance(n, (tuple, list, np.ndarray))


def token(n):
    """what a node occurrence is identified by: the object for nodes and containers, type and
    text for numbers (an array of numeric dtype makes a new scalar object on every access)"""
    if isinstance(n, p.Expression) or is_container(n):
        return ("obj", type(n).__name__, id(n))
    return ("const", type(n).__name__, repr(n))


def canon_sort(items):
    return tuple(sorted(items, key=repr))


def ref_walk(n, skip, leaf_ids=()):
    """(token, canonical children): the node, then — unless `visit` says no — each child"""
    if type(n).__name__ in skip or id(n) in leaf_ids:
        return (token(n), ())
    return (token(n), canon_sort(ref_walk(c, skip, leaf_ids) for c in kids(n)))


class Malformed(Exception):
    pass


def parse_walk(events, skip):
    """the nesting an event sequence [(visit|post, node)] describes: `visit n` opens n, everything
    up to the matching `post n` is below n; a node whose `visit` answered False has nothing below
    it (whether `post_visit` is still called for it is left open)"""
    pos = [0]

    def node():
        if pos[0] >= len(events) or events[pos[0]][0] != "visit":
            raise Malformed(f"event {pos[0]}: a `visit` is expected here")
        n = events[pos[0]][1]
        pos[0] += 1
        if type(n).__name__ in skip:
            if pos[0] < len(events) and events[pos[0]][0] == "post" and token(events[pos[0]][1]) == token(n):
                pos[0] += 1
            return (token(n), ())
        ch = []
        while pos[0] < len(events) and events[pos[0]][0] == "visit":
            ch.append(node())
        if pos[0] >= len(events) or token(events[pos[0]][1]) != token(n):
            raise Malformed(f"event {pos[0]}: `post_visit` of {type(n).__name__} does not follow "
                            "its children")
        pos[0] += 1
        return (token(n), canon_sort(ch))
    root = node()
    if pos[0] != len(events):
        raise Malformed(f"event {pos[0]}: events after the root was left")
    return root


def flat_counts(canon, acc=None):
    acc = {} if acc is None else acc
    acc[canon[0][1]] = acc.get(canon[0][1], 0) + 1
    for c in canon[1]:
        flat_counts(c, acc)
    return acc


LEAF_NODES = (p.Variable, p.Wildcard, p.DotWildcard, p.StarWildcard, p.FunctionSymbol)


def ref_leaves(n, special=None):
    """every leaf occurrence (numbers and the library's leaf nodes); `special(n)` may answer for a
    node as a whole"""
    if special is not None:
        r = special(n)
        if r is not None:
            return r
    if is_container(n):
        return [x for c in kids(n) for x in ref_leaves(c, special)]
    if not isinstance(n, p.Expression) or isinstance(n, LEAF_NODES):
        return [n]
    return [x for c in kids(n) for x in ref_leaves(c, special)]


def ref_variables(n, special=None):
    """the set of variables below n"""
    if special is not None:
        r = special(n)
        if r is not None:
            return r
    if isinstance(n, p.Variable):
        return {n}
    out = set()
    for c in kids(n):
        out |= ref_variables(c, special)
    return out


def has_mutable(n):
    import numpy as np
    return isinstance(n, (list, np.ndarray)) or any(has_mutable(c) for c in kids(n))


def same_tree(got, want, keep_objects):
    """None, or why `got` is not `want`: arrays by shape and entry-wise, containers entry-wise,
    nodes field-wise; with `keep_objects`, a part without lists / arrays below must BE the object"""
    import numpy as np
    if keep_objects and not has_mutable(want):
        if isinstance(want, p.Expression) and got is not want:
            try:
                eq = type(got) is type(want) and got == want
            except Exception:     # noqa: BLE001
                eq = False
            return (f"a new object for {want!r} although nothing changed below" if eq
                    else f"{got!r} in the place of {want!r}")
    if isinstance(want, np.ndarray):
        if not isinstance(got, np.ndarray):
            return f"{type(got).__name__} in the place of an array"
        if got.shape != want.shape:
            return f"array of shape {got.shape} in the place of one of shape {want.shape}"
        for idx in itertools.product(*[range(k) for k in want.shape]):
            r = same_tree(got[idx], want[idx], keep_objects)
            if r:
                return f"entry {list(idx)}: {r}"
        return None
    if isinstance(want, (tuple, list)):
        if type(got) is not type(want) or len(got) != len(want):
            return f"{got!r} in the place of {want!r}"
        for g, w in zip(got, want):
            r = same_tree(g, w, keep_objects)
            if r:
                return r
        return None
    if isinstance(want, p.Expression) and dataclasses.is_dataclass(want):
        if type(got) is not type(want):
            return f"{type(got).__name__} in the place of {type(want).__name__}"
        for f in dataclasses.fields(want):
            g, w = getattr(got, f.name), getattr(want, f.name)
            if hasattr(w, "items"):
                if not hasattr(g, "items") or list(g) != list(w):
                    return f"field {f.name}: other keywords"
                for kk in w:
                    r = same_tree(g[kk], w[kk], keep_objects)
                    if r:
                        return r
            else:
                r = same_tree(g, w, keep_objects)
                if r:
                    return r
        return None
    if isinstance(want, (np.generic,)) or isinstance(got, (np.generic,)):
        return None if (type(got) is type(want) and got == want) else f"{got!r} in the place of {want!r}"
    ok = type(got) is type(want) and got == want
    return None if ok else f"{got!r} in the place of {want!r}"

# }}}


# {{{ instrumented stock traversals

def walker(cached, skip, log, extra=None):
    from pymbolic.mapper import CachedWalkMapper, WalkMapper

    def visit(self, expr, *args, **kwargs):
        log.append(("visit", expr, args, dict(kwargs)))
        return type(expr).__name__ not in skip

    def post_visit(self, expr, *args, **kwargs):
        log.append(("post", expr, args, dict(kwargs)))
    body = {"visit": visit, "post_visit": post_visit}
    body.update(extra or {})
    return type("Walk", (CachedWalkMapper if cached else WalkMapper,), body)()


def combiner(cached, log, extra=None):
    from pymbolic.mapper import CachedCombineMapper, CombineMapper

    def combine(self, values):
        out = []
        for v in values:
            out.extend(v)
        return out

    def leaf(self, expr, *args, **kwargs):
        log.append(("leaf", expr, args, dict(kwargs)))
        return [expr]
    body = {"combine": combine}
    for n in ("map_constant", "map_variable", "map_wildcard", "map_dot_wildcard", "map_star_wildcard",
              "map_function_symbol"):
        body[n] = leaf
    body.update(extra or {})
    return type("Combine", (CachedCombineMapper if cached else CombineMapper,), body)()


def var_collector(cached, log, extra=None):
    from pymbolic.mapper import CachedCollector, Collector

    def map_variable(self, expr, *args, **kwargs):
        log.append(("leaf", expr, args, dict(kwargs)))
        return {expr}
    body = {"map_variable": map_variable}
    body.update(extra or {})
    return type("Vars", (CachedCollector if cached else Collector,), body)()


def dep_mapper(cached, log, extra=None):
    from pymbolic.mapper.dependency import CachedDependencyMapper, DependencyMapper
    base = CachedDependencyMapper if cached else DependencyMapper
    # composite_leaves=False: calls, subscripts and lookups are descended into
    return type("Deps", (base,), dict(extra or {}))(composite_leaves=False)


def identity(cached, log, extra=None, rename=None):
    from pymbolic.mapper import CachedIdentityMapper, IdentityMapper
    body = dict(extra or {})
    if rename:
        def map_variable(self, expr, *args, **kwargs):
            log.append(("leaf", expr, args, dict(kwargs)))
            return p.Variable(rename[expr.name]) if expr.name in rename else expr
        body["map_variable"] = map_variable
    return type("Ident", (CachedIdentityMapper if cached else IdentityMapper,), body)()


def callback(log, extra=None):
    from pymbolic.mapper import CallbackMapper, IdentityMapper

    def function(expr, mapper, *args, **kwargs):
        log.append(("function", expr, args, dict(kwargs)))
        return mapper.fallback_mapper(expr, *args, **kwargs)
    return type("Callback", (CallbackMapper,), dict(extra or {}))(function, IdentityMapper())

# }}}


# {{{ array-traversal

ARRAY_MODES = ["walk", "walk", "identity", "rename", "combine", "vars", "deps"]
SHAPES = [[], [1], [2], [3], [0], [1, 1], [1, 2], [2, 1], [2, 2], [2, 3], [3, 2], [0, 2], [2, 0],
          [1, 1, 1], [2, 1, 2], [1, 2, 2], [2, 2, 2], [2, 2, 1], [1, 0, 2]]
SKIPPABLE = ["ndarray", "tuple", "Sum", "Call", "Product", "Subscript", "list"]


class ArrayTraversalStream(Stream):
    """Arrays go to `map_numpy_array`, and on it the stock traversals keep their contracts: the
    walk mapper calls `visit` on the array, then — unless it answers False — walks every ENTRY
    (each index of the array once; rows, planes and other views are not nodes of the tree), then
    `post_visit`; the identity mapper answers with an array of the same shape whose entries are
    the mapped entries at the same indices (the same objects where nothing changed below); the
    combine / collector mappers fold in the result of every entry once; extra arguments arrive
    unchanged.  Arrays of rank 0, 1, 2, 3, with axes of length 0 and 1, of object and of numeric
    dtype, at the top and as call parameter / subscript index / operand / tuple or list element /
    entry of another array.

    reference: `kids` (entries by `itertools.product` over the index ranges)."""
    name = "array-traversal"
    has_model = False

    # ---- generation
    def _expr(self, rng, depth, arrays):
        r = rng.random()
        if depth <= 0 or r < 0.25:
            return rng.choice([["v", rng.choice("xyzuw")], ["v", rng.choice("xy")],
                               ["i", rng.randint(0, 5)]])
        if arrays and r < 0.40:
            return self._array(rng, depth - 1)
        sub = lambda: self._expr(rng, depth - 1, arrays)      # noqa: E731
        k = rng.choice(["sum", "prod", "pow", "call", "call", "sub", "if", "tup", "quot", "min", "lst"])
        if k in ("sum", "prod", "min", "tup", "lst"):
            return [k, [sub() for _ in range(rng.randint(1, 3))]]
        if k in ("pow", "quot"):
            return [k, sub(), sub()]
        if k == "call":
            return ["call", ["v", "f"], [sub() for _ in range(rng.randint(0, 2))]]
        if k == "sub":
            return ["sub", ["v", "a"], sub() if rng.random() < 0.6 else ["tup", [sub(), sub()]]]
        return ["if", ["cmp", sub(), rng.choice(OPS), sub()], sub(), sub()]

    def _array(self, rng, depth, shape=None):
        shape = list(rng.choice(SHAPES)) if shape is None else list(shape)
        n = 1
        for k in shape:
            n *= k
        if rng.random() < 0.12:
            return ["narr", shape, [rng.randint(0, 9) for _ in range(n)]]
        return ["arr", shape, [self._expr(rng, min(depth, 2) if n <= 4 else min(depth, 1),
                                          arrays=rng.random() < 0.25) for _ in range(n)]]

    def _place(self, rng, arr):
        x, f = ["v", "x"], ["v", "f"]
        k = rng.choice(["top", "top", "call", "sub", "sum", "tup", "lst", "if", "pow", "arr", "callkw"])
        if k == "top":
            return arr
        if k == "call":
            return ["call", f, [arr, x] if rng.random() < 0.5 else [x, arr]]
        if k == "callkw":
            return ["callkw", f, [x], [["m", arr]]]
        if k == "sub":
            return ["sub", ["v", "a"], arr]
        if k == "sum":
            return ["sum", [x, ["prod", [["i", 2], arr]]]]
        if k == "tup":
            return ["tup", [x, arr]]
        if k == "lst":
            return ["lst", [arr, x]]
        if k == "if":
            return ["if", ["cmp", x, "<", ["i", 0]], arr, x]
        if k == "pow":
            return ["pow", arr, ["i", 2]]
        return ["arr", [2], [x, arr]]

    def cases(self, rng, tier):
        n = 2400 if tier == "quick" else 40000
        # every shape under every mode, entries distinct variables plus something composite
        for shape in SHAPES:
            size = 1
            for k in shape:
                size *= k
            entries = [(["sum", [["v", f"e{i}"], ["i", i]]] if i % 2 else ["v", f"e{i}"]) for i in range(size)]
            arr = ["arr", shape, entries]
            for mode in ("walk", "identity", "rename", "combine", "vars", "deps"):
                for tree in (arr, ["call", ["v", "f"], [arr, ["v", "x"]]]):
                    yield {"mode": mode, "tree": tree, "skip": [], "args": len(shape) % len(ARG_SETS)}
            yield {"mode": "walk", "tree": ["tup", [arr, ["v", "x"]]], "skip": ["ndarray"], "args": 1}
        for i in range(n):
            mode = ARRAY_MODES[i % len(ARRAY_MODES)]
            tree = self._place(rng, self._array(rng, rng.randint(1, 3)))
            if rng.random() < 0.2:
                tree = self._place(rng, tree) if tree[0] != "arr" or rng.random() < 0.5 else tree
            skip = rng.sample(SKIPPABLE, rng.choice([0, 0, 0, 1, 2])) if mode == "walk" else []
            yield {"mode": mode, "tree": tree, "skip": skip, "args": rng.randrange(len(ARG_SETS))}

    # ---- running
    RENAME = {"x": "x_r", "y": "y_r", "e0": "e0_r", "e3": "e3_r"}

    def _run(self, pl):
        """-> (tree, log, result | None, exception | None)"""
        tree = build(pl["tree"])
        args, kwargs = ARG_SETS[pl["args"]]
        log = []
        mode = pl["mode"]
        if mode == "walk":
            m = walker(False, set(pl["skip"]), log)
        elif mode == "identity":
            m = identity(False, log)
        elif mode == "rename":
            m = identity(False, log, rename=self.RENAME)
        elif mode == "combine":
            m = combiner(False, log)
        elif mode == "vars":
            m = var_collector(False, log)
        else:
            m = dep_mapper(False, log)
        try:
            return tree, log, m(tree, *args, **kwargs), None
        except RecursionError:
            raise
        except Exception as ex:     # noqa: BLE001
            return tree, log, None, ex

    def run_impl(self, pl):
        tree, log, res, ex = self._run(pl)
        if ex is not None:
            return f"(err {type(ex).__name__})"
        return f"({pl['mode']} {len(log)})"

    @staticmethod
    def _rank_of(spec):
        """ranks of the arrays of the tree, as a short text for the failure key"""
        ranks = set()

        def go(s_):
            if s_[0] in ("arr", "narr"):
                ranks.add(len(s_[1]))
            for _st, c in spec_kids(s_):
                go(c)
        go(spec)
        return "rank" + "+".join(str(r) for r in sorted(ranks))

    def oracle(self, pl):
        tree, log, res, ex = self._run(pl)
        mode = pl["mode"]
        args, kwargs = ARG_SETS[pl["args"]]
        rk = self._rank_of(pl["tree"])
        if ex is not None:
            # everything in these trees is a node type every stock traversal handles
            return Failure(f"array-{mode}-raises:{type(ex).__name__}",
                           f"{mode} over {tree!r} ({rk}) raises {ex!r}; every node type in it is handled", pl)
        for what, node, a, k in log:
            if a != tuple(args) or k != kwargs:
                return Failure(f"array-{mode}-args-changed:{type(node).__name__}",
                               f"{what} of {node!r} received {a} {k}, the call was made with {args} {kwargs}", pl)
        if mode == "walk":
            skip = set(pl["skip"])
            want = ref_walk(tree, skip)
            events = [(w, n) for w, n, _a, _k in log]
            try:
                got = parse_walk(events, skip)
            except Malformed as m:
                return Failure("array-walk-order", f"walk over {tree!r} ({rk}): {m}", pl)
            if got != want:
                cg, cw = flat_counts(got), flat_counts(want)
                diff = {t: (cg.get(t, 0), cw.get(t, 0)) for t in set(cg) | set(cw)
                        if cg.get(t, 0) != cw.get(t, 0)}
                if diff:
                    worst = sorted(diff)[0]
                    return Failure(f"array-walk-occurrences:{worst}",
                                   f"walk over {tree!r} ({rk}): visits per node type (observed, node occurrences "
                                   f"in the tree) differ: {diff}", pl)
                return Failure("array-walk-order",
                               f"walk over {tree!r} ({rk}): the nodes are visited, but not each below its parent", pl)
            return None
        if mode in ("identity", "rename"):
            want = tree if mode == "identity" else build(pl["tree"], ren=self.RENAME)
            why = same_tree(res, want, keep_objects=(mode == "identity"))
            if why:
                return Failure(f"array-{mode}-differs", f"{mode} mapper on {tree!r} ({rk}): {why}", pl)
            return None
        if mode == "combine":
            want = sorted(map(token, ref_leaves(tree)))
            got = sorted(map(token, res))
            if got != want:
                return Failure("array-combine-misses-child",
                               f"{tree!r} ({rk}): folded {len(got)} leaves, the tree has {len(want)}", pl)
            return None
        want = ref_variables(tree)
        if res != want:
            return Failure(f"array-{mode}-fold",
                           f"{tree!r} ({rk}): collected {sorted(map(str, res))}, the variables below are "
                           f"{sorted(map(str, want))}", pl)
        return None

    def shrink(self, pl):
        if pl["args"]:
            yield {**pl, "args": 0}
        for s_ in spec_subtrees(pl["tree"]):
            if spec_has(s_, ("arr", "narr")):
                yield {**pl, "tree": s_}
        for s_ in shrink_shapes(pl["tree"]):
            yield {**pl, "tree": s_}
        for s_ in spec_simplifications(pl["tree"]):
            if spec_has(s_, ("arr", "narr")):
                yield {**pl, "tree": s_}
        for i in range(len(pl["skip"])):
            yield {**pl, "skip": pl["skip"][:i] + pl["skip"][i + 1:]}

    def nontrivial_key(self, pl, model, impl):
        return json.dumps(pl, sort_keys=True)

    def stats(self, pl, mo, io, acc):
        acc[pl["mode"]] = acc.get(pl["mode"], 0) + 1
        rk = self._rank_of(pl["tree"])
        acc[rk] = acc.get(rk, 0) + 1
        if io.startswith("(err") or io == "reported":
            acc["raised"] = acc.get("raised", 0) + 1

# }}}


# {{{ array-walk (model correspondence)

class ArrayWalkModelStream(Stream):
    """The walk of ONE array whose entries are leaves — every rank from 0 to 4, axes of length
    0..3, `visit` answering True / False on the array, with / without extra arguments — as the real
    `WalkMapper` does it vs. `aWalkTable` (lean/PV/Model/StockNodes.lean) run on the
    `map_numpy_array` row REGENERATED from the source under test: the objects `visit` /
    `post_visit` receive, in order — the array, the entry at a flat index, or a VIEW of the array
    (shape, offset of its first entry) — and whether the extra arguments arrived.  (The property
    itself on these and on arrays inside trees: the oracle of `array-traversal`.)"""
    name = "array-walk"

    def cases(self, rng, tier):
        for shape in SHAPES:
            for skip in (False, True):
                for args in (False, True):
                    yield {"shape": shape, "skip": skip, "args": args}
        for _ in range(150 if tier == "quick" else 3000):
            shape = [rng.choice([0, 1, 1, 2, 2, 3]) for _ in range(rng.randint(0, 4))]
            yield {"shape": shape, "skip": rng.random() < 0.15, "args": rng.random() < 0.5}

    def request(self, pl):
        b = lambda v: "true" if v else "false"      # noqa: E731
        return f"(c04arraywalk {b(pl['skip'])} {b(pl['args'])} ({' '.join(map(str, pl['shape']))}))"

    def run_impl(self, pl):
        import numpy as np
        shape = tuple(pl["shape"])
        size = 1
        for k in shape:
            size *= k
        entries = [p.Variable(f"e{i}") for i in range(size)]
        top = build(["arr", list(shape), [["v", "x"]] * size])
        for idx, e in zip(itertools.product(*[range(n) for n in shape]), entries):
            top[idx] = e
        where = {id(e): i for i, e in enumerate(entries)}
        args, kwargs = ARG_SETS[1] if pl["args"] else ARG_SETS[0]
        log = []
        w = walker(False, {"ndarray"} if pl["skip"] else set(), log)
        try:
            w(top, *args, **kwargs)
        except RecursionError:
            raise
        except Exception as ex:     # noqa: BLE001
            return f"(err {type(ex).__name__})"
        out = []
        for what, n, a, k in log:
            if isinstance(n, np.ndarray):
                off = where[id(n.flat[0])] if n.size and id(n.flat[0]) in where else 0
                obj = f"(array ({' '.join(map(str, n.shape))}) {0 if n is top else off})"
            else:
                obj = f"(entry {where.get(id(n), -1)})"
            ok = pl["args"] and a == tuple(args) and k == kwargs
            out.append(f"({what} {obj} {'true' if ok else 'false'})")
        return "(" + " ".join(out) + ")"

    def nontrivial_key(self, pl, model, impl):
        return json.dumps(pl, sort_keys=True)

    def stats(self, pl, mo, io, acc):
        k = f"rank{len(pl['shape'])}"
        acc[k] = acc.get(k, 0) + 1

# }}}


# {{{ user-nodes

#: the base classes a user's node class may be derived from.  abstract: no stock traversal handles
#: the class as such (the documentation lists it as a base class, not as a node); `names`: the
#: handler names the class and its ancestors declare, nearest first
ROOTS = {
    "Expression": dict(abstract=True, names=[]),
    "AlgebraicLeaf": dict(abstract=True, names=["map_algebraic_leaf"]),
    "Leaf": dict(abstract=True, names=["map_leaf", "map_algebraic_leaf"]),
    "QuotientBase": dict(abstract=True, names=["map_quotient_base"]),
    "Variable": dict(abstract=False, names=["map_variable"]),
    "Wildcard": dict(abstract=False, names=["map_wildcard"]),
    "DotWildcard": dict(abstract=False, names=["map_dot_wildcard"]),
    "FunctionSymbol": dict(abstract=False, names=["map_function_symbol"]),
    "Sum": dict(abstract=False, names=["map_sum"]),
    "Min": dict(abstract=False, names=["map_min"]),
    "Call": dict(abstract=False, names=["map_call"]),
    "Subscript": dict(abstract=False, names=["map_subscript"]),
    "Power": dict(abstract=False, names=["map_power"]),
    "Quotient": dict(abstract=False, names=["map_quotient"]),
    "CommonSubexpression": dict(abstract=False, names=["map_common_subexpression"]),
}
ABSTRACT_ROOTS = [r for r, d in ROOTS.items() if d["abstract"]]
CONCRETE_ROOTS = [r for r, d in ROOTS.items() if not d["abstract"]]
#: the handler names of the base classes: a user's mapper may implement these too
BASE_HANDLERS = ["map_algebraic_leaf", "map_leaf", "map_quotient_base"]

USER_KINDS = ["collector", "cached-collector", "deps", "cached-deps", "combine", "cached-combine",
              "identity", "cached-identity", "walk", "cached-walk", "callback"]
#: what `CallbackMapper` has handlers for
CALLBACK_ROOTS = ["Variable", "FunctionSymbol", "Sum", "Call", "Subscript", "Power", "Quotient",
                  "CommonSubexpression"]
CALLBACK_POSITIONS = ["top", "sum", "prod", "call", "sub", "if", "cond", "pow", "tup", "cse", "quot"]
POSITIONS = ["top", "sum", "prod", "call", "fn", "sub", "if", "cond", "pow", "tup", "cse", "quot",
             "min", "callkw", "slice", "deriv", "and", "lst", "arr", "deep"]
UNHASHABLE_POSITIONS = ("lst", "arr")
#: the combine family has no handlers for slices and derivatives
FOLD_UNSUPPORTED_POSITIONS = ("slice", "deriv")
#: `CSECachingMapperMixin` (a base of the dependency mappers) documents that it takes no keyword
#: arguments: positional extra arguments only there
POSITIONAL_ARG_SETS = [i for i, (_a, k) in enumerate(ARG_SETS) if not k]

FIELD_VALUES = {
    "name": lambda: "u", "numerator": lambda: p.Variable("n"), "denominator": lambda: 2,
    "children": lambda: (p.Variable("c"), p.Product((2, p.Variable("d")))),
    "function": lambda: p.Variable("g"), "parameters": lambda: (p.Variable("c"), 3),
    "aggregate": lambda: p.Variable("b"), "index": lambda: p.Variable("c"),
    "base": lambda: p.Variable("c"), "exponent": lambda: 2,
    "child": lambda: p.Sum((p.Variable("c"), 1)),
}


def snake(name):
    """CamelCase -> snake_case as the documentation of `expr_dataclass` describes it"""
    out = []
    for i, c in enumerate(name):
        prev = name[i - 1] if i else ""
        nxt = name[i + 1] if i + 1 < len(name) else ""
        if prev and c.isascii() and c.isupper() and (
                ("a" <= prev <= "z") or ("A" <= prev <= "Z" and "a" <= nxt <= "z")):
            out.append("_")
        out.append(c)
    return "".join(out).lower()


def build_user_classes(root, chain):
    """chain: base-first [[name, how, own|None]], how = decorated | plain.  -> list of classes"""
    warnings.simplefilter("ignore")
    parent = getattr(p, root)
    out = []
    for i, (name, how, own) in enumerate(chain):
        body = {}
        if own is not None:
            body["mapper_method"] = own
        if how == "decorated":
            ann = {}
            if i == 0 and root in ("Expression", "AlgebraicLeaf", "Leaf"):
                ann["name"] = str
            body["__annotations__"] = ann
            cls = p.expr_dataclass()(type(name, (parent,), body))
        else:
            if not dataclasses.is_dataclass(parent):
                # the pre-dataclass way of declaring a node
                body["__getinitargs__"] = lambda self: ()
                body["init_arg_names"] = ()
            cls = type(name, (parent,), body)
        out.append(cls)
        parent = cls
    return out


_CLASS_MEMO: dict = {}


def user_classes(root, chain):
    """`build_user_classes`, one set of classes per declaration (the decorator compiles code for
    every class: building them anew for every case is most of the running time).  The classes a
    later case gets are the ones an earlier case has dispatched on — mappers differ per case."""
    key = json.dumps([root, chain])
    if key not in _CLASS_MEMO:
        if len(_CLASS_MEMO) > 4000:
            _CLASS_MEMO.clear()
        _CLASS_MEMO[key] = build_user_classes(root, [tuple(c) for c in chain])
    return _CLASS_MEMO[key]


def instantiate(cls):
    if not dataclasses.is_dataclass(cls):
        return cls()
    # (a value for every field this table knows: `Subscript.index` has a dataclass default — the
    # inherited method `Expression.index` — that is no expression)
    return cls(**{f.name: FIELD_VALUES[f.name]() for f in dataclasses.fields(cls)
                  if f.name in FIELD_VALUES})


def expected_names(root, chain, upto):
    """the handler names along the MRO of user class `upto`, nearest first, from the declaration
    rules: an own `mapper_method` stands; a decorated class without one gets map_<snake name>; an
    undecorated class without one has its parent's"""
    eff = []
    inherited = ROOTS[root]["names"][0] if ROOTS[root]["names"] else None
    for name, how, own in chain[:upto + 1]:
        if own is not None:
            inherited = own
        elif how == "decorated":
            inherited = "map_" + snake(name)
        eff.append(inherited)
    return list(reversed(eff)) + list(ROOTS[root]["names"])


def place(position, slot_spec=("slot",)):
    s = list(slot_spec)
    x, y, f = ["v", "x"], ["v", "y"], ["v", "f"]
    return {
        "top": s,
        "sum": ["sum", [x, s]],
        "prod": ["sum", [y, ["prod", [["i", 2], s]]]],
        "call": ["call", f, [x, ["prod", [["i", 2], s]]]],
        "fn": ["call", s, [x]],
        "sub": ["sub", ["v", "a"], s],
        "if": ["if", ["cmp", x, "<", y], x, ["pow", s, ["i", 2]]],
        "cond": ["if", ["cmp", s, "<", y], x, y],
        "pow": ["pow", x, s],
        "tup": ["tup", [x, s]],
        "cse": ["cse", ["sub", x, s]],
        "quot": ["quot", s, y],
        "min": ["min", [x, s]],
        "callkw": ["callkw", f, [x], [["k", s]]],
        "slice": ["sub", ["v", "a"], ["slice", [x, s, None]]],
        "deriv": ["deriv", ["prod", [x, s]]],
        "and": ["and", [["cmp", x, "<", y], s]],
        "lst": ["lst", [x, s]],
        "arr": ["arr", [1, 2], [x, s]],
        "deep": ["sum", [x, ["call", f, [["if", ["cmp", x, "<", y], ["tup", [y, s]], x]]]]],
    }[position]


def family(kind):
    return kind[len("cached-"):] if kind.startswith("cached-") else kind


class UserNodesStream(Stream):
    """A user's node class may hang off any base class the library offers.  For hierarchies one to
    three levels deep below `Expression`, `AlgebraicLeaf`, `Leaf`, `QuotientBase` (base classes:
    no stock traversal has a handler for them) and below concrete nodes (`Variable`, `Sum`,
    `Call`, ...), decorated and undecorated, with and without a `mapper_method` of their own; for
    every stock traversal (collector, dependency, combine, identity, walk — plain and memoizing —
    and the callback mapper) subclassed by a user mapper that implements a SUBSET of the handler
    names in play (the base classes' names `map_leaf` / `map_algebraic_leaf` / `map_quotient_base`
    included); with the node at every kind of position in a tree:

      * some name along the node class's MRO, before any library node's, is implemented by the
        user's mapper -> the nearest such handler is called, once per occurrence, with the node
        and the extra arguments unchanged, and its result is what the traversal folds in;
      * else the class is derived from a library node -> the traversal treats it as that node
        (does not raise; walk / fold / identity contracts hold, children from the fields);
      * else nothing handles it -> the traversal RAISES `UnsupportedExpressionError` or
        `NotImplementedError`; returning a result means the node was silently skipped.

    reference: the handler names from the declaration rules (`expected_names`), the trees from
    `kids`; nothing of the dispatch code is consulted."""
    name = "user-nodes"
    #: model: `c04ResolveMro` (lean/PV/Model/StockNodes.lean) on the handler tables REGENERATED from
    #: the source under test, with the MRO names read off the real classes — what the traversal
    #: does with the node: a user handler, the stock handler of a library ancestor, or an error
    has_model = True
    #: leaf handlers the harness's own mapper subclasses add to the stock class
    HARNESS_HANDLERS = {
        "collector": ["map_variable"],
        "combine": ["map_constant", "map_variable", "map_wildcard", "map_dot_wildcard",
                    "map_star_wildcard", "map_function_symbol"],
    }

    # ---- generation
    CHAIN_NAMES = ["Port", "TaggedPort", "HTTPPort"]

    def _positions(self, kind):
        pos = CALLBACK_POSITIONS if kind == "callback" else POSITIONS
        if kind.startswith("cached-"):
            pos = [q_ for q_ in pos if q_ not in UNHASHABLE_POSITIONS]
        if family(kind) in ("collector", "deps", "combine"):
            pos = [q_ for q_ in pos if q_ not in FOLD_UNSUPPORTED_POSITIONS]
        return pos

    @staticmethod
    def _argsel(rng, kind):
        return rng.choice(POSITIONAL_ARG_SETS) if family(kind) == "deps" else rng.randrange(len(ARG_SETS))

    def _chain(self, rng, depth):
        chain = []
        for i in range(depth):
            how = "decorated" if rng.random() < 0.7 else "plain"
            r = rng.random()
            own = None if r < 0.7 else (f"map_own{i}" if r < 0.9 else "map_shared")
            chain.append([self.CHAIN_NAMES[i], how, own])
        return chain

    def _candidates(self, root, chain):
        names = expected_names(root, chain, len(chain) - 1)
        return sorted(set(n for n in names if n and n not in ROOTS[root]["names"])
                      | set(BASE_HANDLERS) | {"map_unrelated"})

    def cases(self, rng, tier):
        # nothing implemented, every base class, every kind of traversal: must raise
        for root in ABSTRACT_ROOTS:
            chains = [[[n, h, None] for n, h in zip(self.CHAIN_NAMES, hows)]
                      for d in (1, 2, 3) for hows in itertools.product(["decorated", "plain"], repeat=d)]
            if tier == "quick":
                chains = chains[:6] + rng.sample(chains[6:], 3)
            for chain in chains:
                for kind in USER_KINDS:
                    pos = self._positions(kind)
                    for position in (["top"] + rng.sample(pos[1:], 2 if tier == "quick" else 6)):
                        yield {"root": root, "chain": chain, "kind": kind, "handlers": [],
                               "node": len(chain) - 1, "position": position, "twice": False,
                               "args": self._argsel(rng, kind)}
        n = 4000 if tier == "quick" else 60000
        for _ in range(n):
            kind = rng.choice(USER_KINDS)
            if rng.random() < 0.6:
                root = rng.choice(ABSTRACT_ROOTS)
            else:
                root = rng.choice(CALLBACK_ROOTS if kind == "callback" else CONCRETE_ROOTS)
            chain = self._chain(rng, rng.randint(1, 3))
            cand = self._candidates(root, chain)
            dens = rng.choice([0.0, 0.15, 0.35, 0.6])
            handlers = [c for c in cand if rng.random() < dens]
            yield {"root": root, "chain": chain, "kind": kind, "handlers": handlers,
                   "node": rng.randrange(len(chain)), "position": rng.choice(self._positions(kind)),
                   "twice": (not kind.startswith("cached-")) and rng.random() < 0.2,
                   "args": self._argsel(rng, kind)}

    # ---- the expectation
    def _expect(self, pl):
        """("handler", name) | ("as-ancestor", None) | ("raise", None)"""
        root, chain, hs = pl["root"], pl["chain"], set(pl["handlers"])
        names = expected_names(root, chain, pl["node"])
        user_level = len(names) - len(ROOTS[root]["names"])
        for i, nm in enumerate(names):
            if i >= user_level and not ROOTS[root]["abstract"]:
                return ("as-ancestor", None)      # the library node's own handler comes first
            if nm and nm in hs:
                return ("handler", nm)
        return ("raise", None)

    # ---- running
    def _mapper(self, pl, log):
        kind = pl["kind"]
        fam = family(kind)
        cached = kind.startswith("cached-")

        def mk(name):
            def handler(self, expr, *args, **kwargs):
                log.append(("handler:" + name, expr, args, dict(kwargs)))
                if fam in ("collector", "deps"):
                    return {("H", name)}
                if fam == "combine":
                    return [("H", name)]
                if fam == "walk":
                    self.visit(expr, *args, **kwargs)
                    self.post_visit(expr, *args, **kwargs)
                    return None
                return expr
            handler.__name__ = name
            return handler
        extra = {h: mk(h) for h in pl["handlers"]}
        if fam == "collector":
            return var_collector(cached, log, extra)
        if fam == "deps":
            return dep_mapper(cached, log, extra)
        if fam == "combine":
            return combiner(cached, log, extra)
        if fam == "identity":
            return identity(cached, log, extra)
        if fam == "walk":
            return walker(cached, set(), log, extra)
        return callback(log, extra)

    def _run(self, pl):
        classes = user_classes(pl["root"], [list(c) for c in pl["chain"][:pl["node"] + 1]])
        node = instantiate(classes[pl["node"]])
        spec = place(pl["position"])
        if pl["twice"]:
            spec = ["tup", [spec, ["sum", [["v", "z"], ["slot"]]]]]
        tree = build(spec, slot=node)
        args, kwargs = ARG_SETS[pl["args"]]
        log = []
        m = self._mapper(pl, log)
        try:
            return tree, node, log, m(tree, *args, **kwargs), None
        except RecursionError:
            raise
        except Exception as ex:     # noqa: BLE001
            return tree, node, log, None, ex

    def request(self, pl):
        classes = user_classes(pl["root"], [list(c) for c in pl["chain"][:pl["node"] + 1]])
        mro = [getattr(c, "mapper_method", None) for c in classes[pl["node"]].__mro__ if c is not object]
        fam = family(pl["kind"])
        return "(c04usernode {} ({}) ({}) ({}))".format(
            fam, " ".join(q(h) for h in pl["handlers"]),
            " ".join(q(h) for h in self.HARNESS_HANDLERS.get(fam, [])),
            " ".join(q(m) if m else "nil" for m in mro))

    def run_impl(self, pl):
        from pymbolic.mapper import UnsupportedExpressionError
        tree, node, log, res, ex = self._run(pl)
        hs = [w[len("handler:"):] for w, n, _a, _k in log if n is node and w.startswith("handler:")]
        if hs:
            return f"(handler {q(hs[0])})"
        if isinstance(ex, (UnsupportedExpressionError, NotImplementedError)):
            return "reported"
        if ex is not None:
            return f"(err {type(ex).__name__})"
        return "stock"

    def oracle(self, pl):
        from pymbolic.mapper import UnsupportedExpressionError
        tree, node, log, res, ex = self._run(pl)
        kind, fam, root = pl["kind"], family(pl["kind"]), pl["root"]
        args, kwargs = ARG_SETS[pl["args"]]
        what, hname = self._expect(pl)
        names = expected_names(root, pl["chain"], pl["node"])
        here = (f"{kind} mapper implementing {sorted(pl['handlers'])} on {tree!r}: the node is a "
                f"{type(node).__name__} (classes {[c[:2] for c in pl['chain'][:pl['node'] + 1]]} below "
                f"{root}; handler names along its MRO: {names})")
        if what == "raise":
            if ex is None:
                return Failure(f"unhandled-node-skipped:{fam}:{root}",
                               f"{here}; nothing handles this node type, so the traversal has to raise "
                               f"UnsupportedExpressionError / NotImplementedError — it returned {res!r}", pl)
            if not isinstance(ex, (UnsupportedExpressionError, NotImplementedError)):
                return Failure(f"unhandled-node-other-error:{fam}:{type(ex).__name__}",
                               f"{here}; nothing handles this node type; raised {ex!r}", pl)
            return None
        if ex is not None:
            k = "user-handler-not-reached" if what == "handler" else "derived-node-rejected"
            return Failure(f"{k}:{fam}:{root if what != 'handler' else type(ex).__name__}",
                           f"{here}; expected: {'handler ' + hname if hname else 'treated as ' + root}; "
                           f"raised {ex!r}", pl)
        for w, n, a, k in log:
            if a != tuple(args) or k != kwargs:
                return Failure(f"user-nodes-args-changed:{fam}",
                               f"{here}; {w} of {n!r} received {a} {k}, the call was made with {args} {kwargs}", pl)
        occurrences = 1 if (not pl["twice"] or kind.startswith("cached-")) else 2
        called = [w[len("handler:"):] for w, n, _a, _k in log if n is node and w.startswith("handler:")]
        if what == "handler":
            if called != [hname] * occurrences:
                k = "user-handler-not-reached" if not called else (
                    "user-handler-wrong" if set(called) != {hname} else "user-handler-count")
                return Failure(f"{k}:{fam}",
                               f"{here}; the nearest implemented handler is {hname}, to be called "
                               f"{occurrences}x; handlers called on the node: {called}", pl)
            special_set = lambda n: {("H", hname)} if n is node else None       # noqa: E731
            special_list = lambda n: [("H", hname)] if n is node else None      # noqa: E731
            leaf_ids = (id(node),)
        else:
            if called:
                return Failure(f"derived-node-to-user-handler:{fam}",
                               f"{here}; handlers called on the node: {called}, but {root}'s own handler "
                               "is nearer", pl)
            special_set = special_list = None
            leaf_ids = ()
        pre = "user-handler" if what == "handler" else "derived-node"
        if fam in ("collector", "deps"):
            want = ref_variables(tree, special_set)
            if res != want:
                return Failure(f"{pre}-fold:{fam}", f"{here}; result {sorted(map(str, res))}, the "
                               f"children contribute {sorted(map(str, want))}", pl)
        elif fam == "combine":
            # (a memoizing mapper answers for an EQUAL subtree with the result it has: leaves by
            # value there, by object otherwise)
            by_value = kind.startswith("cached-")
            tk = lambda v: v if isinstance(v, tuple) and v and v[0] == "H" else (     # noqa: E731
                ("val", type(v).__name__, repr(v)) if by_value else token(v))
            want = sorted(map(tk, ref_leaves(tree, special_list)), key=repr)
            got = sorted(map(tk, res), key=repr)
            if got != want:
                return Failure(f"{pre}-fold:{fam}", f"{here}; folded {len(got)} leaves, the tree has "
                               f"{len(want)}", pl)
        elif fam in ("identity", "callback"):
            # (the memoizing identity mapper may answer for an equal subtree with the object it met
            # first: an equal tree there, the same objects otherwise)
            why = same_tree(res, tree, keep_objects=not kind.startswith("cached-"))
            if why:
                return Failure(f"{pre}-identity:{fam}", f"{here}; {why}", pl)
        elif kind == "walk":
            events = [(w, n) for w, n, _a, _k in log if w in ("visit", "post")]
            want = ref_walk(tree, set(), leaf_ids)
            try:
                got = parse_walk(events, set())
            except Malformed as m:
                return Failure(f"{pre}-walk-order", f"{here}; {m}", pl)
            if got != want:
                cg, cw = flat_counts(got), flat_counts(want)
                diff = {t: (cg.get(t, 0), cw.get(t, 0)) for t in set(cg) | set(cw)
                        if cg.get(t, 0) != cw.get(t, 0)}
                return Failure(f"{pre}-walk-occurrences", f"{here}; visits per node type (observed, "
                               f"occurrences in the tree): {diff}", pl)
        return None

    def shrink(self, pl):
        for i in range(len(pl["handlers"])):
            yield {**pl, "handlers": pl["handlers"][:i] + pl["handlers"][i + 1:]}
        if pl["twice"]:
            yield {**pl, "twice": False}
        if pl["position"] != "top":
            yield {**pl, "position": "top"}
        if pl["args"]:
            yield {**pl, "args": 0}
        if len(pl["chain"]) > pl["node"] + 1:
            yield {**pl, "chain": pl["chain"][:pl["node"] + 1]}
        if pl["node"] > 0:
            yield {**pl, "chain": pl["chain"][1:], "node": pl["node"] - 1}
        for i, (nm, how, own) in enumerate(pl["chain"]):
            if own is not None:
                ch = [list(c) for c in pl["chain"]]
                ch[i][2] = None
                yield {**pl, "chain": ch}
            if how == "plain":
                ch = [list(c) for c in pl["chain"]]
                ch[i][1] = "decorated"
                yield {**pl, "chain": ch}
        if pl["kind"].startswith("cached-"):
            yield {**pl, "kind": family(pl["kind"])}

    def nontrivial_key(self, pl, model, impl):
        return json.dumps(pl, sort_keys=True)

    def stats(self, pl, mo, io, acc):
        acc[family(pl["kind"])] = acc.get(family(pl["kind"]), 0) + 1
        w = self._expect(pl)[0]
        acc["expect:" + w] = acc.get("expect:" + w, 0) + 1
        acc["root:" + pl["root"]] = acc.get("root:" + pl["root"], 0) + 1
        if io.startswith("(err") or io == "reported":
            acc["raised"] = acc.get("raised", 0) + 1

# }}}
