"""C02 — two further stream families (imported by harness/props/c02.py).

* `FreeNameStream` ("free-names"): the clause "a missing variable is reported as an unknown-variable
  error naming it" quantifies over EVERY variable name.  Names that resolve in some other namespace
  of the running program (builtins, standard-library / third-party module names, the globals of the
  evaluator's own modules, attributes of the mapper object, parameters and locals of the entry
  points) are exactly the ones a fallback look-up would find, so the stream sweeps those name
  spaces: each name unbound (must be reported, by name, wherever it sits in the expression and
  through every entry point) and bound by the caller (the caller's value is what is used).
* `ProcHistStream` ("process-history"): the value of an expression is a function of the expression
  and the environment ONLY.  Histories of evaluations in ONE PROCESS, each through a fresh entry
  point or on one of a few long-lived instances (each with its own fixed environment), over a small
  pool of expressions that share common subexpressions of every scope/prefix, in environments that
  differ from step to step (including steps that raise): every step must give the meaning of its
  expression in ITS environment, whatever was evaluated before by whichever mapper object.

The reference is `oracles/pyeval.pyeval` (plain Python operators, written from the property text).
"""
from __future__ import annotations

import json
import keyword
import os
import subprocess
import sys

from .core import Failure, Stream
from .gen import ExprGen, rand_env
from .oracles.pyeval import is_safe, outcome, pyeval, same_outcome
from .sexp import (Func, Record, dumps, env_to_sx, exc_to_sx, expr_to_sx, loads, sx_shrinks,
                   sx_to_env, sx_to_expr, value_to_sx)

ENTRIES = ["plain", "cached", "evaluate", "evaluate_kw", "evaluate_plaincls"]
#: the two parameters the keyword entry point declares itself cannot be passed as keywords
KW_RESERVED = ("expression", "mapper_cls")


def run_entry(entry, e, env):
    """one evaluation through a FRESH mapper object / entry point"""
    from pymbolic.mapper.evaluator import (CachedEvaluationMapper, EvaluationMapper, evaluate,
                                           evaluate_kw)
    if entry == "plain":
        return EvaluationMapper(env)(e)
    if entry == "cached":
        return CachedEvaluationMapper(env)(e)
    if entry == "evaluate":
        return evaluate(e, env)
    if entry == "evaluate_plaincls":
        return evaluate(e, env, mapper_cls=EvaluationMapper)
    return evaluate_kw(e, **env)


def result_sx(fn):
    try:
        return dumps(value_to_sx(fn()))
    except RecursionError:
        raise
    except Exception as ex:
        return dumps(exc_to_sx(ex))


def model_flag(entry):
    return "false" if entry in ("plain", "evaluate_plaincls") else "true"


# ---- names ------------------------------------------------------------------------------------

PARAM_NAMES = ["context", "self", "expr", "env", "kw", "kwargs", "args", "cls", "mapper", "result",
               "kw_context", "cache", "_cache", "rec", "enclosing_prec", "expression", "mapper_cls",
               "name", "key", "value", "child", "children", "e", "pi", "nan", "inf", "np", "sp",
               "True_", "None_", "_", "__"]


def _idents(names):
    return sorted({n for n in names if isinstance(n, str) and n.isidentifier()
                   and not keyword.iskeyword(n)})


def name_spaces():
    """{space: sorted identifier names}: the name spaces of the running program a variable name
    could also be looked up in.  Only a source of INPUTS (variable names); nothing here is used
    as a reference."""
    import builtins
    import importlib
    spaces = {"builtins": _idents(dir(builtins)), "params": _idents(PARAM_NAMES)}
    std = set(getattr(sys, "stdlib_module_names", ())) | {
        "math", "cmath", "operator", "functools", "itertools", "fractions", "decimal", "numbers",
        "random", "sys", "os"}
    spaces["stdlib-modules"] = _idents(n for n in std if not n.startswith("_"))
    third = {m.split(".")[0] for m in list(sys.modules)} - std
    spaces["loaded-modules"] = _idents(n for n in third if not n.startswith("_"))
    glob = set()
    attrs = set()
    for mod in ("pymbolic", "pymbolic.primitives", "pymbolic.mapper", "pymbolic.mapper.evaluator",
                "pymbolic.functions", "pymbolic.compiler"):
        try:
            glob |= set(vars(importlib.import_module(mod)))
        except Exception:
            pass
    try:
        from pymbolic.mapper.evaluator import CachedEvaluationMapper, EvaluationMapper
        for cls in (EvaluationMapper, CachedEvaluationMapper):
            attrs |= set(dir(cls)) | set(vars(cls({})))
    except Exception:
        pass
    spaces["module-globals"] = _idents(glob)
    spaces["mapper-attributes"] = _idents(attrs)
    return spaces


#: attribute names (none of them an attribute of a Python number: the model gives numbers none)
ATTRS = ["u", "v", "sin", "exp", "floor", "pi", "zz"]


def name_shapes(p, v, attr):
    """(label, expression) — every position a variable can sit in; all other variables (`x`, `b`,
    `f`, `t`) are bound by the environments of the stream, and `v` is the FIRST unbound thing the
    left-to-right, branch-lazy standard evaluation order meets."""
    x, b, f = p.Variable("x"), p.Variable("b"), p.Variable("f")
    return [
        ("var", v),
        ("sum", p.Sum((x, v))),
        ("sum-first", p.Sum((v, x, 1))),
        ("product", p.Product((2, v))),
        ("quotient", p.Quotient(x, v)),
        ("power", p.Power(v, 2)),
        ("tuple", (1, v)),
        ("comparison", p.Comparison(v, "<", x)),
        ("if-then", p.If(p.Comparison(x, "==", x), v, 0)),
        ("if-else", p.If(p.Comparison(x, "!=", x), 0, v)),
        ("if-cond", p.If(v, 1, 0)),
        ("lor", p.LogicalOr((p.Comparison(x, "!=", x), v))),
        ("land", p.LogicalAnd((p.Comparison(x, "==", x), v))),
        ("lnot", p.LogicalNot(v)),
        ("min", p.Min((x, v))),
        ("max", p.Max((v, x))),
        ("cse", p.CommonSubexpression(v)),
        ("cse-twice", p.Sum((p.CommonSubexpression(v, "cs"), p.CommonSubexpression(v, "cs")))),
        ("subscript", p.Subscript(v, 0)),
        ("subscript-index", p.Subscript(p.Variable("t"), v)),
        ("lookup", p.Lookup(v, attr)),
        ("call-lookup", p.Call(p.Lookup(v, attr), (x,))),
        ("call-lookup-quot", p.Call(p.Lookup(v, attr), (p.Quotient(7, 2),))),
        ("call", p.Call(v, (x,))),
        ("call-arg", p.Call(f, (x, v))),
        ("callkw", p.CallWithKwargs(v, (x,), {"k": b})),
        ("callkw-value", p.CallWithKwargs(f, (), {"k": v})),
    ]


N_SHAPES = 27


def function_builders():
    """what `pymbolic.functions` builds: calls of attributes of a FREE VARIABLE"""
    import pymbolic.functions as pf
    import pymbolic.primitives as p
    res = []
    for n in sorted(vars(pf)):
        fn = getattr(pf, n)
        if n.startswith("_") or not callable(fn) or getattr(fn, "__module__", None) != pf.__name__:
            continue
        try:
            e = fn(p.Variable("x"))
        except Exception:
            try:
                e = fn(p.Variable("x"), p.Variable("y"))
            except Exception:
                continue
        if isinstance(e, p.Expression):
            res.append((n, e))
    return res


def bound_value(rng, label):
    """a value for the name when the caller binds it, roughly fitting the position"""
    from fractions import Fraction
    k = rng.random()
    if label.startswith("call") and "arg" not in label and "value" not in label and k < 0.7:
        return Record(u=Func("h"), sin=Func("s"), floor=Func("fl")) if "lookup" in label else Func("h")
    if label == "lookup" and k < 0.7:
        return Record(u=rng.randint(-5, 5), v=Fraction(rng.randint(-5, 5), 3))
    if label == "subscript" and k < 0.7:
        return (rng.randint(-5, 5), Fraction(1, 2))
    if label == "subscript-index" and k < 0.7:
        return rng.randint(-3, 2)
    if k < 0.5:
        return rng.randint(-6, 6)
    if k < 0.8:
        return Fraction(rng.randint(-7, 7), rng.randint(1, 4))
    return rng.random() < 0.5


class FreeNameStream(Stream):
    """Variables of ANY name, unbound and bound, in every position, through every entry point."""
    name = "free-names"

    def _base_env(self, rng):
        from fractions import Fraction
        return {"x": rng.choice([3, -2, Fraction(2, 3), True, 7]), "b": rng.random() < 0.5,
                "f": Func("f"), "t": (rng.randint(-4, 4), Fraction(1, 2))}

    def cases(self, rng, tier):
        import pymbolic.primitives as p
        spaces = name_spaces()
        per_name = 2 if tier == "quick" else 12
        seen = set()
        for space in sorted(spaces):
            names = spaces[space]
            for n in names:
                if n in ("x", "b", "f", "t"):
                    continue
                if (space, n) in seen:
                    continue
                seen.add((space, n))
                v = p.Variable(n)
                for j in range(per_name):
                    attr = rng.choice(ATTRS)
                    shapes = name_shapes(p, v, attr)
                    label, e = shapes[0] if j == 0 and rng.random() < 0.3 else rng.choice(shapes)
                    env = self._base_env(rng)
                    entry = rng.choice(ENTRIES)
                    bound = rng.random() < 0.25
                    if bound:
                        env[n] = bound_value(rng, label)
                        if entry == "evaluate_kw" and n in KW_RESERVED:
                            entry = "evaluate"
                    if rng.random() < 0.1:
                        env = {k: w for k, w in env.items() if k == n}   # (almost) empty environment
                    yield {"space": space, "shape": label, "expr": dumps(expr_to_sx(e)),
                           "env": dumps(env_to_sx(env)), "variant": entry}
        # trees built by the library's own function builders: their free variable is not bound
        for n, e in function_builders():
            for entry in ENTRIES:
                env = self._base_env(rng)
                env["y"] = rng.randint(1, 5)
                yield {"space": "function-builders", "shape": n, "expr": dumps(expr_to_sx(e)),
                       "env": dumps(env_to_sx(env)), "variant": entry}

    def request(self, pl):
        return f"(evalhist {model_flag(pl['variant'])} {pl['env']} ({pl['expr']}))"

    def agree(self, model, impl, pl):
        return super().agree(model, "(" + impl + ")", pl)

    def run_impl(self, pl):
        e = sx_to_expr(loads(pl["expr"]))
        env = sx_to_env(loads(pl["env"]))
        return result_sx(lambda: run_entry(pl["variant"], e, env))

    def oracle(self, pl):
        e = sx_to_expr(loads(pl["expr"]))
        env = sx_to_env(loads(pl["env"]))
        ref = outcome(lambda: pyeval(e, env))
        got = outcome(lambda: run_entry(pl["variant"], e, dict(env)))
        if same_outcome(ref, got):
            return None
        what = (f"{pl['variant']}: evaluator gives {got!r}, the standard meaning is {ref!r} "
                f"(environment binds {sorted(env)})")
        if ref[:2] == ("err", "UnknownVariable"):
            if got[0] == "ok":
                return Failure("missing-variable:value-returned", what, pl)
            if got[:2] == ("err", "UnknownVariable"):
                return Failure("missing-variable:wrong-name", what, pl)
            return Failure("missing-variable:other-error", what, pl)
        return Failure("eval-differs:named-variable", what, pl)

    def shrink(self, pl):
        for s in sx_shrinks(loads(pl["expr"])):
            yield {**pl, "expr": dumps(s), "shape": "shrunk"}
        env = loads(pl["env"])
        for i in range(len(env)):
            yield {**pl, "env": dumps(env[:i] + env[i + 1:])}

    def nontrivial_key(self, pl, model, impl):
        return pl["expr"] + pl["env"] + pl["variant"]

    def stats(self, pl, mo, io, acc):
        sp = acc.setdefault("spaces", {})
        sp[pl["space"]] = sp.get(pl["space"], 0) + 1
        res = acc.setdefault("result_kinds", {})
        k = "unknown-variable" if "UnknownVariable" in io[:24] else ("err" if io.startswith("(err") else "ok")
        res[k] = res.get(k, 0) + 1


# ---- histories of evaluations in one process ------------------------------------------------------

def cse_scopes():
    import pymbolic.primitives as p
    return [p.cse_scope.EVALUATION, p.cse_scope.EXPRESSION, p.cse_scope.GLOBAL, "user_scope"]


PREFIXES = [None, "cs", "tmp"]


def _rebuild(e):
    """an equal-but-not-identical copy"""
    return sx_to_expr(loads(dumps(expr_to_sx(e))))


class ProcHistStream(Stream):
    """Histories of evaluations in one process (see the module docstring).  Payload: `envs` (a few
    environments), `insts` (long-lived mapper objects: class + index of their fixed environment),
    `steps` = [{expr, env: index, who: entry point | "inst:<k>"}]."""
    name = "process-history"

    #: isolated confirmations (fresh interpreter) of failing inputs: search phase / shrink phase
    ISO_SEARCH, ISO_SHRINK = 6, 90

    def __init__(self):
        self._iso_used = 0
        self._shrinking = False

    # -- generation ---------------------------------------------------------------------------
    def _vary(self, rng, env):
        """another environment: a few rebindings of the numeric / boolean variables, sometimes a
        fresh one, sometimes with a variable removed"""
        from fractions import Fraction
        k = rng.random()
        if k < 0.2:
            return rand_env(rng, big=rng.random() < 0.15)
        new = dict(env)
        for n in rng.sample(["x", "y", "z", "i", "j", "n", "m", "b", "c"], rng.randint(1, 5)):
            old = new.get(n)
            if isinstance(old, bool):
                new[n] = not old
            elif n in ("i", "j"):
                new[n] = rng.randint(-6, 6)
            elif n in ("n", "m"):
                new[n] = rng.randint(-3, 4)
            else:
                new[n] = rng.choice([rng.randint(-5, 5), Fraction(rng.randint(-7, 7), rng.randint(1, 4)),
                                     rng.randint(-5, 5)])
        if rng.random() < 0.3:
            new["t"] = tuple(rng.randint(-4, 4) for _ in range(rng.randint(1, 3)))
        if rng.random() < 0.3:
            new["r"] = Record(u=rng.randint(-5, 5), v=rng.randint(-3, 3))
        if k > 0.9:
            new.pop(rng.choice(["x", "y", "i", "b"]), None)
        return new

    def _pool(self, rng, g):
        """a few expressions sharing common subexpressions of every scope / prefix"""
        import pymbolic.primitives as p
        scopes = cse_scopes()
        cses = []
        for _ in range(rng.randint(1, 3)):
            child = g.gen(rng.choice(["num", "num", "int", "bool", "any"]), rng.randint(1, 3))
            if cses and rng.random() < 0.3:
                child = p.Sum((rng.choice(cses), child))
            cses.append(p.CommonSubexpression(child, rng.choice(PREFIXES), rng.choice(scopes)))
        pool = []
        for _ in range(rng.randint(2, 4)):
            k = rng.random()
            c = rng.choice(cses)
            if k < 0.3:
                e = c
            elif k < 0.5:
                e = p.Sum((c, p.Product((2, rng.choice(cses)))))
            elif k < 0.6:
                e = p.CommonSubexpression(p.Sum((c, 1)), rng.choice(PREFIXES), rng.choice(scopes))
            elif k < 0.7:
                e = p.If(g.gen("bool", 2), c, g.gen("num", 2))
            elif k < 0.8:
                e = (c, g.gen("num", 2), rng.choice(cses))
            elif k < 0.9:
                e = p.Call(p.Variable("f"), (c, g.gen("num", 1)))
            else:
                e = g.gen(rng.choice(["num", "int", "bool", "any"]), rng.randint(1, 4))   # no wrapper at all
            pool.append(e)
        return pool

    def cases(self, rng, tier):
        yield from self._small(rng, tier)
        n = 350 if tier == "quick" else 6000
        g = ExprGen(rng, cse=0.1, lists=False)
        done = 0
        while done < n:
            pool = self._pool(rng, g)
            envs = [rand_env(rng, big=rng.random() < 0.1)]
            for _ in range(rng.randint(1, 3)):
                envs.append(self._vary(rng, rng.choice(envs)))
            insts = [{"cached": rng.random() < 0.5, "env": rng.randrange(len(envs))}
                     for _ in range(rng.randint(0, 2))]
            steps = []
            for _ in range(rng.randint(2, 7)):
                e = rng.choice(pool)
                if rng.random() < 0.3:
                    e = _rebuild(e)
                if insts and rng.random() < 0.3:
                    k = rng.randrange(len(insts))
                    steps.append({"expr": e, "env": insts[k]["env"], "who": f"inst:{k}"})
                else:
                    steps.append({"expr": e, "env": rng.randrange(len(envs)),
                                  "who": rng.choice(ENTRIES)})
            if not all(is_safe(s["expr"], envs[s["env"]]) for s in steps):
                continue
            done += 1
            yield {"envs": [dumps(env_to_sx(v)) for v in envs], "insts": insts,
                   "steps": [{**s, "expr": dumps(expr_to_sx(s["expr"]))} for s in steps]}

    def _small(self, rng, tier):
        """exhaustive small: every scope × prefix × wrapper shape over a few children, evaluated
        in a run of environments from a value box, each step through another entry point"""
        import itertools
        from fractions import Fraction
        import pymbolic.primitives as p
        x, y = p.Variable("x"), p.Variable("y")
        children = [p.Sum((x, 1)), p.Product((x, y)), p.Power(x, 2), p.Comparison(x, "<", y),
                    p.If(p.Comparison(x, ">=", y), x, y), p.Max((x, y)), p.Quotient(y, x),
                    (x, p.Sum((y, y)))]
        vals = [-2, -1, 0, 1, 2, 3, True, False, Fraction(1, 2), Fraction(-7, 3), 10**12 + 7]
        if tier == "quick":
            children = children[:6]
        i = 0
        for child, scope, prefix in itertools.product(children, cse_scopes(), PREFIXES):
            cse = p.CommonSubexpression(child, prefix, scope)
            shapes = [cse, p.Sum((cse, p.Product((2, cse)))),
                      p.CommonSubexpression(p.Sum((cse, 1)), None, scope)]
            if isinstance(child, tuple):
                shapes = [cse, (cse, cse)]
            for e in shapes:
                runs = 1 if tier == "quick" else 6
                for _ in range(runs):
                    envs = [{"x": rng.choice(vals), "y": rng.choice(vals)} for _ in range(4)]
                    steps = []
                    for k in range(len(envs)):
                        i += 1
                        steps.append({"expr": dumps(expr_to_sx(e)), "env": k,
                                      "who": ENTRIES[i % len(ENTRIES)]})
                    yield {"envs": [dumps(env_to_sx(v)) for v in envs], "insts": [], "steps": steps}

    # -- running ------------------------------------------------------------------------------
    @staticmethod
    def _runner(pl):
        """(environments, function step -> thunk evaluating it on the real code)"""
        from pymbolic.mapper.evaluator import CachedEvaluationMapper, EvaluationMapper
        envs = [sx_to_env(loads(s)) for s in pl["envs"]]
        objs = {}

        def thunk(step):
            e = sx_to_expr(loads(step["expr"]))
            env = envs[step["env"]]
            who = step["who"]
            if who.startswith("inst:"):
                k = int(who[5:])
                if k not in objs:
                    spec = pl["insts"][k]
                    objs[k] = (CachedEvaluationMapper if spec["cached"] else EvaluationMapper)(
                        dict(envs[spec["env"]]))
                return e, env, (lambda: objs[k](e))
            return e, env, (lambda: run_entry(who, e, dict(env)))
        return thunk

    def request(self, pl):
        steps = []
        for s in pl["steps"]:
            who = s["who"]
            if who.startswith("inst:"):
                k = int(who[5:])
                inst = str(k)
                c = "true" if pl["insts"][k]["cached"] else "false"
            else:
                inst = "fresh"
                c = model_flag(who)
            steps.append(f"({inst} {c} {pl['envs'][s['env']]} {s['expr']})")
        return f"(c02-prochist ({' '.join(steps)}))"

    def run_impl(self, pl):
        thunk = self._runner(pl)
        out = []
        for s in pl["steps"]:
            _, _, run = thunk(s)
            out.append(result_sx(run))
        return "(" + " ".join(out) + ")"

    def judge(self, pl):
        """the property, on this history alone (in whatever state the process is in)"""
        thunk = self._runner(pl)
        for k, s in enumerate(pl["steps"]):
            e, env, run = thunk(s)
            got = outcome(run)
            ref = outcome(lambda: pyeval(e, env))
            # a fresh object: exact (value and type); a long-lived instance may share results
            # between `==` keys (1 / True), as in the history stream
            same = same_outcome_hist if s["who"].startswith("inst:") else same_outcome
            if not same(ref, got):
                if "(List" in s["expr"] and got[:2] == ("err", "TypeError"):
                    return Failure("unhashable-list", f"step #{k}: {got!r} vs {ref!r}", pl)
                return Failure("process-history-differs",
                               f"step #{k} ({s['who']}): evaluator gives {got!r}; the meaning of "
                               f"{s['expr']} in its environment {pl['envs'][s['env']]} is {ref!r}",
                               pl)
        return None

    def judge_isolated(self, pl):
        """the same judgement in a fresh interpreter (nothing evaluated before)"""
        try:
            r = subprocess.run([sys.executable, "-m", "harness.c02_streams"], input=json.dumps(pl),
                               capture_output=True, text=True, timeout=120,
                               cwd=os.path.dirname(os.path.dirname(os.path.abspath(__file__))))
            res = json.loads(r.stdout.strip().split("\n")[-1])
        except Exception as ex:
            return Failure("process-history-differs", f"(isolated run failed: {ex!r})", pl)
        if res is None:
            return None
        return Failure(res["key"], res["detail"], pl)

    def oracle(self, pl):
        f = self.judge(pl)
        if f is None or f.key != "process-history-differs" or os.environ.get("VERIF_C02_ISOLATED"):
            return f
        # a failing history is confirmed in a fresh interpreter, so that the reported input fails by
        # itself (the process may carry state from earlier cases of the run)
        limit = self.ISO_SHRINK if self._shrinking else self.ISO_SEARCH
        if self._iso_used >= limit:
            return None if self._shrinking else f
        self._iso_used += 1
        g = self.judge_isolated(pl)
        if g is not None:
            return g
        if self._shrinking:
            return None
        f.key = "process-history-differs:after-earlier-cases"
        f.detail += ("  [fails only after the earlier cases of this stream were evaluated in the "
                     "same process; this history alone passes in a fresh interpreter]")
        return f

    def shrink(self, pl):
        if not self._shrinking:
            self._shrinking = True
            self._iso_used = 0
        st = pl["steps"]
        for i in range(len(st)):
            if len(st) > 1:
                yield {**pl, "steps": st[:i] + st[i + 1:]}
        used = sorted({s["env"] for s in st} | {pl["insts"][int(s["who"][5:])]["env"]
                                                for s in st if s["who"].startswith("inst:")})
        if len(used) < len(pl["envs"]):
            # drop the environments no step refers to
            new = {old: k for k, old in enumerate(used)}
            yield {"envs": [pl["envs"][k] for k in used],
                   "insts": [{**spec, "env": new.get(spec["env"], 0)} for spec in pl["insts"]],
                   "steps": [{**s, "env": new[s["env"]]} for s in st]}
        for i in range(len(st)):
            if st[i]["who"].startswith("inst:"):
                yield {**pl, "steps": st[:i] + [{**st[i], "who": "plain"}] + st[i + 1:]}
        for i in range(len(st)):
            for s in sx_shrinks(loads(st[i]["expr"])):
                new = dumps(s)
                # the same replacement in every step that carries this expression
                yield {**pl, "steps": [({**t, "expr": new} if t["expr"] == st[i]["expr"] else t)
                                       for t in st]}

    def nontrivial_key(self, pl, model, impl):
        return json.dumps(pl, sort_keys=True)

    def stats(self, pl, mo, io, acc):
        acc["steps"] = acc.get("steps", 0) + len(pl["steps"])
        acc["on_instances"] = acc.get("on_instances", 0) + sum(
            1 for s in pl["steps"] if s["who"].startswith("inst:"))
        sc = acc.setdefault("scopes", {})
        for s in pl["steps"]:
            for scope in cse_scopes():
                if f'"{scope}")' in s["expr"]:
                    sc[scope] = sc.get(scope, 0) + 1
        acc["raising_steps"] = acc.get("raising_steps", 0) + io.count("(err")


def same_outcome_hist(ref, got):
    """On a long-lived instance results may be shared between `==` keys (1 / True): compare values
    with == there (as the history stream does); exact otherwise."""
    if ref[0] != got[0]:
        return False
    if ref[0] == "err":
        return ref[1:] == got[1:]
    from .oracles.pyeval import loosely_equal
    return loosely_equal(ref[1], got[1])


def _main():
    pl = json.loads(sys.stdin.read())
    os.environ["VERIF_C02_ISOLATED"] = "1"
    f = ProcHistStream().judge(pl)
    print(json.dumps(None if f is None else {"key": f.key, "detail": f.detail}))


if __name__ == "__main__":
    _main()
