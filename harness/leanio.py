"""Build the Lean project, audit axioms, and talk to the compiled driver."""
from __future__ import annotations

import fcntl
import json
import os
import re
import subprocess
import time

VERIF = os.path.dirname(os.path.dirname(os.path.abspath(__file__)))
LEAN = os.path.join(VERIF, "lean")
DRIVER = os.path.join(LEAN, ".lake", "build", "bin", "driver")
ALLOWED_AXIOMS = {"propext", "Classical.choice", "Quot.sound"}


class BuildLock:
    def __enter__(self):
        self.f = open(os.path.join(LEAN, ".lock"), "w")
        fcntl.flock(self.f, fcntl.LOCK_EX)
        return self

    def __exit__(self, *a):
        fcntl.flock(self.f, fcntl.LOCK_UN)
        self.f.close()


def lake_build(targets: list[str], timeout=3000):
    """Returns (ok, log)."""
    cmd = ["lake", "build", *targets]
    pr = subprocess.run(cmd, cwd=LEAN, capture_output=True, text=True, timeout=timeout)
    return pr.returncode == 0, pr.stdout + pr.stderr


def failing_decls(log: str) -> list[str]:
    """Names of files / declarations mentioned in Lean error messages."""
    out = []
    for m in re.finditer(r"error: ([^\s:]+\.lean):(\d+):(\d+)", log):
        out.append(f"{m.group(1)}:{m.group(2)}")
    return out


def audit_axioms(theorems: list[str], imports: list[str], timeout=1200):
    """`#print axioms` for every listed theorem.  Returns dict name -> list of axioms, or
    name -> None when the name does not exist / does not elaborate."""
    src = "".join(f"import {m}\n" for m in imports)
    for t in theorems:
        src += f"#print axioms {t}\n"
    path = os.path.join(LEAN, ".lake", f"audit_{os.getpid()}.lean")
    with open(path, "w") as f:
        f.write(src)
    try:
        pr = subprocess.run(["lake", "env", "lean", path], cwd=LEAN, capture_output=True,
                            text=True, timeout=timeout)
    finally:
        os.unlink(path)
    text = pr.stdout + pr.stderr
    res: dict[str, list[str] | None] = {t: None for t in theorems}
    # messages: "'Name' depends on axioms: [a, b]" or "'Name' does not depend on any axioms"
    for m in re.finditer(r"'([^']+)' depends on axioms: \[([^\]]*)\]", text, re.S):
        res[m.group(1)] = [a.strip() for a in m.group(2).replace("\n", " ").split(",") if a.strip()]
    for m in re.finditer(r"'([^']+)' does not depend on any axioms", text):
        res[m.group(1)] = []
    return res, text


def pv_closure(targets: list[str]) -> list[str]:
    """the project's own modules that `targets` import, transitively (import lines of the sources)"""
    seen: list[str] = []
    todo = [t for t in targets if t.startswith("PV")]
    while todo:
        m = todo.pop()
        if m in seen:
            continue
        path = os.path.join(LEAN, *m.split(".")) + ".lean"
        if not os.path.exists(path):
            continue
        seen.append(m)
        with open(path) as f:
            for line in f:
                mm = re.match(r"\s*(?:public\s+)?import\s+(PV[\w.]*)", line)
                if mm:
                    todo.append(mm.group(1))
    return sorted(seen)


def leanchecker(modules: list[str], timeout=3000):
    """independent re-check of the compiled modules by the toolchain's `leanchecker`.
    Returns (ok, log)."""
    pr = subprocess.run(["lake", "env", "leanchecker", *modules], cwd=LEAN, capture_output=True,
                        text=True, timeout=timeout)
    return pr.returncode == 0, (pr.stdout + pr.stderr)[-2000:]


FORBIDDEN = re.compile(
    r"\b(sorry|admit|native_decide|bv_decide|implemented_by)\b|^\s*axiom\s|\bunsafe\s|maxHeartbeats 0")


def _strip_comments(src: str) -> str:
    # remove /- ... -/ (nested) and -- comments; keep strings untouched (good enough for an audit)
    out = []
    i, n, depth = 0, len(src), 0
    while i < n:
        if src.startswith("/-", i):
            depth += 1
            i += 2
        elif depth and src.startswith("-/", i):
            depth -= 1
            i += 2
        elif depth:
            if src[i] == "\n":
                out.append("\n")
            i += 1
        elif src.startswith("--", i):
            while i < n and src[i] != "\n":
                i += 1
        else:
            out.append(src[i])
            i += 1
    return "".join(out)


def source_grep(files: list[str]) -> list[str]:
    hits = []
    for fn in files:
        with open(fn) as f:
            text = _strip_comments(f.read())
        for ln, line in enumerate(text.split("\n"), 1):
            if FORBIDDEN.search(line):
                hits.append(f"{os.path.relpath(fn, LEAN)}:{ln}: {line.strip()}")
    return hits


def lean_sources() -> list[str]:
    res = []
    for root, _dirs, files in os.walk(os.path.join(LEAN, "PV")):
        for fn in files:
            if fn.endswith(".lean"):
                res.append(os.path.join(root, fn))
    res.append(os.path.join(LEAN, "Driver.lean"))
    return sorted(res)


def run_driver(lines: list[str], timeout=3000) -> list[str]:
    """Pipe request lines to the compiled driver, return reply lines."""
    if not lines:
        return []
    data = "\n".join(lines) + "\n"
    pr = subprocess.run([DRIVER], input=data, capture_output=True, text=True, timeout=timeout)
    if pr.returncode != 0:
        raise RuntimeError(f"driver failed: rc={pr.returncode} {pr.stderr[:2000]}")
    out = pr.stdout.split("\n")
    if out and out[-1] == "":
        out.pop()
    if len(out) != len(lines):
        raise RuntimeError(f"driver returned {len(out)} lines for {len(lines)} requests")
    return out
