"""C08 helpers: expressions rich in SELECTION CHAINS and substitution maps whose keys are whole
subscript / look-up nodes of every shape.

The property quantifies over "all substitution maps (keys given as names, variables, subscripts or
look-ups; values arbitrary expressions, including ones that mention other keys)".  The generic
expression generator rarely nests selections, and picks keys only among the nodes that occur in the
expression.  This module adds the two families that need more:

* keys whose AGGREGATE is itself a selection or any other expression (`a[i][j]`, `r.p.x`,
  `r.d[0]`, `(a if x < y else b)[i][j]`), at every nesting level, together with neighbours that do
  not occur (same aggregate, another index / attribute) which must be left alone;
* keys that do not occur in the expression but are what the substitution BUILDS from a node that
  does occur (`a[i]` with `i -> j` builds `a[j]`; `a[j]` is a key too), closed under substituting
  the output again (`a[b[i]]`, `i -> 0`, `b[0] -> 5`, `a[5] -> 100`).  A substitution that looks
  its own output up again (not simultaneous) gives another tree than the property allows.

`ref_subst` is a reference implementation of simultaneous substitution over the dataclass fields of
the nodes; it is used to GENERATE keys and to CLASSIFY failures, never to decide whether there is
one (the verdict is the value oracle of the property statement).

Environment: `a`, `b`: 3x3 grids; `c`: three small indices; `r`, `s`: records `(p=(x, y), d=row,
n=index, u=number, g=grid)`; `i`, `j`, `k`: indices 0..2; `x`, `y`, `z`: numbers; `f`, `g`:
functions.  Every generated selection is well typed against it, so most cases can be evaluated.
"""
from __future__ import annotations

import dataclasses
from fractions import Fraction

import pymbolic.primitives as p

from .sexp import Func, Record

GRIDS = ["a", "b"]
RECS = ["r", "s"]
IDX = ["i", "j", "k"]
NUMS = ["x", "y", "z"]
INTERCEPTED = (p.Variable, p.Subscript, p.Lookup)


# {{{ the environment

def sel_env(rng):
    def num():
        return (rng.randint(-9, 9) if rng.random() < 0.65
                else Fraction(rng.randint(-9, 9), rng.randint(2, 4)))

    def row():
        return tuple(num() for _ in range(3))

    def grid():
        return tuple(row() for _ in range(3))

    env = {v: num() for v in NUMS}
    for v in IDX:
        env[v] = rng.randint(0, 2)
    for v in GRIDS:
        env[v] = grid()
    env["c"] = tuple(rng.randint(0, 2) for _ in range(3))
    for v in RECS:
        env[v] = Record(p=Record(x=num(), y=num()), d=row(), n=rng.randint(0, 2), u=num(),
                        g=grid())
    env["f"] = Func("f")
    env["g"] = Func("g")
    return env

# }}}


# {{{ kinds (what a node evaluates to in `sel_env`)

def kind_of(node) -> str:
    if isinstance(node, p.Variable):
        n = node.name
        return ("grid" if n in GRIDS else "rec" if n in RECS else "idx" if n in IDX
                else "irow" if n == "c" else "num")
    if isinstance(node, p.Subscript):
        k = kind_of(node.aggregate)
        return {"grid": "row", "row": "num", "irow": "idx"}.get(k, "num")
    if isinstance(node, p.Lookup):
        k = kind_of(node.aggregate)
        if k == "rec":
            return {"p": "prec", "d": "row", "n": "idx", "u": "num", "g": "grid"}.get(node.name, "num")
        return "num"
    if isinstance(node, p.If):
        return kind_of(node.then)
    return "num"

# }}}


class SelGen:
    """expressions over `sel_env` in which selections are nested in aggregates and in indices"""

    def __init__(self, rng):
        self.rng = rng

    # selections by kind -------------------------------------------------------------------------
    def index(self, d=1):
        r = self.rng
        k = r.random()
        if k < 0.3:
            return r.randint(0, 2)
        if k < 0.65:
            return p.Variable(r.choice(IDX))
        if k < 0.82 and d > 0:
            return p.Subscript(p.Variable("c"), self.index(d - 1))       # a[c[i]]
        if k < 0.92:
            return p.Lookup(p.Variable(r.choice(RECS)), "n")
        return p.Sum((p.Variable(r.choice(IDX)), r.choice([-1, 0, 1])))

    def grid(self):
        r = self.rng
        k = r.random()
        if k < 0.7:
            return p.Variable(r.choice(GRIDS))
        if k < 0.85:
            return p.Lookup(p.Variable(r.choice(RECS)), "g")
        return p.If(p.Comparison(self.numleaf(), r.choice(["<", "<=", "!="]), self.numleaf()),
                    p.Variable("a"), p.Variable("b"))

    def row(self):
        r = self.rng
        k = r.random()
        if k < 0.7:
            return p.Subscript(self.grid(), self.index())
        return p.Lookup(p.Variable(r.choice(RECS)), "d")

    def sel(self):
        """a number-valued selection chain"""
        r = self.rng
        k = r.random()
        if k < 0.5:
            return p.Subscript(self.row(), self.index())                   # a[i][j], r.d[0]
        if k < 0.7:
            return p.Lookup(p.Lookup(p.Variable(r.choice(RECS)), "p"), r.choice(["x", "y"]))
        if k < 0.8:
            return p.Lookup(p.Variable(r.choice(RECS)), r.choice(["u", "n"]))
        if k < 0.9:
            return p.Subscript(p.Variable("c"), self.index())
        # the aggregate is a call: dispatched like any other node, not evaluable as a selection
        return p.Subscript(p.Call(p.Variable("f"), (self.numleaf(),)), self.index(0))

    def numleaf(self):
        r = self.rng
        k = r.random()
        if k < 0.45:
            return p.Variable(r.choice(NUMS))
        if k < 0.6:
            return p.Variable(r.choice(IDX))
        return r.randint(-4, 9)

    def leaf(self):
        return self.sel() if self.rng.random() < 0.6 else self.numleaf()

    def of_kind(self, kind):
        """a replacement that evaluates to the same kind of thing as the node it replaces"""
        r = self.rng
        if kind == "idx":
            return self.index()
        if kind == "row":
            return self.row()
        if kind == "irow":
            return p.Variable("c")
        if kind == "grid":
            return self.grid()
        if kind == "rec":
            return p.Variable(r.choice(RECS))
        if kind == "prec":
            return p.Lookup(p.Variable(r.choice(RECS)), "p")
        k = r.random()
        if k < 0.3:
            return p.Variable(r.choice(NUMS))
        if k < 0.5:
            return r.randint(10, 99)
        if k < 0.8:
            return self.sel()
        return self.gen(1)

    # trees ----------------------------------------------------------------------------------------
    def gen(self, d):
        r = self.rng
        if d <= 0 or r.random() < 0.2:
            return self.leaf()
        op = r.choice(["sum", "sum", "prod", "prod", "quot", "pow", "if", "call", "callkw", "min",
                       "rowarg", "cse", "neg"])
        g = lambda: self.gen(d - 1)          # noqa: E731
        if op == "sum":
            return p.Sum(tuple(g() for _ in range(r.randint(2, 3))))
        if op == "prod":
            return p.Product(tuple(g() for _ in range(r.randint(2, 3))))
        if op == "quot":
            return p.Quotient(g(), g())
        if op == "pow":
            return p.Power(g(), r.randint(0, 3))
        if op == "if":
            return p.If(p.Comparison(g(), r.choice(["<", "<=", "==", "!="]), g()), g(), g())
        if op == "call":
            return p.Call(p.Variable("f"), tuple(g() for _ in range(r.randint(1, 2))))
        if op == "callkw":
            from immutabledict import immutabledict
            return p.CallWithKwargs(p.Variable("g"), (g(),), immutabledict({"k": g()}))
        if op == "min":
            return r.choice([p.Min, p.Max])(tuple(g() for _ in range(2)))
        if op == "rowarg":
            return p.Call(p.Variable("f"), (self.row(), g()))               # a whole row as a value
        if op == "cse":
            return p.CommonSubexpression(g())
        return p.Product((-1, g()))


# {{{ reference: simultaneous substitution

def look(sd, node):
    """the replacement of an intercepted node: by expression, then (variables) by name"""
    if not isinstance(node, INTERCEPTED):
        return None
    try:
        if node in sd:
            return sd[node]
    except TypeError:
        pass
    if isinstance(node, p.Variable) and node.name in sd:
        return sd[node.name]
    return None


def map_fields(x, fn):
    """`x` rebuilt with `fn` applied to its expression-valued fields (the same object when nothing
    changes)"""
    if isinstance(x, tuple):
        new = tuple(fn(c) for c in x)
        return x if all(a is b for a, b in zip(new, x)) else new
    if not isinstance(x, p.Expression):
        return x
    changed = {}
    for f in dataclasses.fields(x):
        v = getattr(x, f.name)
        if isinstance(v, (p.Expression, tuple)):
            nv = fn(v) if isinstance(v, p.Expression) else map_fields(v, fn)
        elif hasattr(v, "items") and not isinstance(v, str):
            from immutabledict import immutabledict
            nv = immutabledict({k: fn(c) for k, c in v.items()})
            if all(nv[k] is v[k] for k in nv):
                nv = v
        else:
            continue
        if nv is not v:
            changed[f.name] = nv
    return dataclasses.replace(x, **changed) if changed else x


def ref_subst(e, sd):
    """every intercepted node that has a replacement is replaced by it, at once; a replacement is
    inserted as it is"""
    def go(x):
        r = look(sd, x)
        if r is not None:
            return r
        return map_fields(x, go)
    return go(e)


def composites(e):
    """the subscript / look-up nodes of `e`, outermost first"""
    from .oracles import scan
    return [s for s in scan.subterms(e) if isinstance(s, (p.Subscript, p.Lookup))]


def reaches(sd, f, r, fuel=4):
    """`r` is what one gets from `f` by substituting some of its nodes AGAIN (classification of a
    failure only)"""
    try:
        if f is r or f == r:
            return True
    except Exception:
        return False
    if fuel > 0:
        again = look(sd, f)
        if again is not None and reaches(sd, again, r, fuel - 1):
            return True
    if isinstance(f, tuple) and isinstance(r, tuple):
        return len(f) == len(r) and all(reaches(sd, a, b, fuel) for a, b in zip(f, r))
    if not isinstance(f, p.Expression) or type(f) is not type(r):
        return False
    for fld in dataclasses.fields(f):
        a, b = getattr(f, fld.name), getattr(r, fld.name)
        if isinstance(a, (p.Expression, tuple)):
            if not reaches(sd, a, b, fuel):
                return False
        elif hasattr(a, "items") and not isinstance(a, str):
            if not hasattr(b, "items") or list(a) != list(b) \
                    or not all(reaches(sd, a[k], b[k], fuel) for k in a):
                return False
        elif a != b:
            return False
    return True


def resubstituting_variants(e, sd, fuel=6):
    """what some NON-simultaneous substitutions return (classification only): the whole output
    substituted again (2..4 passes); bottom-up with every rebuilt node looked up again; the same
    with the inserted replacements traversed too"""
    out = []
    cur = ref_subst(e, sd)
    for _ in range(3):
        cur = ref_subst(cur, sd)
        out.append(cur)

    def bottom_up(into_replacements):
        def go(x, depth=0):
            r = look(sd, x)
            if r is not None:
                return go(r, depth + 1) if into_replacements and depth < fuel else r
            new = map_fields(x, lambda c: go(c, depth))
            n = 0
            while new is not x and n < fuel:
                r = look(sd, new)
                if r is None:
                    break
                new, n = r, n + 1
            return new
        return go(e)
    for flag in (False, True):
        try:
            out.append(bottom_up(flag))
        except RecursionError:
            pass
    return out


def classify(e, r, sd):
    """which clause a wrong result breaks: `subst-key-ignored` (the result is the simultaneous
    substitution under a map from which some keys were dropped), `subst-output-substituted-again`
    (some inserted / rebuilt nodes were looked up again), else None"""
    try:
        ref = ref_subst(e, sd)
        if r == ref:
            return None
        keys = list(sd)
        comp = [k for k in keys if isinstance(k, (p.Subscript, p.Lookup))]
        deep = [k for k in comp if not isinstance(k.aggregate, p.Variable)]
        drops = [[k] for k in keys] + [deep, comp]
        for drop in drops:
            if not drop:
                continue
            sd2 = {k: v for k, v in sd.items() if not any(k is d for d in drop)}
            if r == ref_subst(e, sd2):
                return "subst-key-ignored"
        if reaches(sd, ref, r) or any(r == v for v in resubstituting_variants(e, sd)):
            return "subst-output-substituted-again"
    except Exception:
        return None
    return None

# }}}


# {{{ substitution maps

def other_selection(rng, node):
    """a neighbour of a selection: same aggregate, another index / attribute"""
    if isinstance(node, p.Subscript):
        alts = [i for i in (0, 1, 2, p.Variable("i"), p.Variable("j"), p.Variable("k"))
                if not (i == node.index)]
        return p.Subscript(node.aggregate, rng.choice(alts))
    alts = [n for n in ("x", "y", "u", "n", "d", "p") if n != node.name]
    return p.Lookup(node.aggregate, rng.choice(alts))


def make_composite_sigma(rng, G: SelGen, e, stats=None):
    """[(key, value)] with keys `str` (a name) or expressions.  Modes, 1..3 per map:
    whole (a selection of `e`, preferring those whose aggregate is not a name), swap (two nodes of
    one kind exchanged), plain (a variable, by name or by object), neighbour (a selection that does
    not occur), image (a node that the map builds: see the module text)."""
    from .oracles import scan
    subs = scan.subterms(e)
    comps = [s for s in subs if isinstance(s, (p.Subscript, p.Lookup))]
    deep = [s for s in comps if not isinstance(s.aggregate, p.Variable)]
    vars_ = [s for s in subs if isinstance(s, p.Variable) and s.name not in ("f", "g")]
    entries: list = []
    tags = set()

    def has(key):
        return any(type(k) is type(key) and k == key for k, _v in entries)

    def add(key, val, tag):
        if has(key):
            return False
        entries.append((key, val))
        tags.add(tag)
        return True

    def varkey(v):
        return v.name if rng.random() < 0.5 else v

    modes = rng.sample(["whole", "whole", "deep", "deep", "swap", "plain", "neighbour", "image",
                        "image", "image"], rng.randint(1, 3))
    for mode in modes:
        if mode == "whole" and comps:
            key = rng.choice(comps)
            add(key, G.of_kind(kind_of(key)), "whole")
        elif mode == "deep" and deep:
            key = rng.choice(deep)
            add(key, G.of_kind(kind_of(key)), "deep")
        elif mode == "swap":
            pool = comps + vars_
            if len(pool) >= 2:
                k1 = rng.choice(pool)
                same = [s for s in pool if kind_of(s) == kind_of(k1) and not (s == k1)]
                if same:
                    k2 = rng.choice(same)
                    a = varkey(k1) if isinstance(k1, p.Variable) else k1
                    b = varkey(k2) if isinstance(k2, p.Variable) else k2
                    if not has(a) and not has(b):
                        add(a, k2, "swap")
                        add(b, k1, "swap")
        elif mode == "plain" and vars_:
            v = rng.choice(vars_)
            add(varkey(v), G.of_kind(kind_of(v)), "plain")
        elif mode == "neighbour" and comps:
            key = other_selection(rng, rng.choice(comps))
            add(key, G.of_kind(kind_of(key)), "neighbour")
        elif mode == "image" and comps:
            _add_images(rng, G, e, entries, add, varkey)
    if stats is not None:
        for t in tags:
            stats[t] = stats.get(t, 0) + 1
    return entries


def _add_images(rng, G, e, entries, add, varkey):
    """keys that are BUILT by the map: selections of `ref_subst(e, map)` that are new (not in `e`),
    then (sometimes) of the output substituted again, ..."""
    from .oracles import scan
    seen = list(composites(e))
    cur = e
    for _round in range(rng.randint(1, 3)):
        sd = dict(entries)
        try:
            nxt = ref_subst(cur, sd)
        except Exception:
            return
        new = [c for c in composites(nxt) if not any(c == s for s in seen)]
        if not new:
            # nothing is rebuilt yet: rewrite something INSIDE a selection (its index, its
            # aggregate, a variable further down), keeping the kind
            host = rng.choice(composites(cur) or composites(e))
            inner = [s for s in scan.subterms(host)[1:]
                     if isinstance(s, INTERCEPTED) and not (isinstance(s, p.Variable)
                                                             and s.name in ("f", "g"))]
            if not inner:
                return
            t = rng.choice(inner)
            val = G.of_kind(kind_of(t))
            if isinstance(t, p.Variable) and kind_of(t) == "idx" and rng.random() < 0.7:
                val = rng.choice([p.Variable(n) for n in IDX if n != t.name] + [0, 1, 2])
            if not add(varkey(t) if isinstance(t, p.Variable) else t, val, "inner"):
                return
            sd = dict(entries)
            try:
                nxt = ref_subst(cur, sd)
            except Exception:
                return
            new = [c for c in composites(nxt) if not any(c == s for s in seen)]
            if not new:
                return
        key = rng.choice(new)
        # a value that tells: a constant nothing else evaluates to, or a variable / selection
        val = rng.choice([rng.randint(100, 999), G.of_kind(kind_of(key))])
        add(key, val, "image")
        seen += new
        if rng.random() < 0.6:
            cur = nxt                       # next round: keys built from the OUTPUT

# }}}
