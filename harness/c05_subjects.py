"""User mapper classes given to `optimize_mapper` by the `optimizer-subjects` stream of C05.

`optimize_mapper` re-reads the SOURCE of the class it rewrites and of every method `dir(cls)` shows
from the module files and compiles the flattened class in the union of those modules' globals, so
the classes live in a module of their own whose global names (all prefixed `c05_` / class names)
do not clash with `pymbolic.mapper`.  Every attribute of a subject class must be a plain method or
an alias of one (the optimizer looks every name of `dir(cls)` up in the source).

What the family varies (the four stock memoizing base classes x which handler is overridden):

* the overridden handler is one that the stock base class ALSO publishes under other names
  (`IdentityMapper`: map_product = map_sum, map_floor_div = map_remainder = map_quotient,
  map_right_shift = map_left_shift, map_bitwise_xor/and = map_logical_or/and = map_bitwise_or,
  map_logical_not = map_bitwise_not, map_max = map_min; `CombineMapper` / `WalkMapper`: map_product =
  map_bitwise_* = map_logical_and/or = map_min = map_max = map_sum, map_tuple = map_list, …;
  `Collector`: map_variable = map_wildcard = … = map_constant; `WalkMapper`: map_wildcard = map_nan =
  map_function_symbol = … = map_variable).  In Python such an alias stays bound to the BASE class's
  function: overriding `map_sum` changes nothing for products.
* only alias NAMES are overridden (`IdAliasNames`), or the class declares an alias of its own
  (`IdOwnAlias`: `map_max = map_sum` in the class body: that one does follow the override).
* the result domain: trees (identity), tuples / sets that are EMPTY (falsy) for every subtree
  without a marked node (combine, collector), `None` for every node (walk).

Each override leaves a mark `H|<handler name>|<node type>` in its answer (identity: the function
of a `Call` node; combine: an element of the answer tuple; collector: an element of the answer set;
walk: an entry of `self.log`), so the oracle can tell WHICH handler a node went through without
looking at the library.  No handler takes extra arguments, every class keys its cache by
`(type(expr), expr)` (the shape `test/testlib.py: OptimizedRenamer` uses), so all 32 option sets of
the optimizer are admissible for every class.
"""
from __future__ import annotations

from pymbolic.mapper import (
    CachedCollector,
    CachedCombineMapper,
    CachedIdentityMapper,
    CachedWalkMapper,
    Collector,
    CombineMapper,
    IdentityMapper,
    WalkMapper,
)
from pymbolic.primitives import Call, Variable


def c05_mark(handler, expr):
    return f"H|{handler}|{type(expr).__name__}"


def c05_node(handler, expr, kids):
    return Call(Variable(c05_mark(handler, expr)), tuple(kids))


def c05_log(mapper, entry):
    mapper.__dict__.setdefault("log", []).append(entry)


# {{{ identity: answers are trees

class IdSum(CachedIdentityMapper):
    def map_sum(self, expr):
        return c05_node("map_sum", expr, [self.rec(ch) for ch in expr.children])

    def get_cache_key(self, expr):
        return (type(expr), expr)


class IdQuotient(CachedIdentityMapper):
    def map_quotient(self, expr):
        return c05_node("map_quotient", expr,
                        [self.rec(expr.numerator), self.rec(expr.denominator)])

    def get_cache_key(self, expr):
        return (type(expr), expr)


class IdShift(CachedIdentityMapper):
    def map_left_shift(self, expr):
        return c05_node("map_left_shift", expr, [self.rec(expr.shiftee), self.rec(expr.shift)])

    def get_cache_key(self, expr):
        return (type(expr), expr)


class IdBitwiseOr(CachedIdentityMapper):
    def map_bitwise_or(self, expr):
        return c05_node("map_bitwise_or", expr, [self.rec(ch) for ch in expr.children])

    def get_cache_key(self, expr):
        return (type(expr), expr)


class IdBitwiseNot(CachedIdentityMapper):
    def map_bitwise_not(self, expr):
        return c05_node("map_bitwise_not", expr, [self.rec(expr.child)])

    def get_cache_key(self, expr):
        return (type(expr), expr)


class IdMin(CachedIdentityMapper):
    def map_min(self, expr):
        return c05_node("map_min", expr, [self.rec(ch) for ch in expr.children])

    def get_cache_key(self, expr):
        return (type(expr), expr)


class IdAliasNames(CachedIdentityMapper):
    """overrides names that are aliases in the base class, not their targets"""

    def map_product(self, expr):
        return c05_node("map_product", expr, [self.rec(ch) for ch in expr.children])

    def map_remainder(self, expr):
        return c05_node("map_remainder", expr,
                        [self.rec(expr.numerator), self.rec(expr.denominator)])

    def map_logical_and(self, expr):
        return c05_node("map_logical_and", expr, [self.rec(ch) for ch in expr.children])

    def map_max(self, expr):
        return c05_node("map_max", expr, [self.rec(ch) for ch in expr.children])

    def get_cache_key(self, expr):
        return (type(expr), expr)


class IdOwnAlias(CachedIdentityMapper):
    """an alias declared by the user class itself follows the user's handler"""

    def map_sum(self, expr):
        return c05_node("map_sum", expr, [self.rec(ch) for ch in expr.children])

    map_max = map_sum

    def get_cache_key(self, expr):
        return (type(expr), expr)

# }}}


# {{{ combine: answers are tuples of marks (the empty tuple wherever no marked node is below)

class CoSum(CachedCombineMapper):
    def combine(self, values):
        return tuple([x for v in values for x in v])

    def map_constant(self, expr):
        return ()

    def map_variable(self, expr):
        return ()

    map_wildcard = map_dot_wildcard = map_star_wildcard = map_function_symbol = map_nan = map_variable

    def map_sum(self, expr):
        return (c05_mark("map_sum", expr), *self.combine([self.rec(ch) for ch in expr.children]))

    def get_cache_key(self, expr):
        return (type(expr), expr)


class CoQuotient(CachedCombineMapper):
    def combine(self, values):
        return tuple([x for v in values for x in v])

    def map_constant(self, expr):
        return ()

    def map_variable(self, expr):
        return ()

    map_wildcard = map_dot_wildcard = map_star_wildcard = map_function_symbol = map_nan = map_variable

    def map_quotient(self, expr):
        return (c05_mark("map_quotient", expr),
                *self.combine([self.rec(expr.numerator), self.rec(expr.denominator)]))

    def get_cache_key(self, expr):
        return (type(expr), expr)


class CoBitwiseNot(CachedCombineMapper):
    def combine(self, values):
        return tuple([x for v in values for x in v])

    def map_constant(self, expr):
        return ()

    def map_variable(self, expr):
        return ()

    map_wildcard = map_dot_wildcard = map_star_wildcard = map_function_symbol = map_nan = map_variable

    def map_bitwise_not(self, expr):
        return (c05_mark("map_bitwise_not", expr), *self.rec(expr.child))

    def get_cache_key(self, expr):
        return (type(expr), expr)


class CoList(CachedCombineMapper):
    """`map_tuple = map_list` in the base class; tuples are mapped objects of their own"""

    def combine(self, values):
        return tuple([x for v in values for x in v])

    def map_constant(self, expr):
        return ()

    def map_variable(self, expr):
        return ()

    map_wildcard = map_dot_wildcard = map_star_wildcard = map_function_symbol = map_nan = map_variable

    def map_list(self, expr):
        return (c05_mark("map_list", expr), *self.combine([self.rec(ch) for ch in expr]))

    def map_left_shift(self, expr):
        return (c05_mark("map_left_shift", expr),
                *self.combine([self.rec(expr.shiftee), self.rec(expr.shift)]))

    def get_cache_key(self, expr):
        return (type(expr), expr)

# }}}


# {{{ collector: answers are sets of marks (the empty set wherever no marked node is below)

class ClSum(CachedCollector):
    def map_sum(self, expr):
        return {c05_mark("map_sum", expr)} | self.combine([self.rec(ch) for ch in expr.children])

    def get_cache_key(self, expr):
        return (type(expr), expr)


class ClConstant(CachedCollector):
    """`map_variable = map_wildcard = … = map_constant` in `Collector`"""

    def map_constant(self, expr):
        return {c05_mark("map_constant", expr)}

    def get_cache_key(self, expr):
        return (type(expr), expr)

# }}}


# {{{ walk: every answer is None; what happened is in `self.log`

class WkSum(CachedWalkMapper):
    def post_visit(self, expr):
        c05_log(self, ("post", type(expr).__name__, expr))

    def map_sum(self, expr):
        c05_log(self, (c05_mark("map_sum", expr), type(expr).__name__, expr))
        if not self.visit(expr):
            return
        for ch in expr.children:
            self.rec(ch)
        self.post_visit(expr)

    def get_cache_key(self, expr):
        return (type(expr), expr)


class WkVariable(CachedWalkMapper):
    """`map_wildcard = map_function_symbol = map_nan = … = map_variable` in `WalkMapper`"""

    def post_visit(self, expr):
        c05_log(self, ("post", type(expr).__name__, expr))

    def map_variable(self, expr):
        c05_log(self, (c05_mark("map_variable", expr), type(expr).__name__, expr))
        if not self.visit(expr):
            return
        self.post_visit(expr)

    def get_cache_key(self, expr):
        return (type(expr), expr)


class WkQuotient(CachedWalkMapper):
    def post_visit(self, expr):
        c05_log(self, ("post", type(expr).__name__, expr))

    def map_quotient(self, expr):
        c05_log(self, (c05_mark("map_quotient", expr), type(expr).__name__, expr))
        if not self.visit(expr):
            return
        self.rec(expr.numerator)
        self.rec(expr.denominator)
        self.post_visit(expr)

    def get_cache_key(self, expr):
        return (type(expr), expr)

# }}}


c05_PLAIN_BASE = {CachedIdentityMapper: IdentityMapper, CachedCombineMapper: CombineMapper,
                  CachedCollector: Collector, CachedWalkMapper: WalkMapper}

c05_SUBJECTS = {
    "identity": [IdSum, IdQuotient, IdShift, IdBitwiseOr, IdBitwiseNot, IdMin, IdAliasNames,
                 IdOwnAlias],
    "combine": [CoSum, CoQuotient, CoBitwiseNot, CoList],
    "collector": [ClSum, ClConstant],
    "walk": [WkSum, WkVariable, WkQuotient],
}


def c05_subject(name):
    """(kind, the memoizing class as written) of a subject class name"""
    for kind, classes in c05_SUBJECTS.items():
        for cls in classes:
            if cls.__name__ == name:
                return kind, cls
    raise KeyError(name)


_c05_plain: dict = {}


def c05_plain(cls):
    """the non-memoizing counterpart: the SAME handler functions (and the same aliases among them)
    on the stock non-memoizing base class; Python's attribute lookup does the rest"""
    if cls not in _c05_plain:
        body = {k: v for k, v in vars(cls).items() if callable(v) and k != "get_cache_key"}
        _c05_plain[cls] = type("Plain" + cls.__name__, (c05_PLAIN_BASE[cls.__bases__[0]],), body)
    return _c05_plain[cls]
