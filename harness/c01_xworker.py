"""Second-process leg of the C01 history streams: the reader of pickles written elsewhere.

    python [-O] -m harness.c01_xworker          (PYTHONHASHSEED differs from the writer's)

Line-based and deterministic: the first output line is a JSON object describing this process
(`hash_probe` = `hash("pymbolic-c01")`, `debug`); afterwards every input line is one JSON request

    {"src": "<object S-expression>", "blob": "<base64 pickle>", "proto": n}

answered by exactly one JSON line (`facts`, below, plus `back`: a pickle of the tree this process
built from `src` and hashed completely, for the opposite direction).  EOF on stdin ends the worker.

`facts(blob, src)` is the property's statement for ONE pickle in the process that loads it, and is
used unchanged by the writer for the pickles that come back:

  * which `_hash_value` slots arrived with the pickle (the byte string, and the instance `__dict__`s
    BEFORE any hash call in this process);
  * the fields that arrived (read without `==` / `hash` of any node) against the source;
  * against the same tree built from source HERE: `==` both ways, `!=` both ways, hash equality,
    dict and set membership both ways, `dict.get`, `len({a, b})` -- every observation on a fresh load
    of the pickle and a freshly built tree, so that no observation warms a cache for the next one;
  * the innermost node whose hash differs from the hash of its locally built counterpart, and
    whether that node had arrived with a cached hash (the classification `pickled-hash-stale`).

Nothing here looks at hash VALUES of the other process, at dict / set order or at addresses.
"""
from __future__ import annotations

import base64
import json
import pickle
import sys
import warnings
from collections.abc import Mapping

warnings.simplefilter("ignore")

from . import c01_classes as C  # noqa: E402
from .sexp import dumps, loads  # noqa: E402

HASH_PROBE = "pymbolic-c01"

# observation -> the answer the property demands for a node and a structurally identical one
WANTED = {"eq_ul": True, "eq_lu": True, "ne_ul": False, "ne_lu": False, "hash": True,
          "dict_ul": True, "dict_lu": True, "set_ul": True, "set_lu": True, "get": True,
          "one_key": True, "self_eq": True, "hash_again": True}


def observe(fn):
    try:
        r = fn()
    except RecursionError:
        raise
    except Exception as ex:     # noqa: BLE001
        return "raises:" + type(ex).__name__
    return r if isinstance(r, bool) else f"not-bool:{type(r).__name__}"


def node_pairs(u, loc, out):
    """corresponding Expression nodes of the loaded and the locally built tree, children first;
    each with whether the LOADED node has `_hash_value` in its instance dict right now"""
    if isinstance(loc, C.Expression):
        if type(u) is not type(loc):
            return
        fu, fl = C.fields_of(u), C.fields_of(loc)
        if len(fu) == len(fl):
            for x, y in zip(fu, fl):
                node_pairs(x, y, out)
        out.append((u, loc, "_hash_value" in u.__dict__))
    elif isinstance(loc, (tuple, list)):
        if isinstance(u, (tuple, list)) and len(u) == len(loc):
            for x, y in zip(u, loc):
                node_pairs(x, y, out)
    elif isinstance(loc, Mapping):
        if isinstance(u, Mapping):
            for k, y in loc.items():
                if k in u:
                    node_pairs(u[k], y, out)


def facts(blob: bytes, src: str) -> dict:
    res: dict = {"leak": b"_hash_value" in blob}
    try:
        u0 = pickle.loads(blob)
    except RecursionError:
        raise
    except Exception as ex:     # noqa: BLE001
        res["unpickle"] = "raises:" + type(ex).__name__
        return res
    res["cls"] = type(u0).__name__
    res["slots"] = C.bits(u0)                   # before any hash call in this process
    sx = loads(src)

    def mk():
        return C.sx_to_obj(sx)

    def ld():
        return pickle.loads(blob)

    try:
        res["fields"] = dumps(C.obj_to_sx(u0)) == src
    except RecursionError:
        raise
    except Exception:       # noqa: BLE001
        res["fields"] = False
    l0 = mk()
    res["struct"] = observe(lambda: C.struct_eq(u0, l0))
    if C.has_list(l0) or C.has_nan_const(l0):
        res["obs"] = {}
        return res              # unhashable / nan inside: outside the property
    obs = {
        "eq_ul": observe(lambda: ld() == mk()),
        "eq_lu": observe(lambda: mk() == ld()),
        "ne_ul": observe(lambda: ld() != mk()),
        "ne_lu": observe(lambda: mk() != ld()),
        "hash": observe(lambda: hash(ld()) == hash(mk())),
        "dict_ul": observe(lambda: ld() in {mk(): 1}),
        "dict_lu": observe(lambda: mk() in {ld(): 1}),
        "set_ul": observe(lambda: ld() in {mk()}),
        "set_lu": observe(lambda: mk() in {ld()}),
        "get": observe(lambda: {mk(): "v"}.get(ld()) == "v"),
        "one_key": observe(lambda: len({ld(): 1, mk(): 2}) == 1 and len({mk(), ld()}) == 1),
    }

    def twice():
        u = ld()
        return hash(u) == hash(u) and hash(u) == hash(ld())

    obs["hash_again"] = observe(twice)
    obs["self_eq"] = observe(lambda: ld() == ld())
    res["obs"] = obs
    # the innermost node whose hash is not the hash of its locally built counterpart
    pairs: list = []
    node_pairs(u0, l0, pairs)
    res["nodes"] = len(pairs)
    res["culprit"] = None
    for un, ln, carried in pairs:
        d = observe(lambda: hash(un) != hash(ln))       # noqa: B023
        if d is not False:
            res["culprit"] = {"cls": type(un).__name__, "carried": carried,
                              "raises": d if d is not True else None}
            break
    return res


def judge(res: dict, where: str):
    """-> None | (key, detail): what the property demands of the facts of one pickle"""
    if "unpickle" in res:
        return None             # the pickle cannot be loaded at all: not a statement of C01
    cls = res["cls"]
    if res["fields"] is not True or res["struct"] is not True:
        return (f"pickled-fields-differ:{cls}",
                f"{where}: the loaded node does not have the class and fields of its source")
    bad = {k: v for k, v in res["obs"].items() if v != WANTED[k]}
    if not bad:
        return None
    cul = res.get("culprit")
    what = ", ".join(f"{k}={v}" for k, v in sorted(bad.items()))
    arrived = f"slots arrived {res['slots']}, pickle mentions _hash_value: {res['leak']}"
    if cul is not None and cul["carried"]:
        return (f"pickled-hash-stale:{cul['cls']}",
                f"{where}: a {cul['cls']} node arrived with a cached hash that is not the hash of the "
                f"same node built here; against the structurally identical local tree: {what} ({arrived})")
    if cul is not None:
        return (f"pickled-hash-differs:{cul['cls']}",
                f"{where}: a {cul['cls']} node (no cached hash arrived) hashes unlike the same node "
                f"built here: {what} ({arrived})")
    return (f"pickled-not-interchangeable:{cls}",
            f"{where}: all hashes agree, yet against the structurally identical local tree: {what} ({arrived})")


def serve(inp, out):
    out.write(json.dumps({"hash_probe": hash(HASH_PROBE), "debug": __debug__,
                          "hash_randomization": sys.flags.hash_randomization}) + "\n")
    out.flush()
    for line in inp:
        line = line.strip()
        if not line:
            continue
        try:
            rq = json.loads(line)
            blob = base64.b64decode(rq["blob"])
            res = facts(blob, rq["src"])
            back = None
            if "unpickle" not in res:
                loc = C.sx_to_obj(loads(rq["src"]))
                if not (C.has_list(loc) or C.has_nan_const(loc)):
                    hash(loc)               # every node of the local tree now carries its hash
                    back = base64.b64encode(pickle.dumps(loc, rq["proto"])).decode()
            res["back"] = back
        except RecursionError:
            raise
        except Exception as ex:     # noqa: BLE001
            res = {"worker_error": f"{type(ex).__name__}: {str(ex)[:300]}"}
        out.write(json.dumps(res, sort_keys=True) + "\n")
        out.flush()


if __name__ == "__main__":
    serve(sys.stdin, sys.stdout)
